#!/bin/sh
# Builds the fact extractor (rustc_private driver) offline with the pre-installed nightly toolchain.
set -e
cd "$(dirname "$0")/../driver"
export CARGO_NET_OFFLINE=true
cargo +nightly build --release --offline
test -x target/release/hifi-facts
