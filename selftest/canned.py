"""Canned mutants for checker validation (thorough tier): textual replacements applied to a scratch copy of the CURRENT /repo.
Each entry: (property, name, file, old, new, expect) where expect is the rule prefix that must fire naming the property, or None
for a behaviour-preserving edit on which the property's check must stay silent.  `old` must occur exactly once, otherwise the
mutant is reported as not applicable (skipped), never as a pass.  All compile; none is caught by the 109-test suite as far as
reading tells.  The changes delivered by the independent sub-agents live next to this list under /verif/seeded/*/patch.diff and are
run by the same harness."""

M = [
    # ---------------------------------------------------------------- C01
    ("C01", "mul-wrapping", "src/duration/ops.rs",
     "                .saturating_mul((q * Unit::Nanosecond).total_nanoseconds()),",
     "                .wrapping_mul((q * Unit::Nanosecond).total_nanoseconds()),", "C01.R3"),
    ("C01", "sub-borrow-off-by-one", "src/duration/ops.rs",
     "                        self.nanoseconds += NANOSECONDS_PER_CENTURY - rhs.nanoseconds;",
     "                        self.nanoseconds += NANOSECONDS_PER_CENTURY - rhs.nanoseconds + 1;", "C01.R"),
    ("C01", "neg-century", "src/duration/ops.rs",
     "                        Some(centuries) => Self::from_parts(-centuries, nanoseconds),",
     "                        Some(centuries) => Self::from_parts(-centuries + 1, nanoseconds),", "C01.R"),
    # ---------------------------------------------------------------- C02
    ("C02", "from_total-truncating-div", "src/duration/mod.rs",
     "            let centuries_i128 = nanos.div_euclid(NANOSECONDS_PER_CENTURY.into());",
     "            let centuries_i128 = nanos / i128::from(NANOSECONDS_PER_CENTURY);", "C02.R"),
    ("C02", "from_total-saturation-boundary", "src/duration/mod.rs",
     "            if centuries_i128 > i16::MAX.into() {",
     "            if centuries_i128 >= i16::MAX.into() {", "C02.R"),
    ("C02", "try_truncated-guard", "src/duration/mod.rs",
     "        if self.centuries == i16::MIN || self.centuries.abs() >= 3 {",
     "        if self.centuries == i16::MIN || self.centuries.abs() > 3 {", "C02.R"),
    # ---------------------------------------------------------------- C03
    ("C03", "eq-one-sided-zero-crossing", "src/duration/mod.rs",
     "        } else if (self.centuries == -1 && other.centuries == 0)\n            || (self.centuries == 0 && other.centuries == -1)\n        {",
     "        } else if (self.centuries == -1 && other.centuries == 0)\n            || (self.centuries == 0 && other.centuries <= -1)\n        {", "C03.R"),
    ("C03", "min-returns-max", "src/duration/mod.rs",
     "    pub fn min(self, other: Self) -> Self {\n        if self < other {",
     "    pub fn min(self, other: Self) -> Self {\n        if self > other {", "C03.R"),
    # ---------------------------------------------------------------- C04
    ("C04", "sub-unit-adds", "src/epoch/ops.rs",
     "            duration: self.duration - unit * 1,",
     "            duration: self.duration + unit * 1,", "C04.R"),
    ("C04", "add-assign-unit-twice", "src/epoch/ops.rs",
     "        *self = *self + unit * 1;",
     "        *self = *self + unit * 2;", "C04.R"),
    # ---------------------------------------------------------------- C05
    ("C05", "gst-target-sign", "src/epoch/mod.rs",
     "                TimeScale::GST => prime_epoch_offset - GST_REF_EPOCH.to_tai_duration(),",
     "                TimeScale::GST => prime_epoch_offset + GST_REF_EPOCH.to_tai_duration(),", "C05.R"),
    ("C05", "qzsst-source-uses-bdt", "src/epoch/mod.rs",
     "                TimeScale::QZSST => self.duration + QZSST_REF_EPOCH.to_tai_duration(),",
     "                TimeScale::QZSST => self.duration + BDT_REF_EPOCH.to_tai_duration(),", "C05.R"),
    # ---------------------------------------------------------------- C10
    ("C10", "fraction-separator", "src/parser.rs",
     "                if ending_char == '.' {", "                if ending_char == ',' {", "C10.R"),
    ("C10", "subsecond-scale", "src/epoch/gregorian.rs",
     "                                    .checked_pow((9 - num_digits) as u32)\n                                    .and_then(|scale| val.checked_mul(scale))\n                            } else {\n                                None\n                            };\n                            decomposed[pos] = match scaled {\n                                Some(nanos) => nanos,\n                                None => {\n                                    return Err(HifitimeError::Parse {\n                                        source: ParsingError::ValueError,\n                                        details: \"invalid subseconds\",\n                                    })\n                                }\n                            };\n                        } else {\n                            decomposed[pos] = val\n                        }",
     "                                    .checked_pow((8 - num_digits) as u32)\n                                    .and_then(|scale| val.checked_mul(scale))\n                            } else {\n                                None\n                            };\n                            decomposed[pos] = match scaled {\n                                Some(nanos) => nanos,\n                                None => {\n                                    return Err(HifitimeError::Parse {\n                                        source: ParsingError::ValueError,\n                                        details: \"invalid subseconds\",\n                                    })\n                                }\n                            };\n                        } else {\n                            decomposed[pos] = val\n                        }", "C10.R"),
    ("C10", "scale-name", "src/timescale/fmt.rs",
     "            Self::GPST => write!(f, \"GPST\"),", "            Self::GPST => write!(f, \"GPT\"),", "C10.R"),
    ("C10", "leap-second-text-rejected", "src/parser.rs",
     "                if !(0..=60).contains(&val) {", "                if !(0..=59).contains(&val) {", "C10.R1"),
    ("C10", "jd-dispatch-ignores-scale", "src/epoch/mod.rs",
     "                    ts => Ok(Self::from_jde_in_time_scale(value, ts)),",
     "                    _ => Ok(Self::from_jde_tai(value)),", "C10.R5"),
    ("C10", "mjd-constructor-reference", "src/epoch/initializers.rs",
     "            duration: (days - MJD_J1900) * Unit::Day - time_scale.gregorian_epoch_offset(),",
     "            duration: (days - MJD_J1900) * Unit::Day - time_scale.prime_epoch_offset(),", "C10.R6"),
    # ---------------------------------------------------------------- C13
    ("C13", "format-parse-indexing", "src/efmt/format.rs",
     "                    match self.items.get(cur_item_idx).copied().flatten() {",
     "                    match self.items[cur_item_idx] {", "C13.R1"),
    ("C13", "month-range-too-wide", "src/parser.rs",
     "                if !(0..=13).contains(&val) {", "                if !(0..=300).contains(&val) {", "C13.R"),
    ("C13", "format-token-count-guard", "src/efmt/format.rs",
     "            if me.num_items == MAX_TOKENS && token.chars().next().is_some() {",
     "            if me.num_items > MAX_TOKENS && token.chars().next().is_some() {", "C13.R1"),
    ("C13", "cmp-chars-length-guard", "src/duration/parse.rs",
     "    if start_idx + cmp_bytes.len() > s_bytes.len() {",
     "    if start_idx + cmp_bytes.len() > s_bytes.len() + 1 {", "C13.R1"),
]
