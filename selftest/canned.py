"""Canned mutants for checker validation (thorough tier): textual replacements applied to a scratch copy of the CURRENT /repo.
Each entry: (property, name, file, old, new, expect) where expect is the rule prefix that must fire naming the property, or None
for a behaviour-preserving edit on which the property's check must stay silent.  `old` must occur exactly once, otherwise the
mutant is reported as not applicable (skipped), never as a pass.  All compile; none is caught by the 109-test suite as far as
reading tells.  The changes delivered by the independent sub-agents live next to this list under /verif/seeded/*/patch.diff and are
run by the same harness."""

M = [
    # ---------------------------------------------------------------- C01
    ("C01", "mul-wrapping", "src/duration/ops.rs",
     "                .saturating_mul((q * Unit::Nanosecond).total_nanoseconds()),",
     "                .wrapping_mul((q * Unit::Nanosecond).total_nanoseconds()),", "C01.R3"),
    ("C01", "sub-borrow-off-by-one", "src/duration/ops.rs",
     "                        self.nanoseconds += NANOSECONDS_PER_CENTURY - rhs.nanoseconds;",
     "                        self.nanoseconds += NANOSECONDS_PER_CENTURY - rhs.nanoseconds + 1;", "C01.R"),
    ("C01", "neg-century", "src/duration/ops.rs",
     "                        Some(centuries) => Self::from_parts(-centuries, nanoseconds),",
     "                        Some(centuries) => Self::from_parts(-centuries + 1, nanoseconds),", "C01.R"),
    # ---------------------------------------------------------------- C02
    ("C02", "from_total-truncating-div", "src/duration/mod.rs",
     "            let centuries_i128 = nanos.div_euclid(NANOSECONDS_PER_CENTURY.into());",
     "            let centuries_i128 = nanos / i128::from(NANOSECONDS_PER_CENTURY);", "C02.R"),
    ("C02", "from_total-saturation-boundary", "src/duration/mod.rs",
     "            if centuries_i128 > i16::MAX.into() {",
     "            if centuries_i128 >= i16::MAX.into() {", "C02.R"),
    ("C02", "try_truncated-guard", "src/duration/mod.rs",
     "        if self.centuries == i16::MIN || self.centuries.abs() >= 3 {",
     "        if self.centuries == i16::MIN || self.centuries.abs() > 3 {", "C02.R"),
    # ---------------------------------------------------------------- C03
    ("C03", "eq-one-sided-zero-crossing", "src/duration/mod.rs",
     "        } else if (self.centuries == -1 && other.centuries == 0)\n            || (self.centuries == 0 && other.centuries == -1)\n        {",
     "        } else if (self.centuries == -1 && other.centuries == 0)\n            || (self.centuries == 0 && other.centuries <= -1)\n        {", "C03.R"),
    ("C03", "min-returns-max", "src/duration/mod.rs",
     "    pub fn min(self, other: Self) -> Self {\n        if self < other {",
     "    pub fn min(self, other: Self) -> Self {\n        if self > other {", "C03.R"),
    # ---------------------------------------------------------------- C04
    ("C04", "sub-unit-adds", "src/epoch/ops.rs",
     "            duration: self.duration - unit * 1,",
     "            duration: self.duration + unit * 1,", "C04.R"),
    ("C04", "add-assign-unit-twice", "src/epoch/ops.rs",
     "        *self = *self + unit * 1;",
     "        *self = *self + unit * 2;", "C04.R"),
    # ---------------------------------------------------------------- C05
    ("C05", "gst-target-sign", "src/epoch/mod.rs",
     "                TimeScale::GST => prime_epoch_offset - GST_REF_EPOCH.to_tai_duration(),",
     "                TimeScale::GST => prime_epoch_offset + GST_REF_EPOCH.to_tai_duration(),", "C05.R"),
    ("C05", "qzsst-source-uses-bdt", "src/epoch/mod.rs",
     "                TimeScale::QZSST => self.duration + QZSST_REF_EPOCH.to_tai_duration(),",
     "                TimeScale::QZSST => self.duration + BDT_REF_EPOCH.to_tai_duration(),", "C05.R"),
    # ---------------------------------------------------------------- C10
    ("C10", "fraction-separator", "src/parser.rs",
     "                if ending_char == '.' {", "                if ending_char == ',' {", "C10.R"),
    ("C10", "subsecond-scale", "src/epoch/gregorian.rs",
     "                                    .checked_pow((9 - num_digits) as u32)\n                                    .and_then(|scale| val.checked_mul(scale))\n                            } else {\n                                None\n                            };\n                            decomposed[pos] = match scaled {\n                                Some(nanos) => nanos,\n                                None => {\n                                    return Err(HifitimeError::Parse {\n                                        source: ParsingError::ValueError,\n                                        details: \"invalid subseconds\",\n                                    })\n                                }\n                            };\n                        } else {\n                            decomposed[pos] = val\n                        }",
     "                                    .checked_pow((8 - num_digits) as u32)\n                                    .and_then(|scale| val.checked_mul(scale))\n                            } else {\n                                None\n                            };\n                            decomposed[pos] = match scaled {\n                                Some(nanos) => nanos,\n                                None => {\n                                    return Err(HifitimeError::Parse {\n                                        source: ParsingError::ValueError,\n                                        details: \"invalid subseconds\",\n                                    })\n                                }\n                            };\n                        } else {\n                            decomposed[pos] = val\n                        }", "C10.R"),
    ("C10", "scale-name", "src/timescale/fmt.rs",
     "            Self::GPST => write!(f, \"GPST\"),", "            Self::GPST => write!(f, \"GPT\"),", "C10.R"),
    ("C10", "leap-second-text-rejected", "src/parser.rs",
     "                if !(0..=60).contains(&val) {", "                if !(0..=59).contains(&val) {", "C10.R1"),
    ("C10", "jd-dispatch-ignores-scale", "src/epoch/mod.rs",
     "                    ts => Ok(Self::from_jde_in_time_scale(value, ts)),",
     "                    _ => Ok(Self::from_jde_tai(value)),", "C10.R5"),
    ("C10", "mjd-constructor-reference", "src/epoch/initializers.rs",
     "            duration: (days - MJD_J1900) * Unit::Day - time_scale.gregorian_epoch_offset(),",
     "            duration: (days - MJD_J1900) * Unit::Day - time_scale.prime_epoch_offset(),", "C10.R6"),
    # ---------------------------------------------------------------- C13
    ("C13", "format-parse-indexing", "src/efmt/format.rs",
     "                    match self.items.get(cur_item_idx).copied().flatten() {",
     "                    match self.items[cur_item_idx] {", "C13.R1"),
    ("C13", "month-range-too-wide", "src/parser.rs",
     "                if !(0..=13).contains(&val) {", "                if !(0..=300).contains(&val) {", "C13.R"),
    ("C13", "format-token-count-guard", "src/efmt/format.rs",
     "            if me.num_items == MAX_TOKENS && token.chars().next().is_some() {",
     "            if me.num_items > MAX_TOKENS && token.chars().next().is_some() {", "C13.R1"),
    ("C13", "cmp-chars-length-guard", "src/duration/parse.rs",
     "    if start_idx + cmp_bytes.len() > s_bytes.len() {",
     "    if start_idx + cmp_bytes.len() > s_bytes.len() + 1 {", "C13.R1"),
    # ---------------------------------------------------------------- C06
    ("C06", "threshold-strict", "src/epoch/mod.rs",
     "            if self.to_tai_duration() >= leap_second.timestamp_tai_s * Unit::Second",
     "            if self.to_tai_duration() > leap_second.timestamp_tai_s * Unit::Second", "C06.R"),
    ("C06", "utc-target-counts-all-rows", "src/epoch/mod.rs",
     "                    prime_epoch_offset - epoch.leap_seconds(true).unwrap_or(0.0).seconds()",
     "                    prime_epoch_offset - epoch.leap_seconds(false).unwrap_or(0.0).seconds()", "C06.R"),
    # ---------------------------------------------------------------- C07
    ("C07", "naif-eb-rounded", "src/epoch/mod.rs",
     "pub const NAIF_EB: f64 = 1.671e-2;", "pub const NAIF_EB: f64 = 1.67e-2;", "C07.R1"),
    ("C07", "inner-g-cos", "src/epoch/mod.rs",
     "        1.658e-3 * (g + 1.67e-2 * g.sin()).sin()", "        1.658e-3 * (g + 1.67e-2 * g.cos()).sin()", "C07.R"),
    # ---------------------------------------------------------------- C08
    ("C08", "minute-60-accepted", "src/epoch/gregorian.rs",
     "        || minute > 59", "        || minute > 60", "C08.R1"),
    ("C08", "leap-rule-4000", "src/epoch/gregorian.rs",
     "    (year % 4 == 0 && year % 100 != 0) || year % 400 == 0",
     "    (year % 4 == 0 && year % 100 != 0) || year % 4000 == 0", "C08.R"),
    # ---------------------------------------------------------------- C09
    ("C09", "display-swaps-month-day", "src/epoch/formatting.rs",
     "                \"{:04}-{:02}-{:02}T{:02}:{:02}:{:02}.{:09} {}\",\n                y, mm, dd, hh, min, s, nanos, self.time_scale",
     "                \"{:04}-{:02}-{:02}T{:02}:{:02}:{:02}.{:09} {}\",\n                y, dd, mm, hh, min, s, nanos, self.time_scale", "C09.R4"),
    ("C09", "nanos-weights-swapped", "src/epoch/gregorian.rs",
     "                + microseconds * NANOSECONDS_PER_MICROSECOND\n                + milliseconds * NANOSECONDS_PER_MILLISECOND) as u32,",
     "                + microseconds * NANOSECONDS_PER_MILLISECOND\n                + milliseconds * NANOSECONDS_PER_MICROSECOND) as u32,", "C09.R"),
    # ---------------------------------------------------------------- C11
    ("C11", "units-table-ms-slot", "src/duration/parse.rs",
     "    (\"ms\", 4),", "    (\"ms\", 5),", "C11.R2"),
    ("C11", "display-unit-name", "src/duration/mod.rs",
     "                \"min\",", "                \"m\",", "C11.R"),
    # ---------------------------------------------------------------- C12
    ("C12", "partial-cmp-without-conversion", "src/epoch/ops.rs",
     "        Some(\n            self.duration\n                .cmp(&other.to_time_scale(self.time_scale).duration),\n        )",
     "        Some(self.duration.cmp(&other.duration))", "C12.R"),
    # ---------------------------------------------------------------- C14
    ("C14", "round-tie-down", "src/duration/mod.rs",
     "        if *self - floored < (ceiled - *self).abs() {", "        if *self - floored <= (ceiled - *self).abs() {", "C14.R"),
    ("C14", "ceil-signed-step", "src/duration/mod.rs",
     "            .checked_add(duration.abs().total_nanoseconds())", "            .checked_add(duration.total_nanoseconds())", "C14.R"),
    # ---------------------------------------------------------------- C15
    ("C15", "bounds-swapped", "src/timeseries.rs",
     "        if (!self.incl && next_offset >= self.duration)\n            || (self.incl && next_offset > self.duration)",
     "        if (!self.incl && next_offset > self.duration)\n            || (self.incl && next_offset >= self.duration)", "C15.R"),
    ("C15", "counter-by-two", "src/timeseries.rs",
     "            self.cur += 1;\n            Some(self.start + next_offset)", "            self.cur += 2;\n            Some(self.start + next_offset)", "C15.R"),
    # ---------------------------------------------------------------- C16
    ("C16", "weekday-max-8", "src/weekday.rs",
     "    const MAX: u8 = 7;", "    const MAX: u8 = 8;", "C16.R"),
    ("C16", "next-weekday-six-days", "src/epoch/ops.rs",
     "            *self + 7 * Unit::Day", "            *self + 6 * Unit::Day", "C16.R"),
    # ---------------------------------------------------------------- C17
    ("C17", "mjd-offset-half-day", "src/lib.rs",
     "pub const MJD_OFFSET: f64 = 2_400_000.5;", "pub const MJD_OFFSET: f64 = 2_400_000.0;", "C17.R"),
    ("C17", "jde-tt-drops-offset", "src/epoch/mod.rs",
     "        self.to_tt_duration() + Unit::Day * (MJD_J1900 + MJD_OFFSET)", "        self.to_tt_duration() + Unit::Day * MJD_J1900", "C17.R"),
    # ---------------------------------------------------------------- C18
    ("C18", "hour-factor-float", "src/timeunits.rs",
     "            Unit::Hour => NANOSECONDS_PER_HOUR as f64,", "            Unit::Hour => NANOSECONDS_PER_MINUTE as f64,", "C18.R"),
    # ---------------------------------------------------------------- C19
    ("C19", "month-token-unpadded", "src/efmt/formatter.rs",
     "                    Token::Month => {\n                        write_sep(f, i, &self.format)?;\n                        write!(f, \"{mm:02}\")?",
     "                    Token::Month => {\n                        write_sep(f, i, &self.format)?;\n                        write!(f, \"{mm}\")?", "C19.R"),
    # ---------------------------------------------------------------- C20
    ("C20", "week-of-six-days", "src/epoch/initializers.rs",
     "        nanos += i128::from(week) * Weekday::DAYS_PER_WEEK_I128 * i128::from(NANOSECONDS_PER_DAY);",
     "        nanos += i128::from(week) * 6 * i128::from(NANOSECONDS_PER_DAY);", "C20.R"),
    ("C20", "day-of-year-zero-based", "src/epoch/mod.rs",
     "        self.duration_in_year().to_unit(Unit::Day) + 1.0", "        self.duration_in_year().to_unit(Unit::Day)", "C20.R"),
]
