//! hifi-facts: a rustc_private driver that dumps the resolved program of the `hifitime`
//! crate (monomorphised MIR, resolved callees, evaluated constants, ADT metadata, doc
//! attributes) as one JSON fact file.  It is injected with RUSTC_WORKSPACE_WRAPPER under
//! `cargo +nightly check`; every other crate is compiled normally.
//!
//! Output: $HIFI_FACTS_OUT (one write, temp file + rename).

#![feature(rustc_private)]
#![feature(box_patterns)]

extern crate rustc_abi;
extern crate rustc_data_structures;
extern crate rustc_driver;
extern crate rustc_hir;
extern crate rustc_interface;
extern crate rustc_middle;
extern crate rustc_session;
extern crate rustc_span;

mod json;
use json::J;

use rustc_abi::{FieldsShape, Size, TagEncoding, VariantIdx, Variants};
use rustc_driver::Compilation;
use rustc_hir::def::DefKind;
use rustc_hir::def_id::{DefId, LOCAL_CRATE};
use rustc_middle::mir::interpret::{AllocId, GlobalAlloc, Scalar};
use rustc_middle::mir::{
    self, AggregateKind, AssertKind, BasicBlockData, Body, ConstValue, Operand, Place,
    ProjectionElem, Rvalue, StatementKind, TerminatorKind,
};
use rustc_middle::ty::layout::{LayoutCx, TyAndLayout};
use rustc_middle::ty::print::{with_no_trimmed_paths, PrintTraitRefExt};
use rustc_middle::ty::TypeVisitableExt;
use rustc_middle::ty::{self, EarlyBinder, GenericArgsRef, Instance, InstanceKind, Ty, TyCtxt, TypingEnv};
use rustc_span::Span;
use std::collections::{BTreeMap, HashMap, VecDeque};

struct Cb;

impl rustc_driver::Callbacks for Cb {
    fn after_analysis<'tcx>(
        &mut self,
        _c: &rustc_interface::interface::Compiler,
        tcx: TyCtxt<'tcx>,
    ) -> Compilation {
        let name = tcx.crate_name(LOCAL_CRATE);
        if name.as_str() == "hifitime" {
            if let Ok(out) = std::env::var("HIFI_FACTS_OUT") {
                // Only the lib target (crate types rlib/cdylib); tests/benches have other names anyway.
                let mut ex = Extractor::new(tcx);
                let j = ex.run();
                let mut s = String::with_capacity(64 << 20);
                j.write(&mut s);
                let tmp = format!("{}.tmp.{}", out, std::process::id());
                std::fs::write(&tmp, s).expect("write facts");
                std::fs::rename(&tmp, &out).expect("rename facts");
            }
        }
        Compilation::Continue
    }
}

fn main() {
    let mut args: Vec<String> = std::env::args().collect();
    // RUSTC_WORKSPACE_WRAPPER passes the real rustc path as argv[1].
    if args.len() > 1 && (args[1].ends_with("rustc") || args[1].contains("/rustc")) {
        args.remove(1);
    }
    rustc_driver::run_compiler(&args, &mut Cb);
}

// ---------------------------------------------------------------------------------------

struct Extractor<'tcx> {
    tcx: TyCtxt<'tcx>,
    types: Vec<J>,
    type_ids: HashMap<Ty<'tcx>, usize>,
    fn_ids: HashMap<(Instance<'tcx>, bool), usize>,
    queue: VecDeque<(Instance<'tcx>, bool, u32)>,
    fns: Vec<Option<J>>,
    max_ext_depth: u32,
    max_ext_blocks: usize,
    spans: Vec<String>,
    span_ids: HashMap<String, usize>,
}

fn pstr<'tcx>(tcx: TyCtxt<'tcx>, did: DefId, args: GenericArgsRef<'tcx>) -> String {
    with_no_trimmed_paths!(tcx.def_path_str_with_args(did, args))
}

impl<'tcx> Extractor<'tcx> {
    fn new(tcx: TyCtxt<'tcx>) -> Self {
        let envu = |k: &str, d: u32| std::env::var(k).ok().and_then(|v| v.parse().ok()).unwrap_or(d);
        Extractor {
            tcx,
            types: vec![],
            type_ids: HashMap::new(),
            fn_ids: HashMap::new(),
            queue: VecDeque::new(),
            fns: vec![],
            max_ext_depth: envu("HIFI_EXT_DEPTH", 3),
            max_ext_blocks: envu("HIFI_EXT_BLOCKS", 60) as usize,
            spans: vec![],
            span_ids: HashMap::new(),
        }
    }

    fn span(&mut self, sp: Span) -> J {
        let sm = self.tcx.sess.source_map();
        // Use the call-site for macro expansions so reports point into hifitime's sources.
        let root = sp.source_callsite();
        let s = sm.span_to_diagnostic_string(root);
        let id = if let Some(i) = self.span_ids.get(&s) {
            *i
        } else {
            let i = self.spans.len();
            self.spans.push(s.clone());
            self.span_ids.insert(s, i);
            i
        };
        J::Int(id as i128)
    }

    // ---------------------------------------------------------------- types

    fn ty(&mut self, t: Ty<'tcx>) -> J {
        J::Int(self.ty_id(t) as i128)
    }

    fn ty_id(&mut self, t: Ty<'tcx>) -> usize {
        if let Some(i) = self.type_ids.get(&t) {
            return *i;
        }
        let id = self.types.len();
        self.types.push(J::Null);
        self.type_ids.insert(t, id);
        let tcx = self.tcx;
        let s = with_no_trimmed_paths!(format!("{}", t));
        let j = match t.kind() {
            ty::Bool => J::obj(vec![("k", J::s("bool"))]),
            ty::Char => J::obj(vec![("k", J::s("char"))]),
            ty::Int(it) => J::obj(vec![
                ("k", J::s("int")),
                ("bits", J::Int(it.bit_width().unwrap_or(64) as i128)),
                ("signed", J::Bool(true)),
                ("name", J::s(it.name_str())),
            ]),
            ty::Uint(it) => J::obj(vec![
                ("k", J::s("int")),
                ("bits", J::Int(it.bit_width().unwrap_or(64) as i128)),
                ("signed", J::Bool(false)),
                ("name", J::s(it.name_str())),
            ]),
            ty::Float(ft) => J::obj(vec![("k", J::s("float")), ("bits", J::Int(ft.bit_width() as i128))]),
            ty::Str => J::obj(vec![("k", J::s("str"))]),
            ty::Never => J::obj(vec![("k", J::s("never"))]),
            ty::Adt(adt, args) => {
                let path = with_no_trimmed_paths!(tcx.def_path_str(adt.did()));
                let targs: Vec<J> = args.types().map(|a| self.ty(a)).collect();
                let mut variants = vec![];
                let expand = adt.did().is_local()
                    || path.starts_with("std::option::Option")
                    || path.starts_with("std::result::Result")
                    || path.starts_with("std::ops::ControlFlow")
                    || path.starts_with("std::ops::Range")
                    || path.starts_with("std::cmp::Ordering");
                for (vi, v) in adt.variants().iter_enumerated() {
                    let mut vf = vec![
                        ("name", J::s(v.name.as_str())),
                        ("nfields", J::Int(v.fields.len() as i128)),
                        ("fields", J::Arr(v.fields.iter().map(|f| J::s(f.name.as_str())).collect())),
                    ];
                    if adt.is_enum() {
                        let d = adt.discriminant_for_variant(tcx, vi);
                        vf.push(("discr", J::UInt(d.val)));
                    }
                    if expand && !args.has_non_region_param() {
                        let mut ftys = vec![];
                        for f in v.fields.iter() {
                            let ft = f.ty(tcx, args);
                            let ft = tcx.try_normalize_erasing_regions(TypingEnv::fully_monomorphized(), rustc_middle::ty::Unnormalized::new_wip(ft)).unwrap_or(ft);
                            ftys.push(self.ty(ft));
                        }
                        vf.push(("ftys", J::Arr(ftys)));
                    }
                    variants.push(J::obj(vf));
                }
                J::obj(vec![
                    ("k", J::s("adt")),
                    ("path", J::s(path)),
                    ("args", J::Arr(targs)),
                    ("enum", J::Bool(adt.is_enum())),
                    ("local", J::Bool(adt.did().is_local())),
                    ("variants", J::Arr(variants)),
                ])
            }
            ty::Ref(_, inner, m) => J::obj(vec![
                ("k", J::s("ref")),
                ("to", self.ty(*inner)),
                ("mut", J::Bool(m.is_mut())),
            ]),
            ty::RawPtr(inner, m) => J::obj(vec![
                ("k", J::s("ptr")),
                ("to", self.ty(*inner)),
                ("mut", J::Bool(m.is_mut())),
            ]),
            ty::Tuple(ts) => {
                let v: Vec<J> = ts.iter().map(|x| self.ty(x)).collect();
                J::obj(vec![("k", J::s("tuple")), ("elems", J::Arr(v))])
            }
            ty::Array(el, n) => {
                let len = n.try_to_target_usize(tcx);
                J::obj(vec![
                    ("k", J::s("array")),
                    ("elem", self.ty(*el)),
                    ("len", len.map(|l| J::Int(l as i128)).unwrap_or(J::Null)),
                ])
            }
            ty::Slice(el) => J::obj(vec![("k", J::s("slice")), ("elem", self.ty(*el))]),
            ty::FnDef(did, args) => J::obj(vec![
                ("k", J::s("fndef")),
                ("path", J::s(pstr(tcx, *did, args))),
            ]),
            ty::FnPtr(..) => J::obj(vec![("k", J::s("fnptr"))]),
            ty::Closure(did, _) => J::obj(vec![
                ("k", J::s("closure")),
                ("path", J::s(with_no_trimmed_paths!(tcx.def_path_str(*did)))),
            ]),
            ty::Param(p) => J::obj(vec![("k", J::s("param")), ("name", J::s(p.name.as_str()))]),
            ty::Dynamic(..) => J::obj(vec![("k", J::s("dyn"))]),
            _ => J::obj(vec![("k", J::s("other"))]),
        };
        let j = match j {
            J::Obj(mut v) => {
                v.push(("s".to_string(), J::s(s)));
                J::Obj(v)
            }
            x => x,
        };
        self.types[id] = j;
        id
    }

    // ---------------------------------------------------------------- constants

    fn scalar_prim(&mut self, bits: u128, t: Ty<'tcx>) -> Option<J> {
        Some(match t.kind() {
            ty::Bool => J::Bool(bits != 0),
            ty::Char => {
                let c = char::from_u32(bits as u32).unwrap_or('\u{fffd}');
                J::obj(vec![("char", J::s(c.to_string())), ("code", J::UInt(bits))])
            }
            ty::Int(it) => {
                let w = it.bit_width().unwrap_or(64) as u32;
                let v = if w == 128 {
                    bits as i128
                } else {
                    let shift = 128 - w;
                    ((bits << shift) as i128) >> shift
                };
                J::Int(v)
            }
            ty::Uint(_) => J::UInt(bits),
            ty::Float(ft) => {
                let w = ft.bit_width();
                let repr = match w {
                    64 => format!("{:?}", f64::from_bits(bits as u64)),
                    32 => format!("{:?}", f32::from_bits(bits as u32)),
                    _ => String::from("?"),
                };
                J::obj(vec![("fbits", J::UInt(bits)), ("w", J::Int(w as i128)), ("repr", J::s(repr))])
            }
            _ => return None,
        })
    }

    fn layout(&self, t: Ty<'tcx>) -> Option<TyAndLayout<'tcx>> {
        self.tcx.layout_of(TypingEnv::fully_monomorphized().as_query_input(t)).ok()
    }

    /// Bytes + pointer provenance of a memory region.
    fn mem_of_alloc(&self, id: AllocId) -> Option<Mem> {
        match self.tcx.try_get_global_alloc(id)? {
            GlobalAlloc::Memory(a) => {
                let alloc = a.inner();
                let len = alloc.len();
                let bytes = alloc.inspect_with_uninit_and_ptr_outside_interpreter(0..len).to_vec();
                let mut ptrs = BTreeMap::new();
                for (off, prov) in alloc.provenance().ptrs().iter() {
                    ptrs.insert(off.bytes() as usize, prov.alloc_id());
                }
                Some(Mem { bytes, ptrs })
            }
            _ => None,
        }
    }

    fn decode_const(&mut self, cv: ConstValue, t: Ty<'tcx>) -> J {
        let tcx = self.tcx;
        if let ty::FnDef(did, args) = t.kind() {
            return J::obj(vec![("fn", J::s(pstr(tcx, *did, args)))]);
        }
        match cv {
            ConstValue::ZeroSized => {
                let mem = Mem { bytes: vec![], ptrs: BTreeMap::new() };
                self.decode_mem(&mem, 0, t, 0)
            }
            ConstValue::Scalar(Scalar::Int(si)) => {
                let size = si.size();
                let bits = si.to_bits(size);
                if let Some(j) = self.scalar_prim(bits, t) {
                    return j;
                }
                let mut bytes = bits.to_le_bytes().to_vec();
                bytes.truncate(size.bytes() as usize);
                let mem = Mem { bytes, ptrs: BTreeMap::new() };
                self.decode_mem(&mem, 0, t, 0)
            }
            ConstValue::Scalar(Scalar::Ptr(p, _)) => {
                let (prov, off) = p.into_raw_parts();
                let mut ptrs = BTreeMap::new();
                ptrs.insert(0usize, prov.alloc_id());
                let mem = Mem { bytes: (off.bytes() as u64).to_le_bytes().to_vec(), ptrs };
                self.decode_mem(&mem, 0, t, 0)
            }
            ConstValue::Slice { alloc_id, meta } => {
                // fat pointer (ptr = start of alloc, meta)
                let mut bytes = 0u64.to_le_bytes().to_vec();
                bytes.extend_from_slice(&meta.to_le_bytes());
                let mut ptrs = BTreeMap::new();
                ptrs.insert(0usize, alloc_id);
                let mem = Mem { bytes, ptrs };
                self.decode_mem(&mem, 0, t, 0)
            }
            ConstValue::Indirect { alloc_id, offset } => match self.mem_of_alloc(alloc_id) {
                Some(mem) => self.decode_mem(&mem, offset.bytes() as usize, t, 0),
                None => J::obj(vec![("opaque", J::s("non-memory alloc"))]),
            },
        }
    }

    fn decode_mem(&mut self, mem: &Mem, off: usize, t: Ty<'tcx>, depth: u32) -> J {
        let tcx = self.tcx;
        if depth > 12 {
            return J::obj(vec![("opaque", J::s("depth"))]);
        }
        let Some(layout) = self.layout(t) else {
            return J::obj(vec![("opaque", J::s("no layout"))]);
        };
        let size = layout.size.bytes() as usize;
        let read = |mem: &Mem, off: usize, n: usize| -> Option<u128> {
            if off + n > mem.bytes.len() || n > 16 {
                return None;
            }
            let mut b = [0u8; 16];
            b[..n].copy_from_slice(&mem.bytes[off..off + n]);
            Some(u128::from_le_bytes(b))
        };
        match t.kind() {
            ty::Bool | ty::Char | ty::Int(_) | ty::Uint(_) | ty::Float(_) => {
                if mem.ptrs.contains_key(&off) {
                    return J::obj(vec![("opaque", J::s("pointer-as-int"))]);
                }
                match read(mem, off, size) {
                    Some(bits) => self.scalar_prim(bits, t).unwrap(),
                    None => J::obj(vec![("opaque", J::s("oob"))]),
                }
            }
            ty::FnDef(did, args) => J::obj(vec![("fn", J::s(pstr(tcx, *did, args)))]),
            ty::Ref(_, inner, _) | ty::RawPtr(inner, _) => {
                let Some(aid) = mem.ptrs.get(&off).copied() else {
                    return J::obj(vec![("opaque", J::s("int-as-pointer"))]);
                };
                let addend = read(mem, off, 8).unwrap_or(0) as usize;
                match tcx.try_get_global_alloc(aid) {
                    Some(GlobalAlloc::Memory(_)) => {
                        let target = self.mem_of_alloc(aid).unwrap();
                        match inner.kind() {
                            ty::Str => {
                                let n = read(mem, off + 8, 8).unwrap_or(0) as usize;
                                let end = (addend + n).min(target.bytes.len());
                                let s = String::from_utf8_lossy(&target.bytes[addend.min(end)..end]).to_string();
                                J::obj(vec![("str", J::s(s))])
                            }
                            ty::Slice(el) => {
                                let n = read(mem, off + 8, 8).unwrap_or(0) as usize;
                                let Some(el_l) = self.layout(*el) else {
                                    return J::obj(vec![("opaque", J::s("no elem layout"))]);
                                };
                                let stride = el_l.size.bytes() as usize;
                                if matches!(el.kind(), ty::Uint(ty::UintTy::U8)) {
                                    let end = (addend + n).min(target.bytes.len());
                                    return J::obj(vec![(
                                        "bytes",
                                        J::Arr(target.bytes[addend.min(end)..end].iter().map(|b| J::Int(*b as i128)).collect()),
                                    )]);
                                }
                                let mut v = vec![];
                                for i in 0..n.min(4096) {
                                    v.push(self.decode_mem(&target, addend + i * stride, *el, depth + 1));
                                }
                                J::obj(vec![("slice", J::Arr(v))])
                            }
                            _ => {
                                let v = self.decode_mem(&target, addend, *inner, depth + 1);
                                J::obj(vec![("ref", v)])
                            }
                        }
                    }
                    Some(GlobalAlloc::Function { instance }) => {
                        J::obj(vec![("fn", J::s(pstr(tcx, instance.def_id(), instance.args)))])
                    }
                    Some(GlobalAlloc::Static(did)) => {
                        J::obj(vec![("static", J::s(with_no_trimmed_paths!(tcx.def_path_str(did))))])
                    }
                    _ => J::obj(vec![("opaque", J::s("alloc kind"))]),
                }
            }
            ty::FnPtr(..) => {
                if let Some(aid) = mem.ptrs.get(&off).copied() {
                    if let Some(GlobalAlloc::Function { instance }) = tcx.try_get_global_alloc(aid) {
                        return J::obj(vec![("fn", J::s(pstr(tcx, instance.def_id(), instance.args)))]);
                    }
                }
                J::obj(vec![("opaque", J::s("fnptr"))])
            }
            ty::Tuple(_) | ty::Closure(..) => {
                let cx = LayoutCx::new(tcx, TypingEnv::fully_monomorphized());
                let n = layout.fields.count();
                let mut v = vec![];
                for i in 0..n {
                    let f = layout.field(&cx, i);
                    let fo = layout.fields.offset(i).bytes() as usize;
                    v.push(self.decode_mem(mem, off + fo, f.ty, depth + 1));
                }
                J::obj(vec![("tuple", J::Arr(v))])
            }
            ty::Array(el, _) => {
                let (stride, count) = match &layout.fields {
                    FieldsShape::Array { stride, count } => (stride.bytes() as usize, *count as usize),
                    _ => (0, 0),
                };
                let mut v = vec![];
                for i in 0..count.min(65536) {
                    v.push(self.decode_mem(mem, off + i * stride, *el, depth + 1));
                }
                J::obj(vec![("arr", J::Arr(v))])
            }
            ty::Adt(adt, _) => {
                let cx = LayoutCx::new(tcx, TypingEnv::fully_monomorphized());
                let path = with_no_trimmed_paths!(tcx.def_path_str(adt.did()));
                // which variant?
                let vidx: Option<VariantIdx> = match &layout.variants {
                    Variants::Empty => None,
                    Variants::Single { index } => Some(*index),
                    Variants::Multiple { tag, tag_encoding, tag_field, .. } => {
                        let toff = layout.fields.offset(tag_field.as_usize()).bytes() as usize;
                        let tsize = tag.size(&tcx).bytes() as usize;
                        if mem.ptrs.contains_key(&(off + toff)) {
                            // pointer in the niche => the untagged (dataful) variant
                            match tag_encoding {
                                TagEncoding::Niche { untagged_variant, .. } => Some(*untagged_variant),
                                _ => None,
                            }
                        } else {
                            let tagv = read(mem, off + toff, tsize);
                            match (tagv, tag_encoding) {
                                (None, _) => None,
                                (Some(tv), TagEncoding::Direct) => {
                                    let mut found = None;
                                    for (vi, _) in adt.variants().iter_enumerated() {
                                        let d = adt.discriminant_for_variant(tcx, vi).val;
                                        let mask = if tsize >= 16 { u128::MAX } else { (1u128 << (tsize * 8)) - 1 };
                                        if d & mask == tv & mask {
                                            found = Some(vi);
                                            break;
                                        }
                                    }
                                    found
                                }
                                (Some(tv), TagEncoding::Niche { untagged_variant, niche_variants, niche_start }) => {
                                    let mask = if tsize >= 16 { u128::MAX } else { (1u128 << (tsize * 8)) - 1 };
                                    let rel = tv.wrapping_sub(*niche_start) & mask;
                                    let start = niche_variants.start().as_u32() as u128;
                                    let end = niche_variants.end().as_u32() as u128;
                                    if rel <= end - start {
                                        Some(VariantIdx::from_u32((start + rel) as u32))
                                    } else {
                                        Some(*untagged_variant)
                                    }
                                }
                            }
                        }
                    }
                };
                let Some(vidx) = vidx else {
                    return J::obj(vec![("opaque", J::s("enum tag"))]);
                };
                let vdef = adt.variant(vidx);
                let vlayout = layout.for_variant(&cx, vidx);
                let mut fields = vec![];
                for i in 0..vlayout.fields.count() {
                    let f = vlayout.field(&cx, i);
                    let fo = vlayout.fields.offset(i).bytes() as usize;
                    let name = vdef.fields.iter().nth(i).map(|f| f.name.as_str().to_string()).unwrap_or_default();
                    let v = self.decode_mem(mem, off + fo, f.ty, depth + 1);
                    fields.push(J::Arr(vec![J::s(name), v]));
                }
                J::obj(vec![
                    ("adt", J::s(path)),
                    ("variant", J::s(vdef.name.as_str())),
                    ("vidx", J::Int(vidx.as_u32() as i128)),
                    ("fields", J::Arr(fields)),
                ])
            }
            _ => J::obj(vec![("opaque", J::s(with_no_trimmed_paths!(format!("{}", t))))]),
        }
    }

    fn mir_const(&mut self, c: &mir::ConstOperand<'tcx>, env: TypingEnv<'tcx>) -> J {
        let tcx = self.tcx;
        let t = c.const_.ty();
        let mut fields = vec![("ty", self.ty(t))];
        // provenance of the constant, for reports (never compared as text)
        let src = match c.const_ {
            mir::Const::Unevaluated(u, _) => {
                let mut s = with_no_trimmed_paths!(tcx.def_path_str(u.def));
                if let Some(p) = u.promoted {
                    s = format!("{}::promoted[{}]", s, p.as_u32());
                }
                Some(s)
            }
            _ => None,
        };
        if let Some(s) = src {
            fields.push(("src", J::s(s)));
        }
        if let ty::FnDef(did, args) = t.kind() {
            fields.push(("v", J::obj(vec![("fn", J::s(pstr(tcx, *did, args)))])));
            return J::obj(fields);
        }
        match c.const_.eval(tcx, env, c.span) {
            Ok(cv) => {
                let v = self.decode_const(cv, t);
                fields.push(("v", v));
            }
            Err(_) => {
                fields.push(("v", J::obj(vec![("uneval", J::Bool(true))])));
            }
        }
        J::obj(fields)
    }

    // ---------------------------------------------------------------- MIR

    fn place(&mut self, p: &Place<'tcx>) -> J {
        let mut proj = vec![];
        for e in p.projection.iter() {
            proj.push(match e {
                ProjectionElem::Deref => J::s("deref"),
                ProjectionElem::Field(f, t) => J::obj(vec![("f", J::Int(f.as_u32() as i128)), ("ty", self.ty(t))]),
                ProjectionElem::Index(l) => J::obj(vec![("idx", J::Int(l.as_u32() as i128))]),
                ProjectionElem::ConstantIndex { offset, min_length, from_end } => J::obj(vec![
                    ("cidx", J::Int(offset as i128)),
                    ("min_len", J::Int(min_length as i128)),
                    ("from_end", J::Bool(from_end)),
                ]),
                ProjectionElem::Subslice { from, to, from_end } => J::obj(vec![
                    ("sub_from", J::Int(from as i128)),
                    ("sub_to", J::Int(to as i128)),
                    ("from_end", J::Bool(from_end)),
                ]),
                ProjectionElem::Downcast(name, v) => J::obj(vec![
                    ("dc", J::Int(v.as_u32() as i128)),
                    ("name", name.map(|n| J::s(n.as_str())).unwrap_or(J::Null)),
                ]),
                _ => J::s("other"),
            });
        }
        J::obj(vec![("l", J::Int(p.local.as_u32() as i128)), ("pj", J::Arr(proj))])
    }

    fn operand(&mut self, o: &Operand<'tcx>, env: TypingEnv<'tcx>) -> J {
        match o {
            Operand::Copy(p) => J::obj(vec![("cp", self.place(p))]),
            Operand::Move(p) => J::obj(vec![("mv", self.place(p))]),
            Operand::Constant(box c) => J::obj(vec![("k", self.mir_const(c, env))]),
            #[allow(unreachable_patterns)]
            _ => J::obj(vec![("other", J::Bool(true))]),
        }
    }

    fn rvalue(&mut self, r: &Rvalue<'tcx>, env: TypingEnv<'tcx>) -> J {
        let tcx = self.tcx;
        match r {
            Rvalue::Use(o, ..) => J::obj(vec![("op", J::s("use")), ("x", self.operand(o, env))]),
            Rvalue::Repeat(o, n) => J::obj(vec![
                ("op", J::s("repeat")),
                ("x", self.operand(o, env)),
                ("n", n.try_to_target_usize(tcx).map(|l| J::Int(l as i128)).unwrap_or(J::Null)),
            ]),
            Rvalue::Ref(_, bk, p) => J::obj(vec![
                ("op", J::s("ref")),
                ("p", self.place(p)),
                ("mut", J::Bool(matches!(bk, mir::BorrowKind::Mut { .. }))),
            ]),
            Rvalue::RawPtr(_, p) => J::obj(vec![("op", J::s("rawptr")), ("p", self.place(p))]),
            Rvalue::Cast(ck, o, t) => {
                let name = match ck {
                    mir::CastKind::PointerCoercion(pc, _) => format!("PointerCoercion({:?})", pc),
                    other => format!("{:?}", other),
                };
                J::obj(vec![
                    ("op", J::s("cast")),
                    ("ck", J::s(name)),
                    ("x", self.operand(o, env)),
                    ("ty", self.ty(*t)),
                ])
            }
            Rvalue::BinaryOp(b, box (l, r)) => J::obj(vec![
                ("op", J::s("bin")),
                ("b", J::s(format!("{:?}", b))),
                ("l", self.operand(l, env)),
                ("r", self.operand(r, env)),
            ]),
            Rvalue::UnaryOp(u, o) => J::obj(vec![
                ("op", J::s("un")),
                ("u", J::s(format!("{:?}", u))),
                ("x", self.operand(o, env)),
            ]),
            Rvalue::Discriminant(p) => J::obj(vec![("op", J::s("discr")), ("p", self.place(p))]),
            Rvalue::Aggregate(box ak, ops) => {
                let xs: Vec<J> = ops.iter().map(|o| self.operand(o, env)).collect();
                let mut f = vec![("op", J::s("agg"))];
                match ak {
                    AggregateKind::Array(t) => {
                        f.push(("ak", J::s("array")));
                        f.push(("elem", self.ty(*t)));
                    }
                    AggregateKind::Tuple => f.push(("ak", J::s("tuple"))),
                    AggregateKind::Adt(did, vi, args, _, active) => {
                        f.push(("ak", J::s("adt")));
                        f.push(("adt", J::s(with_no_trimmed_paths!(tcx.def_path_str(*did)))));
                        f.push(("variant", J::Int(vi.as_u32() as i128)));
                        let adt = tcx.adt_def(*did);
                        f.push(("vname", J::s(adt.variant(*vi).name.as_str())));
                        f.push((
                            "fnames",
                            J::Arr(adt.variant(*vi).fields.iter().map(|x| J::s(x.name.as_str())).collect()),
                        ));
                        let t = Ty::new_adt(tcx, adt, args);
                        f.push(("ty", self.ty(t)));
                        if active.is_some() {
                            f.push(("union", J::Bool(true)));
                        }
                    }
                    AggregateKind::Closure(did, args) => {
                        f.push(("ak", J::s("closure")));
                        f.push(("path", J::s(with_no_trimmed_paths!(tcx.def_path_str(*did)))));
                        // make sure the closure body is dumped too
                        let inst = Instance::new_raw(*did, args);
                        let id = self.enqueue(inst, false, 0);
                        f.push(("fn_id", J::Int(id as i128)));
                    }
                    AggregateKind::RawPtr(..) => f.push(("ak", J::s("rawptr"))),
                    _ => f.push(("ak", J::s("other"))),
                }
                f.push(("xs", J::Arr(xs)));
                J::obj(f)
            }
            Rvalue::CopyForDeref(p) => J::obj(vec![("op", J::s("use")), ("x", J::obj(vec![("cp", self.place(p))]))]),
            Rvalue::ThreadLocalRef(_) => J::obj(vec![("op", J::s("tls"))]),
            _ => J::obj(vec![("op", J::s("other")), ("dbg", J::s(format!("{:?}", r)))]),
        }
    }

    fn enqueue(&mut self, inst: Instance<'tcx>, generic: bool, depth: u32) -> usize {
        if let Some(i) = self.fn_ids.get(&(inst, generic)) {
            return *i;
        }
        let id = self.fns.len();
        self.fns.push(None);
        self.fn_ids.insert((inst, generic), id);
        self.queue.push_back((inst, generic, depth));
        id
    }

    fn callee(&mut self, func: &Operand<'tcx>, body: &Body<'tcx>, env: TypingEnv<'tcx>, generic: bool, depth: u32) -> J {
        let tcx = self.tcx;
        let fty = func.ty(&body.local_decls, tcx);
        match fty.kind() {
            ty::FnDef(did, gargs) => {
                let unresolved = pstr(tcx, *did, gargs);
                let mut f = vec![("decl", J::s(unresolved))];
                f.push(("decl_path", J::s(with_no_trimmed_paths!(tcx.def_path_str(*did)))));
                let targs: Vec<J> = gargs.types().map(|a| self.ty(a)).collect();
                f.push(("targs", J::Arr(targs)));
                let resolved = if generic && gargs.has_non_region_param() {
                    Instance::try_resolve(tcx, env, *did, gargs).ok().flatten()
                } else {
                    Instance::try_resolve(tcx, env, *did, gargs).ok().flatten()
                };
                match resolved {
                    Some(inst) => {
                        let rdid = inst.def_id();
                        f.push(("path", J::s(with_no_trimmed_paths!(tcx.def_path_str(rdid)))));
                        f.push(("inst", J::s(pstr(tcx, rdid, inst.args))));
                        f.push(("local", J::Bool(rdid.is_local())));
                        let kind = match inst.def {
                            InstanceKind::Item(_) => "item",
                            InstanceKind::Intrinsic(_) => "intrinsic",
                            InstanceKind::Virtual(..) => "virtual",
                            InstanceKind::ClosureOnceShim { .. } => "closure_once_shim",
                            InstanceKind::FnPtrShim(..) => "fnptr_shim",
                            InstanceKind::DropGlue(..) => "drop_glue",
                            InstanceKind::CloneShim(..) => "clone_shim",
                            InstanceKind::ReifyShim(..) => "reify_shim",
                            _ => "other_shim",
                        };
                        f.push(("kind", J::s(kind)));
                        let still_generic = inst.args.has_non_region_param();
                        if let InstanceKind::Item(_) = inst.def {
                            if tcx.intrinsic(rdid).is_some() {
                                f.push(("intrinsic", J::s(tcx.item_name(rdid).as_str())));
                            } else if !still_generic && matches!(tcx.def_kind(rdid), DefKind::Fn | DefKind::AssocFn | DefKind::Closure) {
                                if rdid.is_local() {
                                    let id = self.enqueue(inst, false, 0);
                                    f.push(("fn_id", J::Int(id as i128)));
                                } else if depth < self.max_ext_depth && tcx.is_mir_available(rdid) {
                                    let id = self.enqueue(inst, false, depth + 1);
                                    f.push(("fn_id", J::Int(id as i128)));
                                }
                            }
                        } else if let InstanceKind::ClosureOnceShim { .. } = inst.def {
                            // call_once on a closure by value: the closure body itself
                            if let Some(t0) = inst.args.types().next() {
                                if let ty::Closure(cdid, cargs) = t0.kind() {
                                    if !cargs.has_non_region_param() {
                                        let cinst = Instance::new_raw(*cdid, cargs);
                                        let id = self.enqueue(cinst, false, 0);
                                        f.push(("closure_fn_id", J::Int(id as i128)));
                                    }
                                }
                            }
                        }
                    }
                    None => {
                        f.push(("kind", J::s("unresolved")));
                    }
                }
                J::obj(f)
            }
            _ => J::obj(vec![("kind", J::s("indirect")), ("x", self.operand(func, env))]),
        }
    }

    fn block(&mut self, bb: &BasicBlockData<'tcx>, body: &Body<'tcx>, env: TypingEnv<'tcx>, generic: bool, depth: u32) -> J {
        let mut stmts = vec![];
        for s in bb.statements.iter() {
            match &s.kind {
                StatementKind::Assign(box (p, r)) => {
                    stmts.push(J::obj(vec![
                        ("k", J::s("a")),
                        ("p", self.place(p)),
                        ("r", self.rvalue(r, env)),
                        ("sp", self.span(s.source_info.span)),
                    ]));
                }
                StatementKind::SetDiscriminant { place, variant_index } => {
                    stmts.push(J::obj(vec![
                        ("k", J::s("setdiscr")),
                        ("p", self.place(place)),
                        ("variant", J::Int(variant_index.as_u32() as i128)),
                    ]));
                }
                StatementKind::Intrinsic(..) => {
                    stmts.push(J::obj(vec![("k", J::s("intrinsic")), ("dbg", J::s(format!("{:?}", s.kind)))]));
                }
                _ => {}
            }
        }
        let term = bb.terminator();
        let sp = self.span(term.source_info.span);
        let exp = term.source_info.span.from_expansion();
        let mac = if exp {
            let ed = term.source_info.span.ctxt().outer_expn_data();
            match ed.kind {
                rustc_span::ExpnKind::Macro(_, name) => Some(name.as_str().to_string()),
                _ => Some(format!("{:?}", ed.kind)),
            }
        } else {
            None
        };
        let mut t = match &term.kind {
            TerminatorKind::Goto { target } => vec![("k", J::s("goto")), ("t", J::Int(target.as_u32() as i128))],
            TerminatorKind::SwitchInt { discr, targets } => {
                let mut vals = vec![];
                for (v, bbx) in targets.iter() {
                    vals.push(J::Arr(vec![J::UInt(v), J::Int(bbx.as_u32() as i128)]));
                }
                let dty = discr.ty(&body.local_decls, self.tcx);
                vec![
                    ("k", J::s("switch")),
                    ("x", self.operand(discr, env)),
                    ("ty", self.ty(dty)),
                    ("vals", J::Arr(vals)),
                    ("else", J::Int(targets.otherwise().as_u32() as i128)),
                ]
            }
            TerminatorKind::Return => vec![("k", J::s("return"))],
            TerminatorKind::Unreachable => vec![("k", J::s("unreachable"))],
            TerminatorKind::UnwindResume => vec![("k", J::s("resume"))],
            TerminatorKind::UnwindTerminate(_) => vec![("k", J::s("abort"))],
            TerminatorKind::Drop { place, target, .. } => vec![
                ("k", J::s("drop")),
                ("p", self.place(place)),
                ("t", J::Int(target.as_u32() as i128)),
            ],
            TerminatorKind::Call { func, args, destination, target, .. } => {
                let c = self.callee(func, body, env, generic, depth);
                let a: Vec<J> = args.iter().map(|x| self.operand(&x.node, env)).collect();
                vec![
                    ("k", J::s("call")),
                    ("f", c),
                    ("args", J::Arr(a)),
                    ("dest", self.place(destination)),
                    ("t", target.map(|b| J::Int(b.as_u32() as i128)).unwrap_or(J::Null)),
                ]
            }
            TerminatorKind::TailCall { func, args, .. } => {
                let c = self.callee(func, body, env, generic, depth);
                let a: Vec<J> = args.iter().map(|x| self.operand(&x.node, env)).collect();
                vec![("k", J::s("tailcall")), ("f", c), ("args", J::Arr(a))]
            }
            TerminatorKind::Assert { cond, expected, msg, target, .. } => {
                let (mk, ops): (String, Vec<J>) = match &**msg {
                    AssertKind::BoundsCheck { len, index } => {
                        ("BoundsCheck".into(), vec![self.operand(len, env), self.operand(index, env)])
                    }
                    AssertKind::Overflow(op, a, b) => {
                        (format!("Overflow({:?})", op), vec![self.operand(a, env), self.operand(b, env)])
                    }
                    AssertKind::OverflowNeg(a) => ("OverflowNeg".into(), vec![self.operand(a, env)]),
                    AssertKind::DivisionByZero(a) => ("DivisionByZero".into(), vec![self.operand(a, env)]),
                    AssertKind::RemainderByZero(a) => ("RemainderByZero".into(), vec![self.operand(a, env)]),
                    other => (format!("{:?}", std::mem::discriminant(other)), vec![]),
                };
                vec![
                    ("k", J::s("assert")),
                    ("cond", self.operand(cond, env)),
                    ("expected", J::Bool(*expected)),
                    ("msg", J::s(mk)),
                    ("ops", J::Arr(ops)),
                    ("t", J::Int(target.as_u32() as i128)),
                ]
            }
            TerminatorKind::FalseEdge { real_target, .. } => {
                vec![("k", J::s("goto")), ("t", J::Int(real_target.as_u32() as i128))]
            }
            TerminatorKind::FalseUnwind { real_target, .. } => {
                vec![("k", J::s("goto")), ("t", J::Int(real_target.as_u32() as i128))]
            }
            other => vec![("k", J::s("other")), ("dbg", J::s(format!("{:?}", std::mem::discriminant(other))))],
        };
        t.push(("sp", sp));
        if let Some(m) = mac {
            t.push(("macro", J::s(m)));
        }
        let mut b = vec![("s", J::Arr(stmts)), ("t", J::obj(t))];
        if bb.is_cleanup {
            b.push(("cleanup", J::Bool(true)));
        }
        J::obj(b)
    }

    fn dump_fn(&mut self, inst: Instance<'tcx>, generic: bool, depth: u32) -> J {
        let tcx = self.tcx;
        let did = inst.def_id();
        let local = did.is_local();
        let key = pstr(tcx, did, inst.args);
        let path = with_no_trimmed_paths!(tcx.def_path_str(did));
        let mut f = vec![
            ("key", J::s(key)),
            ("path", J::s(path)),
            ("local", J::Bool(local)),
            ("generic", J::Bool(generic)),
            ("depth", J::Int(depth as i128)),
        ];
        let dk = tcx.def_kind(did);
        f.push(("def_kind", J::s(format!("{:?}", dk))));
        if matches!(dk, DefKind::Fn | DefKind::AssocFn) {
            f.push(("name", J::s(tcx.item_name(did).as_str())));
            let vis = tcx.visibility(did);
            f.push(("pub", J::Bool(vis.is_public())));
            f.push(("const_fn", J::Bool(tcx.is_const_fn(did))));
        }
        let targs: Vec<J> = inst.args.types().map(|a| self.ty(a)).collect();
        f.push(("targs", J::Arr(targs)));
        // impl / trait info
        if let Some(impl_did) = tcx.impl_of_assoc(did) {
            let self_ty = tcx.type_of(impl_did).instantiate_identity().skip_norm_wip();
            let mut im = vec![("self", J::s(with_no_trimmed_paths!(format!("{}", self_ty))))];
            if tcx.impl_opt_trait_ref(impl_did).is_some() {
                let tr = tcx.impl_trait_ref(impl_did).instantiate_identity().skip_norm_wip();
                im.push(("trait", J::s(with_no_trimmed_paths!(tcx.def_path_str(tr.def_id)))));
                im.push(("trait_ref", J::s(with_no_trimmed_paths!(format!("{}", tr.print_only_trait_path())))));
            }
            im.push(("derived", J::Bool(tcx.is_automatically_derived(impl_did))));
            f.push(("impl", J::obj(im)));
        } else if let Some(tr) = tcx.trait_of_assoc(did) {
            f.push(("trait_default", J::s(with_no_trimmed_paths!(tcx.def_path_str(tr)))));
        }
        if local {
            f.push(("span", self.span(tcx.def_span(did))));
        }

        let body_ref: &Body<'tcx> = tcx.instance_mir(inst.def);
        if !local && body_ref.basic_blocks.len() > self.max_ext_blocks {
            f.push(("skipped", J::s("too large")));
            return J::obj(f);
        }
        let (body, env): (Body<'tcx>, TypingEnv<'tcx>) = if generic {
            (body_ref.clone(), TypingEnv::post_analysis(tcx, did))
        } else {
            let env = TypingEnv::fully_monomorphized();
            match inst.try_instantiate_mir_and_normalize_erasing_regions(tcx, env, EarlyBinder::bind(body_ref.clone())) {
                Ok(b) => (b, env),
                Err(_) => {
                    f.push(("skipped", J::s("normalization failure")));
                    return J::obj(f);
                }
            }
        };
        f.push(("arg_count", J::Int(body.arg_count as i128)));
        let mut locals = vec![];
        let mut names: HashMap<u32, String> = HashMap::new();
        for vdi in body.var_debug_info.iter() {
            if let mir::VarDebugInfoContents::Place(p) = vdi.value {
                if p.projection.is_empty() {
                    names.insert(p.local.as_u32(), vdi.name.as_str().to_string());
                }
            }
        }
        for (l, d) in body.local_decls.iter_enumerated() {
            let mut lf = vec![("ty", self.ty(d.ty))];
            if let Some(n) = names.get(&l.as_u32()) {
                lf.push(("name", J::s(n.clone())));
            }
            if d.mutability.is_mut() {
                lf.push(("mut", J::Bool(true)));
            }
            locals.push(J::obj(lf));
        }
        f.push(("locals", J::Arr(locals)));
        let mut blocks = vec![];
        for bb in body.basic_blocks.iter() {
            blocks.push(self.block(bb, &body, env, generic, depth));
        }
        f.push(("blocks", J::Arr(blocks)));
        J::obj(f)
    }

    // ---------------------------------------------------------------- crate-level items

    fn run(&mut self) -> J {
        let tcx = self.tcx;
        let mut adts = vec![];
        let mut consts = vec![];
        let mut docs = vec![];
        let mut traits_impls = vec![];

        let defs: Vec<_> = tcx.hir_crate_items(()).definitions().collect();
        for ldid in defs.iter().copied() {
            let did = ldid.to_def_id();
            let dk = tcx.def_kind(did);
            let path = with_no_trimmed_paths!(tcx.def_path_str(did));
            // docs
            {
                let mut doc = String::new();
                for a in tcx.get_all_attrs(did) {
                    if let Some(s) = a.doc_str() {
                        doc.push_str(s.as_str());
                        doc.push('\n');
                    }
                }
                if !doc.is_empty()
                    && matches!(
                        dk,
                        DefKind::Const { .. } | DefKind::AssocConst { .. } | DefKind::Struct | DefKind::Enum | DefKind::Fn | DefKind::AssocFn
                    )
                {
                    docs.push((path.clone(), J::s(doc)));
                }
            }
            match dk {
                DefKind::Struct | DefKind::Enum | DefKind::Union => {
                    let adt = tcx.adt_def(did);
                    let mut variants = vec![];
                    for (vi, v) in adt.variants().iter_enumerated() {
                        let mut fields = vec![];
                        for fd in v.fields.iter() {
                            let fty = tcx.type_of(fd.did).instantiate_identity().skip_norm_wip();
                            let vis = match fd.vis {
                                ty::Visibility::Public => "pub".to_string(),
                                ty::Visibility::Restricted(m) => {
                                    if m.is_crate_root() {
                                        "crate".to_string()
                                    } else {
                                        format!("in:{}", with_no_trimmed_paths!(tcx.def_path_str(m)))
                                    }
                                }
                            };
                            fields.push(J::obj(vec![
                                ("name", J::s(fd.name.as_str())),
                                ("ty", J::s(with_no_trimmed_paths!(format!("{}", fty)))),
                                ("vis", J::s(vis)),
                            ]));
                        }
                        let mut vf = vec![("name", J::s(v.name.as_str())), ("fields", J::Arr(fields))];
                        if adt.is_enum() {
                            vf.push(("discr", J::UInt(adt.discriminant_for_variant(tcx, vi).val)));
                        }
                        variants.push(J::obj(vf));
                    }
                    adts.push((
                        path.clone(),
                        J::obj(vec![
                            ("kind", J::s(format!("{:?}", dk))),
                            ("pub", J::Bool(tcx.visibility(did).is_public())),
                            ("repr", J::s(format!("{:?}", adt.repr()))),
                            ("variants", J::Arr(variants)),
                            ("span", self.span(tcx.def_span(did))),
                        ]),
                    ));
                }
                DefKind::Const { .. } | DefKind::AssocConst { .. } => {
                    let generics = tcx.generics_of(did);
                    if generics.count() == 0 {
                        let t = tcx.type_of(did).instantiate_identity().skip_norm_wip();
                        if let Ok(cv) = tcx.const_eval_poly(did) {
                            let v = self.decode_const(cv, t);
                            consts.push((
                                path.clone(),
                                J::obj(vec![
                                    ("ty", self.ty(t)),
                                    ("v", v),
                                    ("pub", J::Bool(tcx.visibility(did).is_public())),
                                    ("span", self.span(tcx.def_span(did))),
                                ]),
                            ));
                        }
                    }
                }
                DefKind::Fn | DefKind::AssocFn => {
                    if !tcx.is_mir_available(did) {
                        continue;
                    }
                    let generics = tcx.generics_of(did);
                    let has_ty_params = generics.requires_monomorphization(tcx);
                    if !has_ty_params {
                        let inst = Instance::mono(tcx, did);
                        self.enqueue(inst, false, 0);
                    } else {
                        let args = ty::GenericArgs::identity_for_item(tcx, did);
                        let inst = Instance::new_raw(did, args);
                        self.enqueue(inst, true, 0);
                        // force-instantiate single-type-parameter generics bounded by a local trait
                        // with every local type implementing that trait (e.g. leap-second providers)
                        self.force_instantiate(did);
                    }
                }
                DefKind::Impl { of_trait: true } => {
                    let tr = tcx.impl_trait_ref(did).instantiate_identity().skip_norm_wip();
                    traits_impls.push(J::obj(vec![
                        ("trait", J::s(with_no_trimmed_paths!(tcx.def_path_str(tr.def_id)))),
                        ("trait_ref", J::s(with_no_trimmed_paths!(format!("{}", tr.print_only_trait_path())))),
                        ("self", J::s(with_no_trimmed_paths!(format!("{}", tr.self_ty())))),
                        ("derived", J::Bool(tcx.is_automatically_derived(did))),
                    ]));
                }
                _ => {}
            }
        }

        while let Some((inst, generic, depth)) = self.queue.pop_front() {
            let id = self.fn_ids[&(inst, generic)];
            let j = self.dump_fn(inst, generic, depth);
            self.fns[id] = Some(j);
        }

        let fns: Vec<J> = self.fns.drain(..).map(|x| x.unwrap_or(J::Null)).collect();
        let opts = &tcx.sess.opts;
        let cfg = J::obj(vec![
            ("crate", J::s("hifitime")),
            ("overflow_checks", J::Bool(tcx.sess.overflow_checks())),
            ("debug_assertions", J::Bool(opts.debug_assertions)),
            ("mir_opt_level", J::Int(tcx.sess.mir_opt_level() as i128)),
            ("rustc", J::s(option_env!("CFG_VERSION").unwrap_or("nightly").to_string())),
            (
                "features",
                J::Arr(
                    tcx.sess
                        .opts
                        .cg
                        .target_feature
                        .split(',')
                        .filter(|s| !s.is_empty())
                        .map(|s| J::s(s))
                        .collect(),
                ),
            ),
            (
                "cfg",
                J::Arr(
                    tcx.sess
                        .config
                        .iter()
                        .filter(|(k, _)| k.as_str() == "feature")
                        .map(|(_, v)| J::s(v.map(|s| s.as_str().to_string()).unwrap_or_default()))
                        .collect(),
                ),
            ),
        ]);
        J::Obj(vec![
            ("config".into(), cfg),
            ("types".into(), J::Arr(std::mem::take(&mut self.types))),
            ("spans".into(), J::Arr(self.spans.iter().map(|s| J::s(s.clone())).collect())),
            ("adts".into(), J::Obj(adts)),
            ("consts".into(), J::Obj(consts)),
            ("docs".into(), J::Obj(docs)),
            ("trait_impls".into(), J::Arr(traits_impls)),
            ("fns".into(), J::Arr(fns)),
        ])
    }

    fn force_instantiate(&mut self, did: DefId) {
        let tcx = self.tcx;
        let generics = tcx.generics_of(did);
        // own + parent type params
        let mut ty_params = vec![];
        for i in 0..generics.count() {
            let p = generics.param_at(i, tcx);
            if let ty::GenericParamDefKind::Type { .. } = p.kind {
                ty_params.push(p);
            }
        }
        if ty_params.len() != 1 {
            return;
        }
        let param = ty_params[0];
        // find a local trait bound on that param
        let preds = tcx.predicates_of(did).instantiate_identity(tcx);
        let mut cands: Vec<Ty<'tcx>> = vec![];
        for (clause, _) in preds.predicates.iter().zip(preds.spans.iter()) {
            let clause = clause.skip_norm_wip();
            if let Some(tp) = clause.as_trait_clause() {
                let tp = tp.skip_binder();
                if let ty::Param(pt) = tp.self_ty().kind() {
                    if pt.index == param.index && tp.def_id().is_local() {
                        for impl_did in tcx.all_impls(tp.def_id()) {
                            let self_ty = tcx.type_of(impl_did).instantiate_identity().skip_norm_wip();
                            if let ty::Adt(a, ia) = self_ty.kind() {
                                if a.did().is_local() && ia.is_empty() {
                                    cands.push(self_ty);
                                }
                            }
                        }
                    }
                }
            }
        }
        for t in cands {
            let args = ty::GenericArgs::for_item(tcx, did, |p, _| match p.kind {
                ty::GenericParamDefKind::Type { .. } => t.into(),
                ty::GenericParamDefKind::Lifetime => tcx.lifetimes.re_erased.into(),
                ty::GenericParamDefKind::Const { .. } => panic!("const param"),
            });
            if let Ok(Some(inst)) = Instance::try_resolve(tcx, TypingEnv::fully_monomorphized(), did, args) {
                self.enqueue(inst, false, 0);
            }
        }
    }
}

struct Mem {
    bytes: Vec<u8>,
    ptrs: BTreeMap<usize, AllocId>,
}

#[allow(dead_code)]
fn _unused(_: Size) {}
