"""Duration-level helpers shared by the rules: canonical-form entry assumptions, the value
(total nanosecond count) of an abstract Duration, region splits against the bounds, and
semantic equality of linear forms modulo product atoms."""
from .lin import Lin, INF, feasible, implies, interval
from .sym import Int, Bool, Struct, Enum, Ref, St, c_lin, c_and, c_or, TRUE, FALSE

NPC_ORACLE = 36525 * 86400 * 10 ** 9  # nanoseconds per (Julian) century, from the property statement


class DurCtx:
    def __init__(self, F, eng):
        self.F = F
        self.eng = eng
        self.NPC = F.const("duration::NANOSECONDS_PER_CENTURY")["v"]
        self.dur_tid = eng.find_tid("duration::Duration")
        self.MIN = self._cd("Duration::MIN")
        self.MAX = self._cd("Duration::MAX")
        self.ZERO = self._cd("Duration::ZERO")
        self.MIN_T = self.MIN[0] * self.NPC + self.MIN[1]
        self.MAX_T = self.MAX[0] * self.NPC + self.MAX[1]

    def _cd(self, name):
        v = self.F.const(name)["v"]
        f = dict(v["fields"])
        return (f["centuries"], f["nanoseconds"])

    # ---- abstract durations
    def parts(self, v):
        """(centuries Lin, nanoseconds Lin) of an abstract Duration value, or None"""
        if isinstance(v, Struct) and len(v.fs) == 2 and isinstance(v.fs[0], Int) and isinstance(v.fs[1], Int):
            return v.fs[0].lin, v.fs[1].lin
        return None

    def total(self, v):
        p = self.parts(v)
        if p is None:
            return None
        return p[0].scale(self.NPC) + p[1]

    def find_durations(self, v, st, out=None, depth=0):
        """All Duration-typed structs reachable inside value v (through refs/cells)."""
        if out is None:
            out = []
        if depth > 6 or v is None:
            return out
        if isinstance(v, Struct):
            if v.tid == self.dur_tid:
                out.append(v)
            else:
                for f in v.fs:
                    self.find_durations(f, st, out, depth + 1)
        elif isinstance(v, Enum):
            for f in v.fs:
                self.find_durations(f, st, out, depth + 1)
        elif isinstance(v, Ref):
            self.find_durations(self.eng.deref(st, v), st, out, depth + 1)
        return out

    def canonical_cond(self, d):
        c, n = self.parts(d)
        return c_or(c_lin("le", n - (self.NPC - 1)),
                    c_and(c_lin("eq", n - self.NPC), c_lin("eq", c - 32767)))

    def entry(self, fn, canonical=True, arg_names=None, extra=None, interior=False):
        """Entry states for fn with symbolic arguments; every Duration among them is assumed
        canonical (type invariant established by C02.R1).  -> list of (St, args)"""
        eng = self.eng
        eng.reset()
        st = St()
        args = []
        n = fn["arg_count"]
        for i in range(1, n + 1):
            nm = (arg_names[i - 1] if arg_names else None) or fn["locals"][i].get("name") or ("arg%d" % i)
            eng._pending_cells = []
            v = eng.sym(fn["locals"][i]["ty"], nm)
            for k2, inner in eng._pending_cells:
                st.store[k2] = inner
                eng.sym_cells0 = getattr(eng, "sym_cells0", {})
                eng.sym_cells0[k2] = inner
                eng.cell_tids = getattr(eng, "cell_tids", {})
                t = eng.types[fn["locals"][i]["ty"]]
                eng.cell_tids[k2] = t.get("to")
            args.append(v)
        states = [st]
        if canonical:
            for a in args:
                for d in self.find_durations(a, st):
                    nxt = []
                    for s in states:
                        if interior:
                            # away from the bounds: the value is not MAX (statements that exclude saturation)
                            nxt.extend(eng.assume(s, c_lin("le", self.parts(d)[1] - (self.NPC - 1))))
                        else:
                            nxt.extend(eng.assume(s, self.canonical_cond(d)))
                    states = nxt
        if extra is not None:
            nxt = []
            for s in states:
                nxt.extend(extra(s, args))
            states = nxt
        return [(s, args) for s in states]

    def run(self, fn, canonical=True, arg_names=None, extra=None, interior=False):
        """Explore fn from canonical symbolic arguments. -> (finals, args)"""
        finals = []
        args0 = None
        for st, args in self.entry(fn, canonical, arg_names, extra, interior):
            args0 = args
            finals.extend(self.eng.run(fn, args=args, st=st))
        return finals, args0

    # ---- reasoning on a final state
    def regions(self, st, spec):
        """Split a path by where the exact result `spec` lies w.r.t. the representable range.
        -> list of (name, constraints-to-add)"""
        out = []
        for name, cons in (
            ("fits", [(Lin.const(self.MIN_T) - spec, "<="), (spec - self.MAX_T, "<=")]),
            ("high", [(Lin.const(self.MAX_T + 1) - spec, "<=")]),
            ("low", [(spec - (self.MIN_T - 1), "<=")]),
        ):
            if self.feasible(st, cons):
                out.append((name, cons))
        return out

    def feasible(self, st, extra):
        from .lin import _relevant
        seed = set()
        for l, _ in extra:
            seed.update(l.c.keys())
        return feasible(_relevant(st.cons, seed) + list(extra), st.bnd)

    def close(self, st, lins=(), extra=()):
        """Congruence closure for the uninterpreted arithmetic atoms on a path: two product /
        division / remainder atoms whose operands are provably equal under the path condition are
        equal, and a product with a provably constant operand is linear.  The derived equalities are
        *added to st.cons* (st should be a private clone).  Returns the number of equalities added."""
        from .lin import bounds as fm_bounds, Infeasible
        added = 0
        for _round in range(4):
            atoms = set()
            for l, _ in list(st.cons) + list(extra):
                atoms.update(l.c.keys())
            for l in lins:
                atoms.update(l.c.keys())
            # operands of uninterpreted atoms can mention further atoms
            cons = list(st.cons) + list(extra)
            new = []
            groups = {}
            for a in atoms:
                if a.kind in ("mul", "tdiv", "tdivs", "trem", "trems", "ediv", "erem", "edivs", "erems"):
                    groups.setdefault(a.kind, []).append(a)
            def L(x):
                return x if isinstance(x, Lin) else Lin.const(x)
            def const_of(l):
                if l.is_const():
                    return l.k
                try:
                    lo, hi = fm_bounds(l, cons, st.bnd)
                except Infeasible:
                    return None
                return lo if lo == hi else None
            for kind, lst in groups.items():
                lst.sort(key=lambda a: a.id)
                if kind == "mul":
                    for a in lst:
                        x, y = a.defn
                        kx, ky = const_of(x), const_of(y)
                        if kx is not None:
                            new.append((Lin.atom(a) - y.scale(kx), "=="))
                        elif ky is not None:
                            new.append((Lin.atom(a) - x.scale(ky), "=="))
                for i, a in enumerate(lst):
                    for b in lst[i + 1:]:
                        (ax, ay), (bx, by) = a.defn, b.defn
                        ax, ay, bx, by = L(ax), L(ay), L(bx), L(by)
                        same = implies(cons, ax - bx, "==", st.bnd) and implies(cons, ay - by, "==", st.bnd)
                        if not same and kind == "mul":
                            same = implies(cons, ax - by, "==", st.bnd) and implies(cons, ay - bx, "==", st.bnd)
                        if same:
                            new.append((Lin.atom(a) - Lin.atom(b), "=="))
            # symbolic-divisor atoms whose divisor is provably constant coincide with the constant-divisor ones
            fresh = [c for c in new if (c[0].key(), c[1]) not in st.ckey and not implies(cons, c[0], "==", st.bnd)]
            if not fresh:
                break
            self.eng.add_cons(st, fresh)
            added += len(fresh)
        return added

    def feasible_local(self, st, extra):
        """Feasibility of `extra` against only those path constraints whose atoms all occur in `extra`
        (an over-approximation of feasibility: cheap, used to skip impossible case splits)."""
        atoms = set()
        for l, _ in extra:
            atoms.update(l.c.keys())
        loc = [(l, o) for l, o in st.cons if l.c and all(a in atoms for a in l.c)]
        return feasible(loc + list(extra), st.bnd)

    def implies_eq(self, st, a, b, extra=()):
        """cons(st) + extra |= a == b (st is expected to be congruence-closed, see close())."""
        d = a - b
        cons = list(st.cons) + list(extra)
        if d.is_const():
            return d.k == 0
        return implies(cons, d, "==", st.bnd)

    def simplify(self, lin):
        """Rewrite with the definitional identities of the atoms (sound: each identity is a constraint of every
        path that created the atom):  NPC*dur[S].c + dur[S].n -> S ;  k*ediv(x,k) + erem(x,k) -> x ; same for tdiv/trem."""
        for _ in range(64):
            changed = False
            by_def = {}
            for a in lin.c:
                if a.kind in ("dur.c", "dur.n"):
                    by_def.setdefault(("dur", a.defn.key()), {})[a.kind] = a
                elif a.kind in ("ediv", "erem", "tdiv", "trem"):
                    x, k = a.defn
                    by_def.setdefault((a.kind[0], x.key(), k), {})[a.kind[1:]] = a
            for key, d in by_def.items():
                if key[0] == "dur" and "dur.c" in d and "dur.n" in d:
                    ca, na = d["dur.c"], d["dur.n"]
                    m = lin.c[na]
                    if lin.c[ca] == m * self.NPC:
                        rest = Lin({k: v for k, v in lin.c.items() if k is not ca and k is not na}, lin.k)
                        lin = rest + ca.defn.scale(m)
                        changed = True
                        break
                elif key[0] in ("e", "t") and "div" in d and "rem" in d:
                    qa, ra = d["div"], d["rem"]
                    x, k = qa.defn
                    m = lin.c[ra]
                    if lin.c[qa] == m * k:
                        rest = Lin({kk: v for kk, v in lin.c.items() if kk is not qa and kk is not ra}, lin.k)
                        lin = rest + x.scale(m)
                        changed = True
                        break
            if not changed:
                break
        return lin

    def implies(self, st, lin, op, extra=()):
        return implies(list(st.cons) + list(extra), lin, op, st.bnd)

    def is_const_dur(self, st, v, cd, extra=()):
        p = self.parts(v)
        if p is None:
            return False
        return self.implies(st, p[0] - cd[0], "==", extra) and self.implies(st, p[1] - cd[1], "==", extra)

    def is_canonical(self, st, v, extra=()):
        p = self.parts(v)
        if p is None:
            return False
        c, n = p
        if not self.implies(st, n - self.NPC, "<=", extra):
            return False
        if not self.implies(st, -n, "<=", extra):
            return False
        # n == NPC => c == 32767
        ex = list(extra) + [(n - self.NPC, "==")]
        if self.feasible(st, ex) and not self.implies(st, c - 32767, "==", ex):
            return False
        return True

    # ---- human-readable description of where a path lives (for reports / finding keys)
    def region_label(self, st, atoms_of_interest, extra=()):
        """Coarse semantic region of the *inputs* on this path: sign class of each century atom."""
        parts = []
        for name, lin in atoms_of_interest:
            if self.implies(st, lin + 2, "<=", extra):
                parts.append("%s<=-2" % name)
            elif self.implies(st, lin + 1, "==", extra):
                parts.append("%s=-1" % name)
            elif self.implies(st, -lin, "<=", extra):
                parts.append("%s>=0" % name)
            elif self.implies(st, lin + 1, "<=", extra):
                parts.append("%s<0" % name)
            else:
                parts.append("%s:any" % name)
        return ",".join(parts)


def via(st, bad_arms):
    """Names of helper functions whose own failing arm this path passes through."""
    out = []
    for t in st.trace:
        if isinstance(t, tuple) and t and t[0] == "ret" and (t[1], t[2]) in bad_arms:
            nm = bad_arms[(t[1], t[2])]
            if nm not in out:
                out.append(nm)
    return out


def describe_path(eng, st, limit=12):
    cons = []
    for lin, op in st.cons[:limit]:
        cons.append("%r %s 0" % (lin, op))
    return {"path_condition": cons, "n_constraints": len(st.cons),
            "events": [{k: v for k, v in e.items() if k in ("kind", "msg", "fn", "span")} for e in st.events][:4]}
