"""Template strings: the abstract string domain of the writer/reader agreement analysis (C10).

A template string is a sequence of elements, each either one ASCII character given by a linear form (a constant code, or
an atom ranging over '0'..'9' for "some digit") or one opaque run `num` (a decimal number's text: non-empty, free of white
space, of symbolic length).  That is exactly what the writers produce: literal separators, zero-padded digit runs and a time
scale name.  Byte offsets are linear forms (prefix sums of the element lengths), so slicing at element boundaries, trimming,
prefix tests, character iteration and the value of a digit run (sum of digit * 10^k: a linear form) are all exact.  Anything
the domain cannot decide returns NotImplemented, so the generic symbolic string models take over and the conclusion is lost
(reported), never assumed."""
from .lin import Lin, implies, interval
from .sym import Int, Bool, Flt, Struct, Enum, Ref, Str, Opq, TRUE, FALSE, c_lin, DIVERGE
from .models import IterV, _str_of

WS = (9, 10, 11, 12, 13, 32)


def el_len(e):
    """byte length of one element: a constant character has its UTF-8 length, a digit atom is ASCII, a number run is symbolic"""
    if e[0] == "b":
        return Lin.const(1)
    if e[0] != "c":
        return e[2]
    if e[1].is_const():
        return Lin.const(len(chr(e[1].k).encode()))
    return Lin.const(1)


class TStr(Str):
    __slots__ = ("els",)

    def __init__(self, els, name):
        ln = Lin.const(0)
        for e in els:
            ln = ln + el_len(e)
        Str.__init__(self, s=None, sym=name, ln=ln)
        self.els = tuple(els)

    def __repr__(self):
        return "TStr(%s)" % render(self.els)


def render(els):
    out = []
    for e in els:
        if e[0] == "c":
            out.append(chr(e[1].k) if e[1].is_const() else "#")
        elif e[0] == "b":
            out.append("\\x%02x" % e[1].k if e[1].is_const() else "\\x??")
        else:
            out.append("<%s>" % e[1])
    return "".join(out)


class Ctx:
    """Factory + models, bound to one engine."""

    def __init__(self, eng):
        self.eng = eng
        self.n = 0
        self.digit_runs = {}

    # ---------------------------------------------------------------- construction
    def mk(self, els):
        els = tuple(els)
        if els and all(e[0] == "c" and e[1].is_const() for e in els) or not els:
            s = "".join(chr(e[1].k) for e in els)
            return Str(s=s, ln=Lin.const(len(s.encode())))
        self.n += 1
        return TStr(els, "tstr%d" % self.n)

    def lit(self, s):
        return [("c", Lin.const(ord(ch))) for ch in s]

    def digits(self, name, n):
        """n digit characters; -> (elements, value linear form)"""
        els = []
        val = Lin.const(0)
        for i in range(n):
            a = self.eng.atom("%s[%d]" % (name, i), 48, 57)
            els.append(("c", Lin.atom(a)))
            val = val + (Lin.atom(a) - 48).scale(10 ** (n - 1 - i))
        return els, val

    def num(self, name):
        a = self.eng.atom("len(%s)" % name, 1, 64)
        return [("num", name, Lin.atom(a))]

    # ---------------------------------------------------------------- helpers
    def els_of(self, s):
        if isinstance(s, TStr):
            return s.els
        if isinstance(s, Str) and s.s is not None:
            return tuple(self.lit(s.s))
        return None

    def bytes_of(self, els):
        """the template as a list of byte values (Lin), or None when an element has no fixed byte length"""
        out = []
        for e in els:
            if e[0] == "b":
                out.append(e[1])
            elif e[0] == "c":
                if e[1].is_const():
                    out.extend(Lin.const(x) for x in chr(e[1].k).encode())
                else:
                    out.append(e[1])  # a digit: one ASCII byte
            else:
                return None
        return out

    def bounds_of(self, els):
        out = [Lin.const(0)]
        for e in els:
            out.append(out[-1] + el_len(e))
        return out

    def find(self, st, bnds, x):
        k = x.key()
        for i, b in enumerate(bnds):
            if b.key() == k:
                return i
        for i, b in enumerate(bnds):
            if implies(st.cons, x - b, "==", st.bnd):
                return i
        return None

    def is_ws(self, st, e):
        """True / False / None(unknown)"""
        if e[0] != "c":
            return False  # a number's text holds no white space
        lo, hi = interval(e[1], st.bnd)
        if lo == hi:
            return lo in WS
        if lo > 32 or hi < 9:
            return False
        return None

    # ---------------------------------------------------------------- models
    def install(self):
        H = self.eng.hooks
        H["core::str::<impl str>::trim"] = self.m_trim
        H["core::str::<impl str>::starts_with"] = self.m_starts_with
        H["core::str::<impl str>::trim_end_matches"] = self.m_trim_end_matches
        H["core::str::<impl str>::get"] = self.m_get
        H["core::str::traits::<impl core::ops::Index<I> for str>::index"] = self.m_index
        H["core::slice::index::<impl core::ops::Index<I> for [T]>::index"] = self.m_bytes_index
        H["core::cmp::impls::<impl core::cmp::PartialEq<&B> for &A>::eq"] = self.m_ref_eq
        H["core::slice::<impl [T]>::get"] = self.m_bytes_get
        H["core::slice::<impl [T]>::starts_with"] = self.m_bytes_starts_with
        H["core::str::<impl str>::char_indices"] = self.m_char_indices
        H["core::iter::Iterator::nth"] = self.m_nth
        H["<core::str::Chars<'a> as core::iter::Iterator>::next"] = self.m_chars_next
        H["<core::str::CharIndices<'a> as core::iter::Iterator>::next"] = self.m_next
        H["core::char::methods::<impl char>::is_numeric"] = self.m_is_numeric
        H["core::char::methods::<impl char>::len_utf8"] = self.m_len_utf8
        H["core::str::traits::<impl core::cmp::PartialEq for str>::eq"] = self.m_eq
        H["lexical_core::parse"] = self.m_parse
        H["snafu::ResultExt::with_context"] = self.m_with_context
        H["<core::result::Result<T, E> as snafu::ResultExt<T, E>>::with_context"] = self.m_with_context

    def m_trim(self, eng, st, c, args, dest_tid, t):
        s = _str_of(eng, st, args[0])
        if not isinstance(s, TStr):
            return NotImplemented
        els = list(s.els)
        while els:
            w = self.is_ws(st, els[0])
            if w is None:
                return NotImplemented
            if not w:
                break
            els.pop(0)
        while els:
            w = self.is_ws(st, els[-1])
            if w is None:
                return NotImplemented
            if not w:
                break
            els.pop()
        return [(st, Ref(val=s if len(els) == len(s.els) else self.mk(els)))]

    def m_trim_end_matches(self, eng, st, c, args, dest_tid, t):
        """trim_end_matches(char::is_alphabetic): the predicate is identified from the resolved callee instance (a fn item
        type argument), not from text.  A number run is taken to end with a digit or '.', never a letter."""
        inst = c.get("inst") or ""
        if "is_alphabetic" not in inst:
            return NotImplemented
        s = _str_of(eng, st, args[0])
        if not isinstance(s, TStr):
            return NotImplemented
        els = list(s.els)
        while els:
            e = els[-1]
            if e[0] != "c":
                break
            lo, hi = interval(e[1], st.bnd)
            if lo == hi:
                if not chr(lo).isalpha():
                    break
            elif 48 <= lo and hi <= 57:
                break
            else:
                return NotImplemented
            els.pop()
        return [(st, Ref(val=self.mk(els) if els else Str(s="", ln=Lin.const(0))))]

    def m_starts_with(self, eng, st, c, args, dest_tid, t):
        s = _str_of(eng, st, args[0])
        p = _str_of(eng, st, args[1])
        if not isinstance(s, TStr) or p is None or p.s is None:
            return NotImplemented
        for i, ch in enumerate(p.s):
            if i >= len(s.els):
                return [(st, Bool(FALSE))]
            e = s.els[i]
            if e[0] != "c":
                return NotImplemented
            lo, hi = interval(e[1], st.bnd)
            if lo == hi:
                if lo != ord(ch):
                    return [(st, Bool(FALSE))]
            elif not (lo <= ord(ch) <= hi):
                return [(st, Bool(FALSE))]
            else:
                return NotImplemented
        return [(st, Bool(TRUE))]

    def m_get(self, eng, st, c, args, dest_tid, t):
        from .strmodels import range_of
        s = _str_of(eng, st, args[0])
        if not isinstance(s, TStr):
            return NotImplemented
        rg = range_of(eng, st, args[1], s.len)
        if rg is None:
            return NotImplemented
        a, b = rg
        bnds = self.bounds_of(s.els)
        i, j = self.find(st, bnds, a), self.find(st, bnds, b)
        if i is not None and j is not None:
            if i <= j:
                return [(st, eng.mk_option(dest_tid, Ref(val=self.mk(s.els[i:j]))))]
            return [(st, eng.mk_option(dest_tid, None))]
        # provably out of range?
        if implies(st.cons, s.len - b + 1, "<=", st.bnd) or implies(st.cons, b - a + 1, "<=", st.bnd):
            return [(st, eng.mk_option(dest_tid, None))]
        # an index strictly inside a multi-byte character is not a char boundary
        for x, ix in ((a, i), (b, j)):
            if ix is None and x.is_const() and all(bb.is_const() for bb in bnds):
                if any(bnds[k].k < x.k < bnds[k + 1].k for k in range(len(bnds) - 1)):
                    return [(st, eng.mk_option(dest_tid, None))]
        return NotImplemented

    def m_index(self, eng, st, c, args, dest_tid, t):
        """s[a..b] on a template: the slice when both ends are element boundaries, a panic when one provably is not"""
        from .strmodels import range_of
        s = _str_of(eng, st, args[0])
        if not isinstance(s, TStr):
            return NotImplemented
        rg = range_of(eng, st, args[1], s.len)
        if rg is None:
            return NotImplemented
        a, b = rg
        bnds = self.bounds_of(s.els)
        i, j = self.find(st, bnds, a), self.find(st, bnds, b)
        if i is not None and j is not None and i <= j:
            return [(st, Ref(val=self.mk(s.els[i:j])))]
        if i is not None and j is not None:
            st.end = "panic"
            eng.event(st, "panic", "str slicing with start > end on a template", callee="str::index")
            return [(st, DIVERGE)]
        return NotImplemented

    def m_bytes_index(self, eng, st, c, args, dest_tid, t):
        """bytes[a..b] of a template's bytes (as_bytes keeps the template): the sub-template when both ends are element boundaries"""
        from .strmodels import range_of
        s = _str_of(eng, st, args[0])
        if s is None or isinstance(args[1], Int):
            return NotImplemented
        els = self.els_of(s)
        if els is None:
            return NotImplemented
        rg = range_of(eng, st, args[1], s.len)
        if rg is None:
            return NotImplemented
        a, b = rg
        bnds = self.bounds_of(els)
        i, j = self.find(st, bnds, a), self.find(st, bnds, b)
        if i is not None and j is not None and i <= j:
            return [(st, Ref(val=self.mk(els[i:j])))]
        # a byte slice may cut a multi-byte character: fall back to the byte-level template
        bs = self.bytes_of(els)
        if bs is not None and a.is_const() and b.is_const() and 0 <= a.k <= b.k <= len(bs):
            self.n += 1
            return [(st, Ref(val=TStr([("b", x) for x in bs[a.k:b.k]], "bytes%d" % self.n)))]
        return NotImplemented

    def m_bytes_get(self, eng, st, c, args, dest_tid, t):
        """bytes.get(a..b) of a template's bytes: None when the range provably leaves the slice, else Some(what indexing gives)"""
        from .strmodels import range_of
        s = _str_of(eng, st, args[0])
        if s is None or isinstance(args[1], Int) or self.els_of(s) is None:
            return NotImplemented
        rg = range_of(eng, st, args[1], s.len)
        if rg is None:
            return NotImplemented
        a, b = rg
        if implies(st.cons, s.len - b + 1, "<=", st.bnd) or implies(st.cons, b - a + 1, "<=", st.bnd):
            return [(st, eng.mk_option(dest_tid, None))]
        if not (implies(st.cons, b - s.len, "<=", st.bnd) and implies(st.cons, a - b, "<=", st.bnd)):
            return NotImplemented
        r = self.m_bytes_index(eng, st, c, args, None, t)
        if r is NotImplemented:
            return NotImplemented
        return [(s2, eng.mk_option(dest_tid, v)) for s2, v in r]

    def m_bytes_starts_with(self, eng, st, c, args, dest_tid, t):
        """bytes.starts_with(needle) on a template's bytes with a constant needle: byte-wise, exact when every byte is decided"""
        s = _str_of(eng, st, args[0])
        p = _str_of(eng, st, args[1])
        if s is None or p is None or p.s is None:
            return NotImplemented
        els = self.els_of(s)
        if els is None:
            return NotImplemented
        need = p.s.encode("utf-8")
        bs, whole = [], True  # the leading bytes, as far as they are known
        for e in els:
            if len(bs) >= len(need):
                break
            b1 = self.bytes_of([e])
            if b1 is None:
                whole = False  # a number run: non-empty, but its text is opaque
                break
            bs.extend(b1)
        for i, ch in enumerate(need):
            if i >= len(bs):
                return [(st, Bool(FALSE))] if whole else NotImplemented
            x = bs[i]
            lo, hi = interval(x, st.bnd) if isinstance(x, Lin) else (x, x)
            if lo == hi:
                if lo != ch:
                    return [(st, Bool(FALSE))]
            elif not (lo <= ch <= hi):
                return [(st, Bool(FALSE))]
            else:
                return NotImplemented
        return [(st, Bool(TRUE))]

    def m_ref_eq(self, eng, st, c, args, dest_tid, t):
        """&[u8] == &[u8] / &str == &str where a template is involved: element-wise, exact when every element is decided"""
        a = _str_of(eng, st, args[0])
        b = _str_of(eng, st, args[1])
        if a is None or b is None:
            return NotImplemented
        if a.s is not None and b.s is not None:
            return [(st, Bool(TRUE if a.s == b.s else FALSE))]
        return self.m_eq(eng, st, c, [Ref(val=a), Ref(val=b)], dest_tid, t)

    def m_nth(self, eng, st, c, args, dest_tid, t):
        """s.chars().nth(k) on a template, k constant"""
        ref = args[0]
        it = eng.deref(st, ref) if isinstance(ref, Ref) else None
        n = args[1]
        if not (isinstance(it, IterV) and it.ikind == "chars" and it.n == 0 and isinstance(n, Int) and n.lin.is_const()):
            return NotImplemented
        s = _str_of(eng, st, it.a)
        els = self.els_of(s) if s is not None else None
        if els is None or (not isinstance(s, TStr) and s.s is None):
            return NotImplemented
        k = n.lin.k
        if k >= len(els):
            return [(st, eng.mk_option(dest_tid, None))]
        if any(e[0] != "c" for e in els[:k + 1]):
            return NotImplemented
        char_tid = eng.types[dest_tid]["variants"][1]["ftys"][0]
        return [(st, eng.mk_option(dest_tid, Int(els[k][1], char_tid)))]

    def m_chars_next(self, eng, st, c, args, dest_tid, t):
        """s.chars().next() (and further next() calls) on a template: the characters in order"""
        ref = args[0]
        it = eng.deref(st, ref) if isinstance(ref, Ref) else None
        if not (isinstance(it, IterV) and it.ikind == "chars" and isinstance(it.n, int) and isinstance(ref, Ref) and ref.key is not None):
            return NotImplemented
        s = _str_of(eng, st, it.a)
        els = self.els_of(s) if s is not None else None
        if els is None or (not isinstance(s, TStr) and s.s is None):
            return NotImplemented
        k = it.n
        if k >= len(els):
            return [(st, eng.mk_option(dest_tid, None))]
        if any(e[0] != "c" for e in els[:k + 1]):
            return NotImplemented
        eng.write_key(st, ref.key, ref.proj, IterV("chars", a=it.a, n=k + 1))
        char_tid = eng.types[dest_tid]["variants"][1]["ftys"][0]
        return [(st, eng.mk_option(dest_tid, Int(els[k][1], char_tid)))]

    def m_char_indices(self, eng, st, c, args, dest_tid, t):
        s = _str_of(eng, st, args[0])
        if not isinstance(s, TStr):
            els = self.els_of(s) if s is not None else None
            if els is None:
                return NotImplemented
            s = TStr(els, "lit%d" % id(s))
        return [(st, IterV("tchars", a=s, n=0))]

    def m_next(self, eng, st, c, args, dest_tid, t):
        ref = args[0]
        it = eng.deref(st, ref) if isinstance(ref, Ref) else None
        if not (isinstance(it, IterV) and it.ikind == "tchars"):
            return NotImplemented
        s = it.a
        if it.n >= len(s.els):
            return [(st, eng.mk_option(dest_tid, None))]
        e = s.els[it.n]
        if e[0] != "c":
            st.end = "limit"
            eng.event(st, "imprecise", "character iteration over an opaque number run")
            return [(st, DIVERGE)]
        pos = self.bounds_of(s.els)[it.n]
        eng.write_key(st, ref.key, ref.proj, IterV("tchars", a=s, n=it.n + 1))
        tup_tid = eng.types[dest_tid]["variants"][1]["ftys"][0]
        el = eng.types[tup_tid]["elems"]
        return [(st, eng.mk_option(dest_tid, Struct(tup_tid, [Int(pos, el[0]), Int(e[1], el[1])])))]

    def m_is_numeric(self, eng, st, c, args, dest_tid, t):
        ch = args[0]
        if not isinstance(ch, Int):
            return NotImplemented
        lo, hi = interval(ch.lin, st.bnd)
        if lo == hi:
            return [(st, Bool(TRUE if chr(lo).isnumeric() else FALSE))]
        if 48 <= lo and hi <= 57:
            return [(st, Bool(TRUE))]
        return NotImplemented

    def m_len_utf8(self, eng, st, c, args, dest_tid, t):
        ch = args[0]
        if not isinstance(ch, Int):
            return NotImplemented
        lo, hi = interval(ch.lin, st.bnd)
        if 0 <= lo and hi < 128:
            return [(st, Int(Lin.const(1), dest_tid))]
        if lo == hi:
            return [(st, Int(Lin.const(len(chr(lo).encode())), dest_tid))]
        return NotImplemented

    def m_eq(self, eng, st, c, args, dest_tid, t):
        a = _str_of(eng, st, args[0])
        b = _str_of(eng, st, args[1])
        if a is None or b is None or not (isinstance(a, TStr) or isinstance(b, TStr)):
            return NotImplemented
        ea, eb = self.els_of(a), self.els_of(b)
        if ea is None or eb is None:
            return NotImplemented
        if any(e[0] == "b" or (e[0] == "c" and e[1].is_const() and e[1].k > 127) for e in ea + eb):
            # byte-level comparison
            ba, bb_ = self.bytes_of(ea), self.bytes_of(eb)
            if ba is None or bb_ is None:
                return NotImplemented
            ea, eb = [("c", x) for x in ba], [("c", x) for x in bb_]
        if all(e[0] == "c" for e in ea + eb):
            if len(ea) != len(eb):
                return [(st, Bool(FALSE))]
            unknown = False
            for x, y in zip(ea, eb):
                lo, hi = interval(x[1] - y[1], st.bnd)
                if lo > 0 or hi < 0:
                    return [(st, Bool(FALSE))]
                if not (lo == hi == 0):
                    unknown = True
            if not unknown:
                return [(st, Bool(TRUE))]
        return NotImplemented

    def m_parse(self, eng, st, c, args, dest_tid, t):
        """lexical_core::parse::<N>(bytes): a run of decimal digits is the number it spells; an opaque number run is a value
        named after it; text with a character that cannot occur in a number is an error."""
        s = _str_of(eng, st, args[0])
        els = self.els_of(s) if s is not None else None
        if els is None:
            return NotImplemented
        ok_vi = eng.variant_index(dest_tid, "Ok")
        err_vi = eng.variant_index(dest_tid, "Err")
        val_tid = eng.types[dest_tid]["variants"][ok_vi]["ftys"][0]
        err_tid = eng.types[dest_tid]["variants"][err_vi]["ftys"][0]
        vt = eng.types[val_tid]

        def err(why):
            st.trace.append(("lexical-err", why, render(els)))
            return [(st, Enum(dest_tid, err_vi, (eng.fresh(err_tid, ("lexical-error", why, render(els))),)))]
        if not els:
            return err("empty")
        if vt["k"] == "int":
            if not all(e[0] == "c" for e in els):
                return NotImplemented
            val = Lin.const(0)
            n = len(els)
            for i, e in enumerate(els):
                lo, hi = interval(e[1], st.bnd)
                if hi < 48 or lo > 57:
                    if not (i == 0 and lo == hi and lo in (43, 45) and n > 1):
                        return err("non-digit")
                    return NotImplemented  # signed text: not produced by the writers
                if lo < 48 or hi > 57:
                    return NotImplemented
                val = val + (e[1] - 48).scale(10 ** (n - 1 - i))
            lo, hi = eng.int_range(val_tid)
            vlo, vhi = interval(val, st.bnd)
            if vlo < lo or vhi > hi:
                return NotImplemented  # may overflow: lexical reports an error for some digit strings
            st.trace.append(("lexical-int", render(els)))
            return [(st, Enum(dest_tid, ok_vi, (Int(val, val_tid),)))]
        if vt["k"] == "float":
            if els and all(e[0] == "c" for e in els) and len(els) <= 15:
                val = Lin.const(0)
                n = len(els)
                digits = True
                for i, e in enumerate(els):
                    lo, hi = interval(e[1], st.bnd)
                    if hi < 48 or lo > 57:
                        # a character no decimal number contains (letters other than e/E/inf/nan spellings, white space): an error
                        if lo == hi and (chr(lo).isspace() or (chr(lo).isalpha() and chr(lo) not in "eEinfatyINFATY") or lo > 127):
                            return err("non-number")
                        digits = False
                    elif lo < 48 or hi > 57:
                        digits = False
                    else:
                        val = val + (e[1] - 48).scale(10 ** (n - 1 - i))
                if digits:
                    st.trace.append(("lexical-float-int", render(els)))
                    return [(st, Enum(dest_tid, ok_vi, (Flt(("i2f", val.key(), val)),)))]
                return NotImplemented
            if len(els) == 1 and els[0][0] == "num":
                st.trace.append(("lexical-float", els[0][1]))
                return [(st, Enum(dest_tid, ok_vi, (Flt(("numval", els[0][1])),)))]
            return NotImplemented
        return NotImplemented

    def m_with_context(self, eng, st, c, args, dest_tid, t):
        """snafu's with_context: Ok(v) -> Ok(v); Err(e) -> Err(context built from e)."""
        r = args[0]
        if not isinstance(r, Enum):
            return NotImplemented
        src = eng.types[r.tid]["variants"][r.vi]["name"]
        if src == "Ok":
            return [(st, Enum(dest_tid, eng.variant_index(dest_tid, "Ok"), r.fs))]
        err_vi = eng.variant_index(dest_tid, "Err")
        err_tid = eng.types[dest_tid]["variants"][err_vi]["ftys"][0]
        return [(st, Enum(dest_tid, err_vi, (eng.fresh(err_tid, ("context", eng.term(r.fs[0]) if r.fs else None)),)))]
