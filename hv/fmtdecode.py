"""E7: decoder of rustc's `fmt::Arguments` template constants (encoding documented in this toolchain's
library/core/src/fmt/mod.rs: length-prefixed literal pieces; placeholder byte 0b11...... followed by optional
flags u32 / width u16 / precision u16 / arg_index u16; a zero byte terminates), plus engine models that turn
`write!`/`format!` call sequences into recorded output pieces."""

SIGN_AWARE_ZERO_PAD = 1 << 24
WIDTH_FLAG = 1 << 27
PRECISION_FLAG = 1 << 28
ALTERNATE = 1 << 23


class DecoderUnsupported(Exception):
    pass


def decode_template(b):
    """bytes -> list of ("lit", str) | ("arg", {index, width, zero_pad, precision, fill, flags})"""
    out = []
    i = 0
    nxt = 0
    n = len(b)
    while True:
        if i >= n:
            raise DecoderUnsupported("template not terminated")
        x = b[i]
        i += 1
        if x == 0:
            break
        if x < 0x80:
            out.append(("lit", bytes(b[i:i + x]).decode("utf-8")))
            i += x
        elif x == 0x80:
            ln = b[i] | (b[i + 1] << 8)
            i += 2
            out.append(("lit", bytes(b[i:i + ln]).decode("utf-8")))
            i += ln
        elif x >= 0xC0:
            flags = None
            width = precision = None
            idx = None
            if x & 1:
                flags = b[i] | (b[i + 1] << 8) | (b[i + 2] << 16) | (b[i + 3] << 24)
                i += 4
            if x & 2:
                width = b[i] | (b[i + 1] << 8)
                i += 2
            if x & 4:
                precision = b[i] | (b[i + 1] << 8)
                i += 2
            if x & 8:
                idx = b[i] | (b[i + 1] << 8)
                i += 2
            if x & 0x30:
                raise DecoderUnsupported("indirect width/precision")
            if idx is None:
                idx = nxt
            nxt = idx + 1
            d = {"index": idx, "width": width, "precision": precision,
                 "zero_pad": bool(flags is not None and flags & SIGN_AWARE_ZERO_PAD),
                 "fill": chr(flags & 0x1FFFFF) if flags is not None else " ",
                 "alternate": bool(flags is not None and flags & ALTERNATE)}
            out.append(("arg", d))
        else:
            raise DecoderUnsupported("byte 0x%02x" % x)
    # merge adjacent literals
    merged = []
    for p in out:
        if p[0] == "lit" and merged and merged[-1][0] == "lit":
            merged[-1] = ("lit", merged[-1][1] + p[1])
        else:
            merged.append(p)
    return merged


def selfcheck():
    """Positive fixture: the documented example b"\\x06hello \\xC0\\x01\\n\\x00" == "hello {}\\n"."""
    got = decode_template(b"\x06hello \xC0\x01\n\x00")
    want = [("lit", "hello "), ("arg", {"index": 0, "width": None, "precision": None, "zero_pad": False, "fill": " ", "alternate": False}),
            ("lit", "\n")]
    if got != want:
        raise DecoderUnsupported("self-check failed: %r" % (got,))
    # {:04} : flags (zero pad | fill '0'?) + width 4
    return True


def spec_string(p):
    """Render a decoded placeholder back as a format spec, e.g. {:04}"""
    d = p[1]
    s = ""
    if d["zero_pad"]:
        s += "0"
    if d["width"] is not None:
        s += str(d["width"])
    if d["precision"] is not None:
        s += ".%d" % d["precision"]
    return "{:%s}" % s if s else "{}"
