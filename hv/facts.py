"""Loader / index / pretty-printer for the fact base written by /verif/driver (hifi-facts)."""
import json
import re


class Facts:
    def __init__(self, path):
        with open(path) as f:
            d = json.load(f)
        self.raw = d
        self.path = path
        self.config = d["config"]
        self.types = d["types"]
        self.spans = d["spans"]
        self.adts = d["adts"]
        self.consts = d["consts"]
        self.docs = d["docs"]
        self.trait_impls = d["trait_impls"]
        self.fns = d["fns"]
        self.by_key = {}
        for i, f in enumerate(self.fns):
            if f is None:
                continue
            f["id"] = i
            # first wins (monomorphic and generic dumps of the same item have different keys)
            self.by_key.setdefault((f["key"], f.get("generic", False)), f)

    # ---- types
    def ty(self, i):
        return self.types[i]

    def ty_s(self, i):
        return self.types[i].get("s", "?")

    def span(self, i):
        if i is None:
            return "?"
        s = self.spans[i]
        # keep "src/...:line:col"
        m = re.match(r"(.*?): \d+:\d+$", s)
        return s

    # ---- function lookup by semantic anchor (never by file/line/text)
    def local_fns(self, generic=False):
        return [f for f in self.fns if f and f["local"] and f.get("generic", False) == generic and "blocks" in f]

    def find(self, self_ty=None, trait=None, name=None, generic=False, targs=None, trait_ref=None):
        """All local function instances matching (impl self type, trait path, method name).
        self_ty/trait compare on the last path segment(s) given (suffix match on '::' boundary)."""
        out = []
        for f in self.local_fns(generic):
            if name is not None and f.get("name") != name:
                continue
            im = f.get("impl")
            if self_ty is not None:
                if not im or not _suffix(im["self"], self_ty):
                    continue
            if trait is not None:
                if trait == "":
                    if im and "trait" in im:
                        continue
                else:
                    if not im or "trait" not in im or not _suffix(im["trait"], trait):
                        continue
            if trait_ref is not None:
                if not im or im.get("trait_ref") is None or not _suffix(im["trait_ref"], trait_ref):
                    continue
            if targs is not None:
                if [self.ty_s(t) for t in f["targs"]] != targs:
                    continue
            out.append(f)
        return out

    def find1(self, **kw):
        r = self.find(**kw)
        if len(r) != 1:
            raise AnchorMissing("anchor %r matched %d instances" % (kw, len(r)))
        return r[0]

    def free_fn(self, path_suffix, generic=False):
        r = [f for f in self.local_fns(generic) if not f.get("impl") and _suffix(f["path"], path_suffix)]
        if len(r) != 1:
            raise AnchorMissing("free fn %r matched %d" % (path_suffix, len(r)))
        return r[0]

    def const(self, suffix):
        r = [(k, v) for k, v in self.consts.items() if _suffix(k, suffix)]
        if len(r) != 1:
            raise AnchorMissing("const %r matched %d" % (suffix, len(r)))
        return r[0][1]

    def adt(self, suffix):
        r = [(k, v) for k, v in self.adts.items() if _suffix(k, suffix)]
        if len(r) != 1:
            raise AnchorMissing("adt %r matched %d" % (suffix, len(r)))
        return r[0][1]

    def fn(self, i):
        return self.fns[i]

    # ---- pretty printer (debugging / replay artefacts)
    def pp_place(self, p):
        s = "_%d" % p["l"]
        for e in p["pj"]:
            if e == "deref":
                s = "(*%s)" % s
            elif isinstance(e, dict) and "f" in e:
                s = "%s.%d" % (s, e["f"])
            elif isinstance(e, dict) and "idx" in e:
                s = "%s[_%d]" % (s, e["idx"])
            elif isinstance(e, dict) and "cidx" in e:
                s = "%s[%s%d]" % (s, "-" if e["from_end"] else "", e["cidx"])
            elif isinstance(e, dict) and "dc" in e:
                s = "(%s as %s)" % (s, e.get("name") or e["dc"])
            else:
                s = "%s.?%s" % (s, e)
        return s

    def pp_const(self, k):
        v = k.get("v")
        src = k.get("src")
        s = pp_val(v)
        if src:
            s += "{%s}" % src.split("::")[-1]
        return s

    def pp_op(self, o):
        if "cp" in o:
            return self.pp_place(o["cp"])
        if "mv" in o:
            return "move " + self.pp_place(o["mv"])
        if "k" in o:
            return "const " + self.pp_const(o["k"])
        return "?"

    def pp_rv(self, r):
        op = r["op"]
        if op == "use":
            return self.pp_op(r["x"])
        if op == "bin":
            return "%s(%s, %s)" % (r["b"], self.pp_op(r["l"]), self.pp_op(r["r"]))
        if op == "un":
            return "%s(%s)" % (r["u"], self.pp_op(r["x"]))
        if op == "cast":
            return "%s as %s [%s]" % (self.pp_op(r["x"]), self.ty_s(r["ty"]), r["ck"])
        if op == "ref":
            return "&%s%s" % ("mut " if r.get("mut") else "", self.pp_place(r["p"]))
        if op == "rawptr":
            return "&raw %s" % self.pp_place(r["p"])
        if op == "discr":
            return "discriminant(%s)" % self.pp_place(r["p"])
        if op == "agg":
            xs = ", ".join(self.pp_op(x) for x in r["xs"])
            if r["ak"] == "adt":
                return "%s::%s{%s}" % (r["adt"], r["vname"], xs)
            return "%s(%s)" % (r["ak"], xs)
        if op == "repeat":
            return "[%s; %s]" % (self.pp_op(r["x"]), r["n"])
        return op + ":" + r.get("dbg", "")

    def pp_callee(self, c):
        return c.get("inst") or c.get("decl") or c.get("kind")

    def pp_term(self, t):
        k = t["k"]
        if k == "goto":
            return "goto bb%d" % t["t"]
        if k == "switch":
            return "switch(%s) [%s, else bb%d]" % (
                self.pp_op(t["x"]),
                ", ".join("%d: bb%d" % (v, b) for v, b in t["vals"]),
                t["else"],
            )
        if k == "call":
            return "%s = %s(%s) -> %s" % (
                self.pp_place(t["dest"]),
                self.pp_callee(t["f"]),
                ", ".join(self.pp_op(a) for a in t["args"]),
                "bb%d" % t["t"] if t["t"] is not None else "!",
            )
        if k == "assert":
            return "assert(%s == %s, %s(%s)) -> bb%d" % (
                self.pp_op(t["cond"]),
                t["expected"],
                t["msg"],
                ", ".join(self.pp_op(a) for a in t["ops"]),
                t["t"],
            )
        if k == "drop":
            return "drop(%s) -> bb%d" % (self.pp_place(t["p"]), t["t"])
        return k

    def pp_fn(self, f):
        out = ["fn %s  [%s]" % (f["key"], self.span(f.get("span")))]
        for i, l in enumerate(f["locals"]):
            out.append("  let _%d: %s%s" % (i, self.ty_s(l["ty"]), "  // " + l["name"] if "name" in l else ""))
        for bi, b in enumerate(f["blocks"]):
            out.append("  bb%d%s:" % (bi, " (cleanup)" if b.get("cleanup") else ""))
            for s in b["s"]:
                if s["k"] == "a":
                    out.append("    %s = %s" % (self.pp_place(s["p"]), self.pp_rv(s["r"])))
                else:
                    out.append("    %s" % s["k"])
            out.append("    %s%s" % (self.pp_term(b["t"]), "   // macro " + b["t"]["macro"] if "macro" in b["t"] else ""))
        return "\n".join(out)


class AnchorMissing(Exception):
    pass


def _suffix(full, suf):
    if full == suf:
        return True
    return full.endswith("::" + suf)


def pp_val(v):
    if isinstance(v, dict):
        if "str" in v:
            return json.dumps(v["str"])
        if "fbits" in v:
            return v["repr"] + "f"
        if "char" in v:
            return repr(v["char"])
        if "adt" in v:
            return "%s::%s{%s}" % (
                v["adt"].split("::")[-1],
                v["variant"],
                ", ".join("%s: %s" % (n, pp_val(x)) for n, x in v["fields"]),
            )
        if "tuple" in v:
            return "(%s)" % ", ".join(pp_val(x) for x in v["tuple"])
        if "arr" in v:
            return "[%s]" % ", ".join(pp_val(x) for x in v["arr"][:8]) + ("…" if len(v["arr"]) > 8 else "")
        if "slice" in v:
            return "&[%s]" % ", ".join(pp_val(x) for x in v["slice"][:8])
        if "ref" in v:
            return "&" + pp_val(v["ref"])
        if "fn" in v:
            return "fn " + v["fn"]
        if "bytes" in v:
            return "b" + repr(bytes(v["bytes"]))
        return json.dumps(v)[:80]
    return json.dumps(v)


if __name__ == "__main__":
    import sys

    F = Facts(sys.argv[1])
    pat = sys.argv[2]
    for f in F.fns:
        if f and "blocks" in f and pat in f["key"] and (len(sys.argv) < 4 or str(f.get("generic")) == sys.argv[3]):
            print(F.pp_fn(f))
            print()
