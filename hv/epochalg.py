"""Epoch-level algebra: rules about epochs treat `Duration +/- Duration` as exact addition of
nanosecond counts away from the bounds (which the statements exclude and which is C01's own
obligation), and `Epoch::to_time_scale` as an uninterpreted conversion conv(epoch, scale)."""
from .lin import Lin
from .sym import Int, Bool, Struct, Enum, SymEnum, Ref, Opq, Flt


class EpochAlg:
    def __init__(self, F, eng, D):
        self.F, self.eng, self.D = F, eng, D
        self.add = F.find1(self_ty="Duration", name="add", trait_ref="Add")
        self.sub = F.find1(self_ty="Duration", name="sub", trait_ref="Sub")
        self.to_time_scale = F.find1(self_ty="Epoch", name="to_time_scale", trait="")
        self.conv_calls = []

    def install(self, duration_algebra=True, opaque_conv=True):
        e = self.eng
        e.hooks_by_id = {}
        if duration_algebra:
            e.hooks_by_id[self.add["id"]] = self._mk(+1)
            e.hooks_by_id[self.sub["id"]] = self._mk(-1)
        if opaque_conv:
            e.hooks_by_id[self.to_time_scale["id"]] = self._conv

    def uninstall(self):
        self.eng.hooks_by_id = {}

    def _mk(self, sign):
        D = self.D

        def hook(e, st, c, args, dest_tid, t):
            a, b = args[0], args[1]
            Ta, Tb = D.total(a), D.total(b)
            if Ta is None or Tb is None:
                return NotImplemented
            S = Ta + Tb.scale(sign)
            lo, hi = e.fm_bounds(st, S)
            if lo == hi:
                tot = max(D.MIN_T, min(D.MAX_T, lo))
                if tot == D.MAX_T:
                    cc, nn = D.MAX
                else:
                    cc, nn = tot // D.NPC, tot % D.NPC
                return [(st, Struct(D.dur_tid, [Int(Lin.const(cc), a.fs[0].tid), Int(Lin.const(nn), a.fs[1].tid)]))]
            nm = "dur[%r]" % (S,)
            ca = e.atom(nm + ".c", -32768, 32767, "dur.c", S)
            na = e.atom(nm + ".n", 0, D.NPC - 1, "dur.n", S)
            e.add_cons(st, [(Lin({ca: D.NPC, na: 1}) - S, "==")])
            st.trace.append(("dur-algebra", "+" if sign > 0 else "-"))
            return [(st, Struct(D.dur_tid, [Int(Lin.atom(ca), a.fs[0].tid), Int(Lin.atom(na), a.fs[1].tid)]))]

        return hook

    def _conv(self, e, st, c, args, dest_tid, t):
        """to_time_scale(&self, ts): identity when the scales are provably equal, inlined for constant
        epochs, otherwise an uninterpreted epoch conv(self, ts) in scale ts."""
        ep = e.deref(st, args[0])
        ts = args[1]
        if isinstance(ts, SymEnum) and ts.name in st.enum_ref:
            ts = st.enum_ref[ts.name]
        if not isinstance(ep, Struct) or len(ep.fs) != 2:
            return NotImplemented
        dur, src = ep.fs
        if isinstance(src, SymEnum) and src.name in st.enum_ref:
            src = st.enum_ref[src.name]
        # constant epoch and constant target: analyse the real code (e.g. GPST_REF_EPOCH.to_tai_duration())
        Td = self.D.total(dur)
        if Td is not None and Td.is_const() and isinstance(src, Enum) and isinstance(ts, Enum):
            return NotImplemented
        same = False
        if isinstance(src, Enum) and isinstance(ts, Enum) and src.vi == ts.vi:
            same = True
        if isinstance(src, SymEnum) and isinstance(ts, SymEnum) and src.name == ts.name:
            same = True
        self.conv_calls.append((st, ep, ts))
        if same:
            st.trace.append(("conv-call", ep, ts, ep.fs[0], True))
            return [(st, ep)]
        term = ("conv", e.term(dur), e.term(src), e.term(ts))
        d2 = e.fresh(self.D.dur_tid, term)
        # fresh durations are canonical values
        c2, n2 = self.D.parts(d2)
        e.add_cons(st, [(n2 - (self.D.NPC - 1), "<=")])
        st.trace.append(("conv-call", ep, ts, d2, False))
        self.last_conv = getattr(self, "last_conv", {})
        key = (id(st),)
        return [(st, Struct(ep.tid, [d2, ts]))]

    def conv_term(self, ep_dur, src, ts):
        e = self.eng
        return ("conv", e.term(ep_dur), e.term(src), e.term(ts))

    def conv_duration(self, ep_dur, src, ts):
        """The abstract duration the hook returns for conv(epoch{ep_dur, src}, ts) (memoised)."""
        return self.eng.fresh(self.D.dur_tid, self.conv_term(ep_dur, src, ts))


def scale_name(eng, st, v):
    if isinstance(v, SymEnum):
        v = st.enum_ref.get(v.name, v)
    if isinstance(v, Enum):
        return eng.types[v.tid]["variants"][v.vi]["name"]
    return None


def same_scale(eng, st, a, b):
    if isinstance(a, SymEnum) and a.name in st.enum_ref:
        a = st.enum_ref[a.name]
    if isinstance(b, SymEnum) and b.name in st.enum_ref:
        b = st.enum_ref[b.name]
    if isinstance(a, SymEnum) and isinstance(b, SymEnum):
        return a.name == b.name
    if isinstance(a, Enum) and isinstance(b, Enum):
        return a.vi == b.vi
    return False
