"""Loop abstraction for PANIC-FREE over parser loops: one arbitrary iteration from an arbitrary loop state.

At the first `Iterator::next` call of a symbolic (input-driven) iterator, every local the loop body may write is
replaced by a fresh symbolic value of its type (havoc), strengthened by *inferred* invariants: candidate facts
(0 <= v, v <= c for constants c occurring in the cone, v <= len(s)) are kept only if they hold on loop entry and
are preserved by one arbitrary iteration (Houdini-style greatest inductive subset).  The body is then explored once
for the Some edge and the code after the loop once for the None edge; reaching the `next` call again ends the path
('loop-back').  This over-approximates every iteration of every execution, so a panic site not reached here is
unreachable; termination is a separate CFG rule (every cycle is driven by such a finite iterator)."""
from .lin import Lin, implies, INF, interval
from .sym import Int, Bool, Flt, Struct, Enum, SymEnum, Ref, Str, Arr, Opq, St, c_lin, c_and, DIVERGE, norm_path
from .models import IterV, _str_of
from . import cfg

NEXT_PATHS = (
    "<core::str::CharIndices<'a> as core::iter::Iterator>::next",
    "<core::iter::Enumerate<I> as core::iter::Iterator>::next",
    "<core::str::Split<'a, P> as core::iter::Iterator>::next",
    "<core::str::Chars<'a> as core::iter::Iterator>::next",
    "<core::str::Lines<'a> as core::iter::Iterator>::next",
    "core::iter::range::<impl core::iter::Iterator for core::ops::Range<A>>::next",
)


def loop_blocks(fn, header):
    """Blocks on a cycle through `header`."""
    fwd = cfg.reachable(fn, header)
    out = set()
    for b in fwd:
        if header in cfg.reachable(fn, b) and b != header:
            out.add(b)
    out.add(header)
    return out


def written_locals(fn, blocks):
    out = set()
    for bi in blocks:
        b = fn["blocks"][bi]
        for s in b["s"]:
            if s["k"] in ("a", "setdiscr"):
                out.add(s["p"]["l"])
            # `&mut local` / `&raw mut local` taken inside the loop: the local may be written through the borrow
            if s["k"] == "a" and ((s["r"]["op"] == "ref" and s["r"].get("mut")) or s["r"]["op"] == "rawptr") and "deref" not in s["r"]["p"]["pj"]:
                out.add(s["r"]["p"]["l"])
        t = b["t"]
        if t["k"] == "call":
            out.add(t["dest"]["l"])
            # a &mut local passed to a call may be written through
            for a in t["args"]:
                p = cfg.operand_place(a)
                if p is not None and not p["pj"]:
                    pass
    return out


def is_data(types, tid, depth=0):
    t = types[tid]
    k = t["k"]
    if k in ("int", "bool", "char", "float"):
        return True
    if k == "tuple":
        return all(is_data(types, e, depth + 1) for e in t["elems"])
    if k == "array":
        return t["len"] is not None and t["len"] <= 64 and is_data(types, t["elem"], depth + 1)
    if k == "adt":
        if depth > 5:
            return False
        for v in t["variants"]:
            if "ftys" not in v:
                return v["nfields"] == 0 and t["enum"]
            if not all(is_data(types, f, depth + 1) for f in v["ftys"]):
                return False
        return True
    return False


def leaves(v, path=()):
    """(path, Int value) for every integer leaf of a structured value (structs / arrays; enums are skipped)."""
    if isinstance(v, Int):
        yield path, v
    elif isinstance(v, Struct):
        for i, f in enumerate(v.fs):
            yield from leaves(f, path + (("f", i),))
    elif isinstance(v, Arr):
        for i, f in enumerate(v.els):
            yield from leaves(f, path + (("i", i),))


def get_leaf(v, path):
    for k, i in path:
        if k == "f" and isinstance(v, Struct) and i < len(v.fs):
            v = v.fs[i]
        elif k == "i" and isinstance(v, Arr) and i < len(v.els):
            v = v.els[i]
        else:
            return None
    return v if isinstance(v, Int) else None


class Havoc:
    def __init__(self, eng, constants, max_rounds=8):
        self.eng = eng
        self.K = sorted(c for c in set(constants) if 0 <= c < 2 ** 31)
        self.cands = {}  # loop key -> set of candidates (local, path, kind, arg)
        self.known_loops = {}
        self.failed = set()
        self.fail_why = {}
        self.iter_base = {}
        self._bcache = {}
        self.phase = "infer"
        self.loops_seen = {}
        self.n_havoc = 0

    def install(self):
        for p in NEXT_PATHS:
            self.eng.hooks[p] = self.hook

    def uninstall(self):
        for p in NEXT_PATHS:
            self.eng.hooks.pop(p, None)

    # ------------------------------------------------------------------
    def strings_in_scope(self, st, fr):
        out = []
        for l in range(1, fr.fn["arg_count"] + 1):
            v = st.store.get((fr.fid, l))
            s = _str_of(self.eng, st, v) if v is not None else None
            if s is not None and s.sym is not None:
                out.append((l, s))
        # locals holding string slices derived from the arguments (e.g. `s = s_in.trim()`)
        for l, d in enumerate(fr.fn["locals"]):
            if l <= fr.fn["arg_count"]:
                continue
            v = st.store.get((fr.fid, l))
            if isinstance(v, Ref) and v.key is None and isinstance(v.val, Str) and v.val.sym is not None and d.get("name"):
                out.append((l, v.val))
        return out

    def candidates_for(self, st, fr, key, new_vals, item_info=None):
        eng = self.eng
        cands = set()
        strs = self.strings_in_scope(st, fr)
        for l, v in new_vals.items():
            for path, leaf in leaves(v):
                lo, hi = eng.int_range(leaf.tid)
                if lo < 0:
                    cands.add((l, path, "ge", 0))
                for c in self.K:
                    if c < hi:
                        cands.add((l, path, "le", c))
                if eng.types[leaf.tid].get("name") == "usize":
                    for sl, s in strs:
                        cands.add((l, path, "le_len", sl))
                    if item_info is not None:
                        # monotone iterator: indices yielded by one char_indices() only grow, and are char boundaries
                        cands.add((l, path, "le_item", 0))
                        cands.add((l, path, "boundary", 0))
        return cands

    def cand_holds(self, st, fr, cand, value_of):
        """Does the candidate hold for the current value of its leaf on this state?"""
        l, path, kind, arg = cand
        v = value_of(l)
        leaf = get_leaf(v, path) if v is not None else None
        if leaf is None:
            return False
        if kind in ("le_item", "boundary"):
            info = st.facts_extra.get(("item", fr.fid, self._cur_bb))
            if info is None:
                return False
            idx, sstr, at_head, chlin = info
            if kind == "le_item":
                # at the head (base case) the relation is to the index yielded now; at the back edge to the next one, which is
                # exactly idx + len_utf8(char)
                lin = leaf.lin - idx
                if not at_head:
                    lin = lin - Lin.atom(self.eng.atom("len_utf8(%r)" % (chlin,), 1, 4))
                if lin.is_const():
                    return lin.k <= 0
                lo, hi = self.eng.lin_bounds(st, lin)
                return hi <= 0 or implies(st.cons, lin, "<=", st.bnd)
            from .strmodels import boundary_known
            return boundary_known(self.eng, st, sstr, leaf.lin)
        if kind in ("ge", "le"):
            if leaf.lin.is_const():
                return leaf.lin.k >= arg if kind == "ge" else leaf.lin.k <= arg
            ck = (id(st), len(st.cons), leaf.lin.key())
            b = self._bcache.get(ck)
            if b is None:
                b = self._bcache[ck] = self.eng.fm_bounds(st, leaf.lin)
            return b[0] >= arg if kind == "ge" else b[1] <= arg
        else:
            sv = st.store.get((fr.fid, arg))
            s = _str_of(self.eng, st, sv) if sv is not None else None
            if s is None:
                return False
            lin = leaf.lin - s.len
        lo, hi = self.eng.lin_bounds(st, lin)
        if hi <= 0:
            return True
        return implies(st.cons, lin, "<=", st.bnd)

    def assume_cand(self, st, fr, cand, new_vals):
        l, path, kind, arg = cand
        leaf = get_leaf(new_vals[l], path)
        if leaf is None:
            return
        if kind in ("le_item", "boundary"):
            info = st.facts_extra.get(("item", fr.fid, self._cur_bb))
            if info is None:
                return
            idx, sstr, _, _c = info
            if kind == "le_item":
                self.eng.add_cons(st, [(leaf.lin - idx, "<=")])
            else:
                from .strmodels import add_boundary
                add_boundary(st, sstr, leaf.lin)
            return
        if kind == "ge":
            self.eng.add_cons(st, [(-leaf.lin + arg, "<=")])
        elif kind == "le":
            self.eng.add_cons(st, [(leaf.lin - arg, "<=")])
        else:
            sv = st.store.get((fr.fid, arg))
            s = _str_of(self.eng, st, sv) if sv is not None else None
            if s is not None:
                self.eng.add_cons(st, [(leaf.lin - s.len, "<=")])

    def le_inductive(self, st, leaf_end, leaf_start, c, cache):
        """Is `v <= c` preserved by this iteration, given only its own hypothesis `v_start <= c` (no upper bound of v is
        assumed at the head during inference, so guards such as `if n == MAX { return }` stay visible on the path)?
        Sufficient test: end <= c outright, or end - start <= d and (c tightened by the path's `start != k` facts) + d <= c."""
        from .lin import bounds, Infeasible
        if "hiE" not in cache:
            try:
                cache["hiE"] = bounds(leaf_end.lin, st.cons, st.bnd)[1]
                cache["hiD"] = bounds(leaf_end.lin - leaf_start, st.cons, st.bnd)[1] if leaf_start is not None else INF
            except Infeasible:
                cache["hiE"] = -INF
                cache["hiD"] = -INF
            nes = set()
            if leaf_start is not None and len(leaf_start.c) == 1 and leaf_start.k == 0:
                (a0, v0), = leaf_start.c.items()
                for (l2, o2) in st.cons:
                    if o2 == "!=" and len(l2.c) == 1 and a0 in l2.c and l2.k % l2.c[a0] == 0:
                        nes.add(-l2.k // l2.c[a0])
                lo0, hi0 = interval(leaf_start, st.bnd)
                cache["hi0"] = hi0
            cache["nes"] = nes
        if cache["hiE"] <= c:
            return True
        ub = min(c, cache.get("hi0", INF))
        while ub in cache["nes"]:
            ub -= 1
        return ub + cache["hiD"] <= c

    # ------------------------------------------------------------------
    def hook(self, eng, st, c, args, dest_tid, t):
        ref = args[0]
        it = eng.deref(st, ref) if isinstance(ref, Ref) else None
        if isinstance(it, IterV) and it.ikind in ("slice", "zip", "enum", "take"):
            inner = it
            while inner.ikind in ("enum", "take", "zip") and isinstance(inner.a, IterV):
                inner = inner.a
            if inner.ikind == "slice":
                return NotImplemented  # concrete, finite: handled by the iterator models
        if isinstance(it, Struct) and len(it.fs) == 2 and all(isinstance(x, Int) and x.lin.is_const() for x in it.fs):
            return NotImplemented  # constant Range: concrete
        fr = st.frames[-1]
        if not self.is_driver(fr.fn, fr.bb, t):
            return NotImplemented  # e.g. `token.chars().next()` inside a loop body: an ordinary (total) call
        key = (fr.fn["key"], fr.bb)
        site = ("loop", fr.fid, fr.bb)
        self._cur_bb = fr.bb
        self._bcache = {}
        if st.facts_extra.get(site):
            # back edge: check the candidates on the state at the end of the iteration
            info = st.facts_extra.get(("item", fr.fid, fr.bb))
            if info is not None:
                st.facts_extra[("item", fr.fid, fr.bb)] = (info[0], info[1], False, info[3])
            if self.phase == "infer":
                orig = st.facts_extra.get(("hvleaves", fr.fid, fr.bb), {})
                origl = st.facts_extra.get(("hvleaflins", fr.fid, fr.bb), {})
                lecache = {}
                for cand in list(self.cands.get(key, ())):
                    if (key, cand) in self.failed:
                        continue
                    lf = get_leaf(st.store.get((fr.fid, cand[0])), cand[1])
                    if lf is not None and orig.get((cand[0], cand[1])) == lf.lin.key():
                        continue  # untouched by this iteration: what was assumed at the head still holds
                    if cand[2] == "le" and lf is not None:
                        holds = self.le_inductive(st, lf, origl.get((cand[0], cand[1])), cand[3], lecache.setdefault((cand[0], cand[1]), {}))
                    else:
                        holds = self.cand_holds(st, fr, cand, lambda l: st.store.get((fr.fid, l)))
                    if not holds:
                        self.failed.add((key, cand))
                        self.fail_why.setdefault((key, cand), ("back-edge", repr(get_leaf(st.store.get((fr.fid, cand[0])), cand[1])), [x for x in st.trace if x and x[0] not in ("ret",)][-12:]))
            st.end = "loop-back"
            return [(st, DIVERGE)]
        fn = fr.fn
        blocks = loop_blocks(fn, fr.bb)
        wl = sorted(l for l in written_locals(fn, blocks) if l != t["dest"]["l"] and l != self.iter_base.get(key))
        data = [l for l in wl if is_data(eng.types, fn["locals"][l]["ty"]) and (fr.fid, l) in st.store]
        # written locals of other types (references, iterators, strings): forget them, so that a use before the iteration's own
        # definition reads an arbitrary value
        for l in wl:
            if l not in data and (fr.fid, l) in st.store and not isinstance(st.store[(fr.fid, l)], IterV):
                del st.store[(fr.fid, l)]
        # locals that are written through `&mut local` handed to callees inside the loop (e.g. token.advance_with)
        self.loops_seen[key] = {"blocks": len(blocks), "havoced": [fn["locals"][l].get("name") or "_%d" % l for l in data]}
        self.n_havoc += 1
        new_vals = {}
        for l in data:
            nm = "hv%d.%s" % (self.n_havoc, fn["locals"][l].get("name") or ("_%d" % l))
            eng._pending_cells = []
            new_vals[l] = eng.sym(fn["locals"][l]["ty"], nm)
        # the yielded item (created first: candidates may relate loop variables to it)
        item_tid = eng.types[dest_tid]["variants"][1]["ftys"][0] if "ftys" in eng.types[dest_tid]["variants"][1] else None
        eng._pending_cells = []
        item = eng.sym(item_tid, "hv%d.item" % self.n_havoc) if item_tid is not None else Opq(("item",), None)
        for k2, inner in eng._pending_cells:
            st.store[k2] = inner
        item_info = None
        sstr = None
        if isinstance(it, IterV) and it.ikind == "charidx":
            sstr = _str_of(eng, st, it.a)
            if sstr is not None and sstr.sym is not None and isinstance(item, Struct) and len(item.fs) == 2 and isinstance(item.fs[0], Int):
                item_info = (item.fs[0].lin, sstr, True, item.fs[1].lin)
                st.facts_extra[("item", fr.fid, fr.bb)] = item_info
                eng.add_cons(st, [(-item.fs[0].lin, "<=")])
        if key not in self.cands:
            # a loop first met in the check phase has no inferred invariants (nothing was checked for it)
            self.cands[key] = self.candidates_for(st, fr, key, new_vals, item_info) if self.phase == "infer" else set()
        if self.phase == "infer":
            # base case: candidates must hold on entry to the loop (for the first index yielded, whatever it is)
            for cand in list(self.cands[key]):
                if (key, cand) in self.failed:
                    continue
                if not self.cand_holds(st, fr, cand, lambda l: st.store.get((fr.fid, l))):
                    self.failed.add((key, cand))
                    self.fail_why.setdefault((key, cand), ("base", repr(st.store.get((fr.fid, cand[0])))))
        for l, v in new_vals.items():
            st.store[(fr.fid, l)] = v
        s_none = st.clone()
        live = [cand for cand in self.cands[key] if (key, cand) not in self.failed]
        # of the surviving upper bounds of one leaf only the smallest is worth assuming (it implies the others)
        best = {}
        for cand in live:
            if cand[2] == "le":
                k2 = (cand[0], cand[1])
                if k2 not in best or cand[3] < best[k2]:
                    best[k2] = cand[3]
        for cand in live:
            if cand[2] == "le" and best[(cand[0], cand[1])] != cand[3]:
                continue
            if not (cand[2] == "le" and self.phase == "infer"):
                # (during inference no upper bound is assumed inside the body: see le_inductive)
                self.assume_cand(st, fr, cand, new_vals)
            if cand[2] not in ("le_item",):
                self.assume_cand(s_none, fr, cand, new_vals)
        st.facts_extra[site] = True
        s_none.facts_extra[site] = True
        st.facts_extra[("hvleaflins", fr.fid, fr.bb)] = {(l, path): leaf.lin for l, v in new_vals.items() for path, leaf in leaves(v)}
        st.facts_extra[("hvleaves", fr.fid, fr.bb)] = {(l, path): leaf.lin.key() for l, v in new_vals.items() for path, leaf in leaves(v)}
        out = []
        s_none.trace.append(("loop-exit", key))
        out.append((s_none, eng.mk_option(dest_tid, None)))
        if item_info is not None:
            idx, ch = item.fs
            # a char boundary strictly inside the string; the character's encoded length fits before the end
            eng.add_cons(st, [(idx.lin - sstr.len + 1, "<=")])
            st.facts_extra[("charlen", ch.lin.key())] = (idx.lin, sstr.len, sstr)
            from .strmodels import add_boundary
            add_boundary(st, sstr, idx.lin)
        st.trace.append(("loop-iter", key))
        out.append((st, eng.mk_option(dest_tid, item)))
        return out

    def is_driver(self, fn, bb, t):
        """The `next` call drives a loop iff it lies on a CFG cycle and its iterator was created outside that cycle."""
        ck = (fn["key"], bb)
        if ck in self.known_loops:
            return self.known_loops[ck]
        blocks = loop_blocks(fn, bb)
        res = False
        if len(blocks) > 1 or bb in cfg.succs(fn, bb):
            p = cfg.operand_place(t["args"][0])
            base = p["l"] if p is not None else None
            # follow `_x = &mut _y`
            for _ in range(6):
                nxt = None
                for bi, si, s in cfg.stmts(fn):
                    if s["k"] == "a" and s["p"]["l"] == base and not s["p"]["pj"] and s["r"]["op"] == "ref" and s["r"]["p"]["pj"] in ([], ["deref"]):
                        nxt = s["r"]["p"]["l"]
                    elif s["k"] == "a" and s["p"]["l"] == base and not s["p"]["pj"] and s["r"]["op"] == "use" and cfg.operand_place(s["r"]["x"]) and \
                            not cfg.operand_place(s["r"]["x"])["pj"] and bi not in blocks:
                        pass
                if nxt is None:
                    break
                base = nxt
            defs = set()
            for bi, si, s in cfg.stmts(fn):
                if s["k"] == "a" and s["p"]["l"] == base and not s["p"]["pj"]:
                    defs.add(bi)
            for bi, tt in cfg.calls(fn):
                if tt["dest"]["l"] == base and not tt["dest"]["pj"]:
                    defs.add(bi)
            res = bool(defs) and not (defs & blocks)
            if res:
                self.iter_base[ck] = base
        self.known_loops[ck] = res
        return res

    def surviving(self):
        return {k: sorted(c for c in v if (k, c) not in self.failed) for k, v in self.cands.items()}


def m_char_indices(eng, st, c, args, dest_tid, t):
    return [(st, IterV("charidx", a=args[0]))]


def m_len_utf8(eng, st, c, args, dest_tid, t):
    ch = args[0]
    name = "len_utf8(%r)" % (ch.lin,) if isinstance(ch, Int) else "len_utf8(?)"
    a = eng.atom(name, 1, 4)
    if isinstance(ch, Int):
        info = st.facts_extra.get(("charlen", ch.lin.key()))
        if info is not None:
            idx, ln, s = info
            eng.add_cons(st, [(idx + Lin.atom(a) - ln, "<=")])
            if s.sym is not None:
                from .strmodels import add_boundary
                add_boundary(st, s, idx + Lin.atom(a))
    return [(st, Int(Lin.atom(a), dest_tid))]
