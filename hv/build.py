"""Fact-base construction: runs the hifi-facts driver over /repo's *current working tree*
(cargo +nightly check with RUSTC_WORKSPACE_WRAPPER on a fresh target dir) and caches the
JSON under /verif/.cache keyed by a content hash of everything the build reads."""
import fcntl
import hashlib
import os
import shutil
import subprocess
import sys
import tempfile
import time

VERIF = os.path.dirname(os.path.dirname(os.path.abspath(__file__)))
REPO = os.environ.get("HIFI_REPO", "/repo")
CACHE = os.path.join(VERIF, ".cache")
DRIVER = os.path.join(VERIF, "driver", "target", "release", "hifi-facts")

CONFIGS = {
    # the configuration the test-suite builds: default features, debug assertions + overflow checks on
    "debug": "-Zmir-opt-level=0 -Awarnings",
    # release semantics: arithmetic wraps silently
    "release": "-Zmir-opt-level=0 -Awarnings -C overflow-checks=off -C debug-assertions=off",
}


def tree_hash(repo=None):
    repo = repo or REPO
    h = hashlib.sha256()
    paths = []
    for root in ("src", "data"):
        for dp, dn, fn in os.walk(os.path.join(repo, root)):
            dn.sort()
            for f in sorted(fn):
                paths.append(os.path.join(dp, f))
    for f in ("Cargo.toml", "Cargo.lock", "naif0012.txt", "build.rs"):
        p = os.path.join(repo, f)
        if os.path.exists(p):
            paths.append(p)
    for p in paths:
        h.update(os.path.relpath(p, repo).encode())
        h.update(b"\0")
        with open(p, "rb") as fh:
            h.update(fh.read())
        h.update(b"\0")
    return h.hexdigest()


def driver_hash():
    h = hashlib.sha256()
    with open(DRIVER, "rb") as fh:
        h.update(fh.read())
    return h.hexdigest()[:16]


def ensure_driver():
    if not os.path.exists(DRIVER):
        subprocess.check_call([os.path.join(VERIF, "bin", "setup.sh")])


def sysroot():
    return subprocess.check_output(["rustc", "+nightly", "--print", "sysroot"], text=True).strip()


def facts_path(config="debug", repo=None):
    """Return the path of an up-to-date fact file for the current tree (building it if needed)."""
    repo = repo or REPO
    ensure_driver()
    os.makedirs(CACHE, exist_ok=True)
    key = hashlib.sha256((tree_hash(repo) + driver_hash() + CONFIGS[config]).encode()).hexdigest()[:24]
    out = os.path.join(CACHE, "facts-%s-%s.json" % (config, key))
    if os.path.exists(out):
        try:
            os.utime(out)  # in use: keeps it out of reach of the eviction below
        except OSError:
            pass
        return out
    lock = open(os.path.join(CACHE, "lock-%s" % key), "w")
    fcntl.flock(lock, fcntl.LOCK_EX)
    try:
        if os.path.exists(out):
            return out
        tmp = tempfile.mkdtemp(prefix="hifi-facts-")
        try:
            env = dict(os.environ)
            env["LD_LIBRARY_PATH"] = sysroot() + "/lib:" + env.get("LD_LIBRARY_PATH", "")
            env["RUSTFLAGS"] = CONFIGS[config]
            env["RUSTC_WORKSPACE_WRAPPER"] = DRIVER
            env["CARGO_TARGET_DIR"] = os.path.join(tmp, "target")
            env["HIFI_FACTS_OUT"] = os.path.join(tmp, "facts.json")
            env["CARGO_NET_OFFLINE"] = "true"
            t0 = time.time()
            p = subprocess.run(
                ["cargo", "+nightly", "check", "--offline", "--lib", "--quiet"],
                cwd=repo,
                env=env,
                stdout=subprocess.PIPE,
                stderr=subprocess.STDOUT,
                text=True,
            )
            if p.returncode != 0 or not os.path.exists(env["HIFI_FACTS_OUT"]):
                sys.stderr.write(p.stdout[-8000:])
                raise BuildFailed("fact extraction failed (cargo exit %d); the tree does not build" % p.returncode)
            shutil.move(env["HIFI_FACTS_OUT"], out + ".tmp")
            os.rename(out + ".tmp", out)
            sys.stderr.write("[facts] %s built in %.1fs\n" % (config, time.time() - t0))
        finally:
            shutil.rmtree(tmp, ignore_errors=True)
        # keep the cache small: drop fact files older than the 12 newest
        files = sorted(
            (os.path.join(CACHE, f) for f in os.listdir(CACHE) if f.startswith("facts-")),
            key=os.path.getmtime,
        )
        for f in files[:-12]:
            try:
                if time.time() - os.path.getmtime(f) < 3600:
                    continue  # possibly still being read by a check that runs concurrently (worker pools re-open the file)
                os.remove(f)
            except OSError:
                pass
        return out
    finally:
        fcntl.flock(lock, fcntl.LOCK_UN)
        lock.close()
        try:
            os.remove(os.path.join(CACHE, "lock-%s" % key))
        except OSError:
            pass


class BuildFailed(Exception):
    pass


if __name__ == "__main__":
    print(facts_path(sys.argv[1] if len(sys.argv) > 1 else "debug"))
