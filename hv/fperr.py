"""Static rounding-error and monotonicity analysis of a float expression tree (the Flt terms hv.sym builds for a path).

The tree is the straight-line float computation of one path: leaves are doubles ("c", x) and integer->double conversions
("i2f", key, Lin) of linear integer forms over the path's atoms; inner nodes are IEEE-754 binary64 +, -, *, / (round to
nearest even) and negation.  Nothing is executed: every node is given

  * its exact real value as a linear form with rational coefficients over the atoms (one factor of every product / the
    divisor of every quotient must be a constant - otherwise the tree is rejected as not analysable),
  * an interval for that value from the path condition (exact Fourier-Motzkin of hv.lin),
  * an error bound  |computed - real| <= alpha*|real| + beta  from the standard model fl(x op y) = (x op y)(1+d), |d| <= u =
    2^-53, plus 2^-1074 for a product/quotient that may underflow; a node whose operands are exact integer-valued doubles and
    whose result stays below 2^53 is exact (alpha = beta = 0); an overflowing node is rejected,
  * for the monotonicity argument, an interval for its *computed* forward difference over one unit step of the input
    (`delta`): exact for exact nodes, the real difference +- 2u*max|node| for rounded ones, and never below 0 when the
    node's pre-rounding difference is >= 0 (rounding is monotone).

Everything is Fractions: the verdicts do not depend on host float arithmetic, except `ceval`, which folds a tree whose
leaves are all constants (used for the finitely many region end points) with Python floats = IEEE binary64, the same
arithmetic constant folding uses.
"""
from fractions import Fraction as Q
import math
from .lin import Lin, bounds, INF, Infeasible

U = Q(1, 2 ** 53)
ETA = Q(1, 2 ** 1074)
F64_MAX = Q(int(1.7976931348623157e308))
TWO53 = 2 ** 53


class NotAnalysable(Exception):
    pass


class RL:
    """rational linear form  sum c[a]*a + k"""
    __slots__ = ("c", "k")

    def __init__(self, c=None, k=0):
        self.c = {a: Q(v) for a, v in (c or {}).items() if v != 0}
        self.k = Q(k)

    @staticmethod
    def of_lin(l):
        return RL(l.c, l.k)

    def __add__(self, o):
        c = dict(self.c)
        for a, v in o.c.items():
            c[a] = c.get(a, 0) + v
        return RL(c, self.k + o.k)

    def scale(self, m):
        return RL({a: v * m for a, v in self.c.items()}, self.k * m)

    def __neg__(self):
        return self.scale(-1)

    def __sub__(self, o):
        return self + (-o)

    def is_const(self):
        return not self.c

    def is_integral(self):
        return self.k.denominator == 1 and all(v.denominator == 1 for v in self.c.values())

    def __repr__(self):
        return " + ".join(["%s*%s" % (v, a) for a, v in sorted(self.c.items(), key=lambda x: x[0].id)] + [str(self.k)])


def rl_bounds(rl, cons, bnd):
    """exact (lo, hi) of a rational linear form under integer constraints"""
    if rl.is_const():
        return rl.k, rl.k
    den = rl.k.denominator
    for v in rl.c.values():
        den = den * v.denominator // math.gcd(den, v.denominator)
    l = Lin({a: int(v * den) for a, v in rl.c.items()}, int(rl.k * den))
    lo, hi = bounds(l, cons, bnd)
    if lo == -INF or hi == INF:
        raise NotAnalysable("unbounded operand %r" % (rl,))
    return Q(lo, den), Q(hi, den)


class Node:
    __slots__ = ("rl", "lo", "hi", "alpha", "beta", "intval", "t")

    @property
    def exact(self):
        return self.alpha == 0 and self.beta == 0

    @property
    def mag(self):
        return max(abs(self.lo), abs(self.hi))

    @property
    def cmag(self):
        """bound on |computed value|"""
        return self.mag * (1 + self.alpha) + self.beta


def _mk(t, rl, lo, hi, alpha, beta, intval):
    n = Node()
    n.t, n.rl, n.lo, n.hi, n.alpha, n.beta, n.intval = t, rl, lo, hi, Q(alpha), Q(beta), intval
    if n.cmag > F64_MAX:
        raise NotAnalysable("node may overflow: %r" % (t,))
    return n


def analyse(t, cons, bnd, memo=None):
    """-> Node for tree t under the path condition (cons, bnd)."""
    if memo is None:
        memo = {}
    if id(t) in memo:
        return memo[id(t)]
    k = t[0]
    if k == "c":
        x = t[1]
        if not isinstance(x, float) or not math.isfinite(x):
            raise NotAnalysable("non-finite constant %r" % (x,))
        q = Q(x)
        n = _mk(t, RL({}, q), q, q, 0, 0, q.denominator == 1 and abs(q) <= TWO53)
    elif k == "i2f":
        rl = RL.of_lin(t[2])
        lo, hi = rl_bounds(rl, cons, bnd)
        if max(abs(lo), abs(hi)) <= TWO53:
            n = _mk(t, rl, lo, hi, 0, 0, True)
        else:
            n = _mk(t, rl, lo, hi, U, 0, False)
    elif k == "op1" and t[1] == "neg":
        a = analyse(t[2], cons, bnd, memo)
        n = _mk(t, -a.rl, -a.hi, -a.lo, a.alpha, a.beta, a.intval)
    elif k == "op" and t[1] in ("Add", "Sub"):
        a, b = analyse(t[2], cons, bnd, memo), analyse(t[3], cons, bnd, memo)
        rl = a.rl + b.rl if t[1] == "Add" else a.rl - b.rl
        lo, hi = rl_bounds(rl, cons, bnd)
        if a.exact and b.exact and a.intval and b.intval and max(abs(lo), abs(hi)) <= TWO53:
            n = _mk(t, rl, lo, hi, 0, 0, True)
        else:
            inh = a.alpha * a.mag + a.beta + b.alpha * b.mag + b.beta
            n = _mk(t, rl, lo, hi, U, inh * (1 + U), False)
    elif k == "op" and t[1] in ("Mul", "Div"):
        a, b = analyse(t[2], cons, bnd, memo), analyse(t[3], cons, bnd, memo)
        if t[1] == "Div":
            if not b.rl.is_const() or b.rl.k == 0 or not b.exact:
                raise NotAnalysable("division by a non-constant: %r" % (t[3],))
            c = b.rl.k
            rl = a.rl.scale(1 / c)
            lo, hi = sorted((a.lo / c, a.hi / c))
            n = _mk(t, rl, lo, hi, a.alpha * (1 + U) + U, a.beta / abs(c) * (1 + U) + ETA, False)
        else:
            if b.rl.is_const():
                v, cst = a, b
            elif a.rl.is_const():
                v, cst = b, a
            else:
                raise NotAnalysable("product of two non-constants: %r" % (t,))
            c = cst.rl.k
            rl = v.rl.scale(c)
            lo, hi = sorted((v.lo * c, v.hi * c))
            if v.exact and cst.exact and v.intval and cst.intval and max(abs(lo), abs(hi)) <= TWO53:
                n = _mk(t, rl, lo, hi, 0, 0, True)
            else:
                al = v.alpha + cst.alpha + v.alpha * cst.alpha
                be = v.beta * abs(c) * (1 + cst.alpha) + cst.beta * v.mag * (1 + v.alpha) + v.beta * cst.beta
                n = _mk(t, rl, lo, hi, al * (1 + U) + U, be * (1 + U) + ETA, False)
    else:
        raise NotAnalysable("unsupported float node %r" % (t[:2],))
    memo[id(t)] = n
    return n


def delta(t, memo, step, cons, bnd, dmemo=None):
    """Interval (lo, hi) of computed(t at d+1) - computed(t at d) for a unit step described by `step`: {atom: exact change}.
    `memo` is the analyse() memo of the same tree (node magnitudes)."""
    if dmemo is None:
        dmemo = {}
    if id(t) in dmemo:
        return dmemo[id(t)]
    n = memo[id(t)]
    k = t[0]

    def rounded(pre_lo, pre_hi):
        if n.exact:
            return pre_lo, pre_hi
        slack = 2 * U * n.cmag + 2 * ETA
        lo, hi = pre_lo - slack, pre_hi + slack
        if pre_lo >= 0:
            lo = max(lo, Q(0))
        if pre_hi <= 0:
            hi = min(hi, Q(0))
        return lo, hi

    if k == "c":
        r = (Q(0), Q(0))
    elif k == "i2f":
        d = Q(0)
        for a, v in n.rl.c.items():
            if a not in step:
                raise NotAnalysable("the step does not say how %r changes" % (a,))
            d += v * step[a]
        r = rounded(d, d)
    elif k == "op1":
        lo, hi = delta(t[2], memo, step, cons, bnd, dmemo)
        r = (-hi, -lo)
    elif t[1] in ("Add", "Sub"):
        alo, ahi = delta(t[2], memo, step, cons, bnd, dmemo)
        blo, bhi = delta(t[3], memo, step, cons, bnd, dmemo)
        if t[1] == "Sub":
            blo, bhi = -bhi, -blo
        r = rounded(alo + blo, ahi + bhi)
    else:
        a, b = memo[id(t[2])], memo[id(t[3])]
        if t[1] == "Div" or b.rl.is_const():
            v, c = t[2], (b.rl.k if t[1] == "Mul" else 1 / b.rl.k)
        else:
            v, c = t[3], a.rl.k
        lo, hi = delta(v, memo, step, cons, bnd, dmemo)
        lo, hi = sorted((lo * c, hi * c))
        r = rounded(lo, hi)
    dmemo[id(t)] = r
    return r


def ceval(t, env):
    """fold a tree at a concrete point (env: atom -> int) in IEEE binary64"""
    k = t[0]
    if k == "c":
        return t[1]
    if k == "i2f":
        l = t[2]
        return float(l.k + sum(v * env[a] for a, v in l.c.items()))
    if k == "op1" and t[1] == "neg":
        return -ceval(t[2], env)
    if k == "op":
        x, y = ceval(t[2], env), ceval(t[3], env)
        if t[1] == "Add":
            return x + y
        if t[1] == "Sub":
            return x - y
        if t[1] == "Mul":
            return x * y
        if t[1] == "Div" and y != 0.0:
            return x / y
    raise NotAnalysable("unsupported float node %r" % (t[:2],))


# ---------------------------------------------------------------------------------------------------------------------
# Non-linear trees (sin): value interval, absolute rounding error and Lipschitz constant w.r.t. the float input leaves.

SIN_EPS = Q(1, 2 ** 50)  # assumed absolute accuracy of the platform's sin() on the analysed range (|sin| <= 1: 4 ulps of 1)


class IV:
    __slots__ = ("lo", "hi", "err", "lip")

    def __init__(self, lo, hi, err, lip):
        self.lo, self.hi, self.err, self.lip = Q(lo), Q(hi), Q(err), Q(lip)

    @property
    def mag(self):
        return max(abs(self.lo), abs(self.hi))

    @property
    def cmag(self):
        return self.mag + self.err


def analyse_iv(t, leaf, memo=None):
    """t: float tree whose non-constant leaves are ("sym", name) inputs; leaf: name -> (lo, hi) (an exact input double in that range).
    -> IV(value interval of the real function, bound on |computed - real|, bound on |d real / d input|)."""
    if memo is None:
        memo = {}
    if id(t) in memo:
        return memo[id(t)]
    k = t[0]
    if k == "c":
        if not isinstance(t[1], float) or not math.isfinite(t[1]):
            raise NotAnalysable("non-finite constant %r" % (t[1],))
        r = IV(Q(t[1]), Q(t[1]), 0, 0)
    elif k == "sym":
        if t[1] not in leaf:
            raise NotAnalysable("no range for the input %r" % (t[1],))
        r = IV(leaf[t[1]][0], leaf[t[1]][1], 0, 1)
    elif k == "op1" and t[1] == "neg":
        a = analyse_iv(t[2], leaf, memo)
        r = IV(-a.hi, -a.lo, a.err, a.lip)
    elif k == "op1" and t[1] in ("sin", "cos"):
        a = analyse_iv(t[2], leaf, memo)
        r = IV(-1, 1, a.err + SIN_EPS, a.lip)
    elif k == "op" and t[1] in ("Add", "Sub"):
        a, b = analyse_iv(t[2], leaf, memo), analyse_iv(t[3], leaf, memo)
        lo, hi = (a.lo + b.lo, a.hi + b.hi) if t[1] == "Add" else (a.lo - b.hi, a.hi - b.lo)
        inh = a.err + b.err
        r = IV(lo, hi, inh + U * (max(abs(lo), abs(hi)) + inh), a.lip + b.lip)
    elif k == "op" and t[1] == "Mul":
        a, b = analyse_iv(t[2], leaf, memo), analyse_iv(t[3], leaf, memo)
        ps = [x * y for x in (a.lo, a.hi) for y in (b.lo, b.hi)]
        lo, hi = min(ps), max(ps)
        inh = a.mag * b.err + b.mag * a.err + a.err * b.err
        r = IV(lo, hi, inh + U * (max(abs(lo), abs(hi)) + inh) + ETA, a.lip * b.mag + b.lip * a.mag)
    else:
        raise NotAnalysable("unsupported float node %r" % (t[:2],))
    if r.cmag > F64_MAX:
        raise NotAnalysable("node may overflow: %r" % (t[:2],))
    memo[id(t)] = r
    return r
