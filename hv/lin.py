"""Linear integer forms, constraints and an exact Fourier-Motzkin decision procedure.

All atoms range over the integers.  A Lin is  sum(coef[a] * a) + const  with int coefficients.
A constraint is (Lin, op) meaning  Lin op 0  with op in {"<=", "==", "!="}.
Reasoning is over the rationals with integer tightening (gcd normalisation + rounding), so
 * `feasible() == False` is a proof of infeasibility (sound),
 * bounds returned by `bounds()` are valid (possibly not tight).
"""
from math import gcd
from functools import reduce

INF = float("inf")


class Atom:
    __slots__ = ("id", "name", "lo", "hi", "kind", "defn", "ty")
    _n = 0

    def __init__(self, name, lo=-INF, hi=INF, kind="sym", defn=None, ty=None):
        Atom._n += 1
        self.id = Atom._n
        self.name = name
        self.lo = lo
        self.hi = hi
        self.kind = kind
        self.defn = defn
        self.ty = ty

    def __repr__(self):
        return self.name

    def __lt__(self, o):
        return self.id < o.id


class Lin:
    __slots__ = ("c", "k", "_h")

    def __init__(self, c=None, k=0):
        self.c = {a: v for a, v in (c or {}).items() if v != 0}
        self.k = k
        self._h = None

    @staticmethod
    def const(k):
        return Lin({}, k)

    @staticmethod
    def atom(a):
        return Lin({a: 1}, 0)

    def is_const(self):
        return not self.c

    def atoms(self):
        return self.c.keys()

    def __add__(self, o):
        if isinstance(o, int):
            return Lin(self.c, self.k + o)
        c = dict(self.c)
        for a, v in o.c.items():
            c[a] = c.get(a, 0) + v
        return Lin(c, self.k + o.k)

    def __neg__(self):
        return Lin({a: -v for a, v in self.c.items()}, -self.k)

    def __sub__(self, o):
        if isinstance(o, int):
            return Lin(self.c, self.k - o)
        return self + (-o)

    def scale(self, m):
        return Lin({a: v * m for a, v in self.c.items()}, self.k * m)

    def key(self):
        if self._h is None:
            self._h = (tuple(sorted((a.id, v) for a, v in self.c.items())), self.k)
        return self._h

    def __eq__(self, o):
        return isinstance(o, Lin) and self.key() == o.key()

    def __hash__(self):
        return hash(self.key())

    def subst(self, m):
        """m: Atom -> Lin"""
        r = Lin({}, self.k)
        for a, v in self.c.items():
            if a in m:
                r = r + m[a].scale(v)
            else:
                r = r + Lin({a: v})
        return r

    def __repr__(self):
        parts = []
        for a, v in sorted(self.c.items(), key=lambda x: x[0].id):
            if v == 1:
                parts.append("+%s" % a.name)
            elif v == -1:
                parts.append("-%s" % a.name)
            else:
                parts.append("%+d*%s" % (v, a.name))
        if self.k or not parts:
            parts.append("%+d" % self.k)
        s = "".join(parts)
        return s[1:] if s.startswith("+") else s


def interval(lin, bnd=None):
    """Interval of a Lin from atom bounds (bnd overrides Atom.lo/hi)."""
    lo = hi = lin.k
    for a, v in lin.c.items():
        alo, ahi = (bnd.get(a, (a.lo, a.hi)) if bnd else (a.lo, a.hi))
        if v > 0:
            lo += v * alo if alo != -INF else -INF
            hi += v * ahi if ahi != INF else INF
        else:
            lo += v * ahi if ahi != INF else -INF
            hi += v * alo if alo != -INF else INF
    return lo, hi


# --------------------------------------------------------------------------------------
# Fourier-Motzkin


def _norm(c, k):
    """Normalise  sum c*x + k <= 0  with integer tightening.  Returns (tuple-key, c, k)."""
    if not c:
        return c, k
    g = reduce(gcd, (abs(v) for v in c.values()))
    if g > 1:
        c = {a: v // g for a, v in c.items()}
        # sum (c/g) x <= -k/g  -> floor
        k = -((-k) // g)
    return c, k


class Infeasible(Exception):
    pass


MAX_CONS = 4000


def _prep(cons, bnd=None, extra_atoms=()):
    """Split into equalities / inequalities / disequalities; add atom bounds."""
    eqs, les, nes = [], [], []
    atoms = set(extra_atoms)
    for lin, op in cons:
        atoms.update(lin.c.keys())
        if op == "==":
            eqs.append((dict(lin.c), lin.k))
        elif op == "<=":
            les.append((dict(lin.c), lin.k))
        elif op == "!=":
            nes.append(lin)
        else:
            raise ValueError(op)
    for a in atoms:
        lo, hi = (bnd.get(a, (a.lo, a.hi)) if bnd else (a.lo, a.hi))
        if lo != -INF:
            les.append(({a: -1}, lo))
        if hi != INF:
            les.append(({a: 1}, -hi))
    return eqs, les, nes, atoms


def _fm(eqs, les, keep=()):
    """Eliminate every atom not in `keep`.  Returns remaining inequalities over `keep`.
    Raises Infeasible.  Returns None when the size limit is hit (unknown)."""
    keep = set(keep)
    # 1. equalities: Gaussian elimination (prefer unit coefficients)
    eqs = [(dict(c), k) for c, k in eqs]
    les = [(dict(c), k) for c, k in les]
    while eqs:
        c, k = eqs.pop()
        c = {a: v for a, v in c.items() if v != 0}
        if not c:
            if k != 0:
                raise Infeasible()
            continue
        g = reduce(gcd, (abs(v) for v in c.values()))
        if k % g != 0:
            raise Infeasible()  # no integer solution
        if g > 1:
            c = {a: v // g for a, v in c.items()}
            k //= g
        cand = [a for a in c if a not in keep]
        if not cand:
            # equality purely over kept atoms -> two inequalities
            les.append((dict(c), k))
            les.append(({a: -v for a, v in c.items()}, -k))
            continue
        x = min(cand, key=lambda a: (abs(c[a]) != 1, abs(c[a]), a.id))
        ax = c[x]

        def sub(c2, k2):
            v = c2.get(x, 0)
            if v == 0:
                return c2, k2
            # |ax| * C2 - v*sign(ax) * E
            s = 1 if ax > 0 else -1
            m = abs(ax)
            nc = {}
            for a, w in c2.items():
                nc[a] = w * m
            for a, w in c.items():
                nc[a] = nc.get(a, 0) - v * s * w
            nk = k2 * m - v * s * k
            nc = {a: w for a, w in nc.items() if w != 0}
            return nc, nk

        eqs = [sub(c2, k2) for c2, k2 in eqs]
        les = [sub(c2, k2) for c2, k2 in les]
    # 2. inequalities
    cur = {}

    def add(c, k):
        c = {a: v for a, v in c.items() if v != 0}
        if not c:
            if k > 0:
                raise Infeasible()
            return
        c, k = _norm(c, k)
        key = tuple(sorted((a.id, v) for a, v in c.items()))
        old = cur.get(key)
        if old is None or k > old[1]:
            cur[key] = (c, k)

    for c, k in les:
        add(c, k)
    while True:
        atoms = set()
        for c, _ in cur.values():
            atoms.update(c.keys())
        atoms -= keep
        if not atoms:
            break
        # choose atom minimising pos*neg
        best = None
        for x in atoms:
            p = n = 0
            for c, _ in cur.values():
                v = c.get(x, 0)
                if v > 0:
                    p += 1
                elif v < 0:
                    n += 1
            score = p * n - p - n
            if best is None or score < best[0]:
                best = (score, x)
        x = best[1]
        pos, neg, rest = [], [], []
        for c, k in cur.values():
            v = c.get(x, 0)
            if v > 0:
                pos.append((c, k, v))
            elif v < 0:
                neg.append((c, k, -v))
            else:
                rest.append((c, k))
        if len(pos) * len(neg) + len(rest) > MAX_CONS:
            return None
        cur = {}
        for c, k in rest:
            add(c, k)
        for cp, kp, vp in pos:
            for cn, kn, vn in neg:
                nc = {}
                for a, w in cp.items():
                    if a is not x:
                        nc[a] = w * vn
                for a, w in cn.items():
                    if a is not x:
                        nc[a] = nc.get(a, 0) + w * vp
                add(nc, kp * vn + kn * vp)
    return list(cur.values())


def _relevant(cons, seed_atoms):
    """Cone of influence: constraints transitively sharing atoms with the seed."""
    seed = set(seed_atoms)
    cons = list(cons)
    used = [False] * len(cons)
    changed = True
    out = []
    while changed:
        changed = False
        for i, (lin, op) in enumerate(cons):
            if used[i]:
                continue
            if not lin.c or any(a in seed for a in lin.c):
                used[i] = True
                out.append((lin, op))
                n0 = len(seed)
                seed.update(lin.c.keys())
                if len(seed) != n0:
                    changed = True
                else:
                    changed = changed or False
    return out


def feasible(cons, bnd=None):
    """False = proved infeasible.  True = not refuted (feasible over Q, or unknown)."""
    cons = list(cons)
    # quick: constant constraints
    for lin, op in cons:
        if not lin.c:
            if (op == "<=" and lin.k > 0) or (op == "==" and lin.k != 0) or (op == "!=" and lin.k == 0):
                return False
    # single-atom disequalities tighten the atom's interval (x in [0,1], x != 0, x != 1 is empty)
    excl = {}
    for lin, op in cons:
        if op == "!=" and len(lin.c) == 1:
            (a, v), = lin.c.items()
            if (-lin.k) % v == 0:
                excl.setdefault(a, set()).add((-lin.k) // v)
    if excl:
        bnd = dict(bnd) if bnd else {}
        for a, vals in excl.items():
            lo, hi = bnd.get(a, (a.lo, a.hi))
            # also use single-atom <= / == constraints for this atom
            for lin, op in cons:
                if len(lin.c) == 1 and a in lin.c and op in ("<=", "=="):
                    v = lin.c[a]
                    if op == "<=":
                        if v > 0:
                            hi = min(hi, (-lin.k) // v)
                        else:
                            lo = max(lo, -((-lin.k) // (-v)))
                    elif (-lin.k) % v == 0:
                        lo = max(lo, (-lin.k) // v)
                        hi = min(hi, (-lin.k) // v)
            while lo in vals and lo <= hi:
                lo += 1
            while hi in vals and lo <= hi:
                hi -= 1
            if lo > hi:
                return False
            bnd[a] = (lo, hi)
    # partition into connected components to keep FM small
    comps = _components(cons)
    for comp in comps:
        eqs, les, nes, atoms = _prep(comp, bnd)
        try:
            r = _fm(eqs, les)
        except Infeasible:
            return False
        if r is None:
            continue
        for ne in nes:
            if len(ne.c) == 1:
                continue  # single-atom disequalities were handled exactly by the interval tightening above
            # lin != 0 is violated iff lin == 0 is forced
            try:
                lo, hi = bounds(ne, [c for c in comp if c[1] != "!="], bnd)
            except Infeasible:
                return False
            if lo == 0 and hi == 0:
                return False
    return True


def _components(cons):
    parent = {}

    def find(a):
        while parent.get(a, a) is not a:
            parent[a] = parent.get(parent[a], parent[a])
            a = parent[a]
        return a

    for lin, _ in cons:
        atoms = list(lin.c.keys())
        for a in atoms:
            parent.setdefault(a, a)
        for a in atoms[1:]:
            ra, rb = find(atoms[0]), find(a)
            if ra is not rb:
                parent[ra] = rb
    groups = {}
    consts = []
    for c in cons:
        atoms = list(c[0].c.keys())
        if not atoms:
            consts.append(c)
            continue
        groups.setdefault(find(atoms[0]).id, []).append(c)
    out = list(groups.values())
    if consts:
        out.append(consts)
    return out


def bounds(lin, cons, bnd=None):
    """(lo, hi) of lin under the constraints (disequalities ignored).  Raises Infeasible."""
    if not lin.c:
        return lin.k, lin.k
    cons = _relevant([c for c in cons if c[1] != "!="], lin.c.keys())
    t = Atom("$t")
    eq = (Lin(dict(lin.c), lin.k) - Lin.atom(t), "==")
    eqs, les, nes, atoms = _prep(cons + [eq], bnd, extra_atoms=lin.c.keys())
    r = _fm(eqs, les, keep=[t])
    if r is None:
        return interval(lin, bnd)
    lo, hi = -INF, INF
    for c, k in r:
        v = c.get(t, 0)
        if v > 0:
            # v*t + k <= 0  -> t <= -k/v
            ub = (-k) // v
            hi = min(hi, ub)
        elif v < 0:
            # -|v| t + k <= 0 -> t >= k/|v|
            lb = -((-k) // (-v))
            lo = max(lo, lb)
    if lo > hi:
        raise Infeasible()
    return lo, hi


def implies(cons, lin, op, bnd=None):
    """Does cons |= (lin op 0)?  (sound: True is a proof)"""
    try:
        if op == "<=":
            if lin.is_const():
                return lin.k <= 0
            lo, hi = interval(lin, bnd)
            if hi <= 0:
                return True
            # syntactic hit: the same form (or a stronger one differing by the constant) is a stated constraint
            k0 = (lin - lin.k).key()
            for l2, o2 in cons:
                if o2 in ("<=", "==") and (l2 - l2.k).key() == k0 and l2.k >= lin.k:
                    return True
            return not feasible(list(cons) + [(-lin + 1, "<=")], bnd)  # lin >= 1 infeasible
        if op == "==":
            return (not feasible(list(cons) + [(-lin + 1, "<=")], bnd)) and (
                not feasible(list(cons) + [(lin + 1, "<=")], bnd)
            )
        if op == "!=":
            return not feasible(list(cons) + [(lin, "==")], bnd)
    except Infeasible:
        return True
    raise ValueError(op)
