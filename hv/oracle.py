"""Independent oracles: civil-calendar arithmetic (days-from-civil, a different algorithm from the
repository's year loop), constants transcribed from the property statements, and parsers for the data
files shipped with the sources (data/leap-seconds.list, naif0012.txt)."""
import os
import re

NS = 10 ** 9
DAY_NS = 86400 * NS


def days_from_civil(y, m, d):
    """Days since 1970-01-01 of the proleptic Gregorian date (H. Hinnant's algorithm)."""
    y -= m <= 2
    era = (y if y >= 0 else y - 399) // 400
    yoe = y - era * 400
    doy = (153 * (m + (-3 if m > 2 else 9)) + 2) // 5 + d - 1
    doe = yoe * 365 + yoe // 4 - yoe // 100 + doy
    return era * 146097 + doe - 719468


def civil_from_days(z):
    z += 719468
    era = (z if z >= 0 else z - 146096) // 146097
    doe = z - era * 146097
    yoe = (doe - doe // 1460 + doe // 36524 - doe // 146096) // 365
    y = yoe + era * 400
    doy = doe - (365 * yoe + yoe // 4 - yoe // 100)
    mp = (5 * doy + 2) // 153
    d = doy - (153 * mp + 2) // 5 + 1
    m = mp + (3 if mp < 10 else -9)
    return (y + (m <= 2), m, d)


def days_since_1900(y, m, d):
    return days_from_civil(y, m, d) - days_from_civil(1900, 1, 1)


def is_leap(y):
    return (y % 4 == 0 and y % 100 != 0) or y % 400 == 0


def month_len(y, m):
    return [31, 29 if is_leap(y) else 28, 31, 30, 31, 30, 31, 31, 30, 31, 30, 31][m - 1]


# ---- constants from the property statements -------------------------------------------------------
UNIT_NS = {
    "Nanosecond": 1, "Microsecond": 10 ** 3, "Millisecond": 10 ** 6, "Second": NS, "Minute": 60 * NS,
    "Hour": 3600 * NS, "Day": DAY_NS, "Week": 7 * DAY_NS, "Century": 36525 * DAY_NS,
}

TT_MINUS_TAI_NS = 32_184_000_000  # 32.184 s
J2000_S_AFTER_1900 = 3_155_716_800  # 2000-01-01 12:00:00, seconds after 1900-01-01 00:00:00
MJD_1900 = 15_020  # MJD of 1900-01-01 00:00
JD_MINUS_MJD_HALF_DAYS = 4_800_001  # 2 400 000.5 days, in half days
UNIX_ZERO_DAYS = days_since_1900(1970, 1, 1)

# uniform scales: zero date (00:00:00 in the scale itself) and how far the scale runs behind TAI
UNIFORM = {
    "TAI": ((1900, 1, 1), 0),
    "TT": ((1900, 1, 1), -TT_MINUS_TAI_NS),  # TT runs 32.184 s *ahead* of TAI
    "GPST": ((1980, 1, 6), 19 * NS),
    "QZSST": ((1980, 1, 6), 19 * NS),
    "GST": ((1999, 8, 22), 19 * NS),
    "BDT": ((2006, 1, 1), 33 * NS),
}


def tai_offset_ns(scale):
    """A(S): TAI elapsed = S elapsed + A(S), for the uniform scales."""
    (y, m, d), behind = UNIFORM[scale]
    return days_since_1900(y, m, d) * DAY_NS + behind


def gregorian_zero_ns(scale):
    """Calendar reading of the scale's zero, as a duration after 1900-01-01 00:00:00 in the scale itself."""
    if scale in ("ET", "TDB"):
        return J2000_S_AFTER_1900 * NS
    if scale in UNIFORM:
        (y, m, d), _ = UNIFORM[scale]
        return days_since_1900(y, m, d) * DAY_NS
    return 0  # UTC counts from 1900-01-01 like TAI


# ---- data files -------------------------------------------------------------------------------------
def leap_seconds_list(repo):
    """[(ntp_seconds, tai_minus_utc)] from data/leap-seconds.list"""
    out = []
    p = os.path.join(repo, "data", "leap-seconds.list")
    with open(p) as f:
        for line in f:
            if not line.strip() or line.startswith("#"):
                continue
            parts = line.split()
            out.append((int(parts[0]), int(parts[1])))
    return out


_MONTHS = {"JAN": 1, "FEB": 2, "MAR": 3, "APR": 4, "MAY": 5, "JUN": 6, "JUL": 7, "AUG": 8, "SEP": 9, "OCT": 10, "NOV": 11, "DEC": 12}


def naif_kernel(repo):
    """{'K':..,'EB':..,'M':[m0,m1],'DELTA_T_A':.., 'DELTA_AT':[(dat,(y,m,d))...]} from naif0012.txt"""
    p = os.path.join(repo, "naif0012.txt")
    txt = open(p).read()
    data = "\n".join(re.findall(r"\\begindata(.*?)(?:\\begintext|\Z)", txt, re.S))
    out = {}

    def num(s):
        return float(s.replace("D", "E").replace("d", "e"))

    m = re.search(r"DELTET/DELTA_T_A\s*=\s*([-+0-9.DEde]+)", data)
    out["DELTA_T_A"] = num(m.group(1))
    m = re.search(r"DELTET/K\s*=\s*([-+0-9.DEde]+)", data)
    out["K"] = num(m.group(1))
    m = re.search(r"DELTET/EB\s*=\s*([-+0-9.DEde]+)", data)
    out["EB"] = num(m.group(1))
    m = re.search(r"DELTET/M\s*=\s*\(\s*([-+0-9.DEde]+)\s+([-+0-9.DEde]+)\s*\)", data)
    out["M"] = [num(m.group(1)), num(m.group(2))]
    m = re.search(r"DELTET/DELTA_AT\s*=\s*\((.*?)\)", data, re.S)
    pairs = re.findall(r"(\d+)\s*,\s*@(\d{4})-([A-Z]{3})-(\d+)", m.group(1))
    out["DELTA_AT"] = [(int(a), (int(y), _MONTHS[mo], int(d))) for a, y, mo, d in pairs]
    return out
