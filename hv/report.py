"""Obligations -> stdout lines, evidence/<id>.json, replays/, known-findings matching."""
import hashlib
import json
import os
import sys
import time

VERIF = os.path.dirname(os.path.dirname(os.path.abspath(__file__)))
KNOWN = os.path.join(VERIF, "known_findings.json")


def load_known():
    if not os.path.exists(KNOWN):
        return []
    with open(KNOWN) as f:
        return json.load(f)["findings"]


class Check:
    def __init__(self, pid, tier="quick", facts=None):
        self.pid = pid
        self.tier = tier
        self.t0 = time.time()
        self.obl = []  # dicts: rule, instance, construct, ok, method, detail
        self.infos = []
        self.floors = []
        self.samples = []
        self.notes = []
        self.known = [k for k in load_known() if k["property"] == pid]
        self.known_hit = {}
        self.violations = []
        self.errors = []
        self.facts = facts
        self.extra = {}
        self.assumptions = []
        self.trusted = [
            "rustc nightly type checking, MIR construction and constant evaluation (fact extractor /verif/driver)",
            "hv/models.py summaries of core/std primitives",
            "hv/lin.py exact Fourier-Motzkin elimination with integer tightening",
        ]

    # ---- obligations
    def ob(self, rule, instance, construct, ok, method="", detail=None, sample=False):
        """Record one obligation instance.  ok: True (discharged) / False (refuted or undischarged)."""
        o = {"rule": rule, "instance": instance, "construct": construct, "ok": bool(ok), "method": method}
        if detail is not None:
            o["detail"] = detail
        self.obl.append(o)
        if sample or (len(self.samples) < 12 and (len(self.samples) == 0 or self.samples[-1]["rule"] != rule)):
            self.samples.append({k: (v if k != "detail" else _short(v)) for k, v in o.items()})
        return bool(ok)

    def key(self, o):
        return "%s|%s|%s" % (o["rule"], o["instance"], o["construct"])

    def info(self, msg):
        self.infos.append(msg)

    def floor(self, rule, what, count, minimum):
        """Instance floors: a rule that matches fewer instances than counted by hand fails closed."""
        self.floors.append({"rule": rule, "what": what, "count": count, "floor": minimum})
        if count < minimum:
            self.errors.append("INSTANCE-FLOOR rule=%s %s: matched %d < floor %d" % (rule, what, count, minimum))

    def anchor_missing(self, msg):
        self.errors.append("ANCHOR-MISSING %s" % msg)

    def error(self, msg):
        self.errors.append(msg)

    # ---- finish
    def finish(self, level="other", explanation="", rule_text=""):
        failed = [o for o in self.obl if not o["ok"]]
        known_by_key = {k["key"]: k for k in self.known if k.get("status", "known") == "known"}
        fixed_keys = {k["key"] for k in self.known if k.get("status") == "fixed"}
        viol = []
        seen_known = {}
        for o in failed:
            k = self.key(o)
            if k in known_by_key:
                seen_known.setdefault(k, []).append(o)
            else:
                viol.append(o)
        OUT = VERIF
        if os.environ.get("HIFI_REPO") or os.environ.get("HIFI_CONFIG", "debug") != "debug":
            # a mutated scratch copy / another configuration is being analysed: never overwrite what was produced from /repo
            OUT = os.environ.get("VERIF_SCRATCH_OUT") or os.path.join(VERIF, ".cache", "scratch-out")
        os.makedirs(os.path.join(OUT, "replays"), exist_ok=True)
        os.makedirs(os.path.join(OUT, "evidence"), exist_ok=True)
        lines = []
        for k, os_ in seen_known.items():
            lines.append("KNOWN-FINDING: property=%s %s -- %s (%d obligation instance(s))" % (
                self.pid, k, known_by_key[k].get("what", ""), len(os_)))
        printed = set()
        for o in viol:
            k = self.key(o)
            if k in printed:
                continue
            printed.add(k)
            h = hashlib.sha256(k.encode()).hexdigest()[:12]
            rp = os.path.join(OUT, "replays", "%s-%s.json" % (self.pid, h))
            same = [x for x in viol if self.key(x) == k]
            with open(rp, "w") as f:
                json.dump({"property": self.pid, "key": k, "obligations": same[:20], "count": len(same),
                           "returned": k in fixed_keys}, f, indent=1, default=str)
            d = same[0].get("detail")
            lines.append("VIOLATION property=%s replay=%s" % (self.pid, rp))
            lines.append("  rule=%s instance=%s construct=%s%s" % (
                o["rule"], o["instance"], o["construct"], (" :: " + _short(d, 400)) if d else ""))
            if k in fixed_keys:
                lines.append("  (this violation was recorded as fixed in known_findings.json and has returned)")
        if self.errors:
            # fail closed: a missing anchor / floor is reported as a violation of the property
            rp = os.path.join(OUT, "replays", "%s-errors.json" % self.pid)
            with open(rp, "w") as f:
                json.dump({"property": self.pid, "errors": self.errors}, f, indent=1)
            lines.append("VIOLATION property=%s replay=%s" % (self.pid, rp))
            for e in self.errors:
                lines.append("  CHECK-ERROR %s" % e)
        n_ob = len(self.obl)
        n_ok = sum(1 for o in self.obl if o["ok"])
        by_rule = {}
        for o in self.obl:
            r = by_rule.setdefault(o["rule"], {"obligations": 0, "discharged": 0, "methods": {}})
            r["obligations"] += 1
            if o["ok"]:
                r["discharged"] += 1
                r["methods"][o["method"]] = r["methods"].get(o["method"], 0) + 1
        wall = time.time() - self.t0
        cov = {
            "obligations": n_ob,
            "discharged": n_ok,
            "checker_cmd": "bin/check %s%s" % (self.pid, " --tier thorough" if self.tier == "thorough" else ""),
            "trusted_base": self.trusted,
            "explanation": explanation,
            "rule": rule_text or "one obligation per (rule, function instance, construct / path partition); "
                                 "distinct = distinct (rule,instance,construct) keys",
            "evaluations": n_ob,
            "distinct_nontrivial": len({self.key(o) for o in self.obl}),
            "samples": self.samples[:24] or [{"note": "no obligations generated"}],
            "per_rule": by_rule,
            "instance_floors": self.floors,
            "known_findings_matched": sorted(seen_known.keys()),
            "undischarged_unknown": len(viol),
            "info": self.infos[:200],
            "configuration": (self.facts.config if self.facts is not None else None),
            "not_analysed": "features ut1/python (crates absent offline), cfg(kani) code, no_std build",
        }
        try:
            from .sym import COVERED
            extra_cov = set(self.extra.pop("_covered_in_workers", []))
            allc = sorted(COVERED | extra_cov)
            cov["functions_interpreted"] = {"count": len(allc), "keys": allc}
        except Exception:
            pass
        cov.update(self.extra)
        ev = {
            "property_id": self.pid,
            "tier": self.tier,
            "seed": int(os.environ.get("VERIF_SEED", "0") or 0),
            "level": level,
            "coverage": cov,
            "assumptions": self.assumptions,
            "wall_s": round(wall, 3),
            "violations": len(printed) + (1 if self.errors else 0),
        }
        with open(os.path.join(OUT, "evidence", "%s.json" % self.pid), "w") as f:
            json.dump(ev, f, indent=1, default=str)
        for r, v in sorted(by_rule.items()):
            print("[%s] %s: %d/%d obligations discharged" % (self.pid, r, v["discharged"], v["obligations"]))
        for fl in self.floors:
            print("[%s] floor %s %s: %d (>= %d)" % (self.pid, fl["rule"], fl["what"], fl["count"], fl["floor"]))
        for l in lines:
            print(l)
        print("[%s] %s tier: %d obligations, %d discharged, %d known finding key(s), %d violation key(s), %.1fs" % (
            self.pid, self.tier, n_ob, n_ok, len(seen_known), len(printed), wall))
        return 1 if (printed or self.errors) else 0


def _short(x, n=300):
    s = x if isinstance(x, str) else json.dumps(x, default=str)
    return s if len(s) <= n else s[: n - 3] + "..."
