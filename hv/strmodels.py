"""String models with panic semantics for the parser-totality analysis (C13).

A symbolic `&str` is any UTF-8 string: only its byte length is tracked, plus (a) a set of byte offsets known to be
character boundaries (0, len, indices yielded by char_indices and index + len_utf8 of the yielded char) and (b) the
first character as a symbolic char.  `str::get` is total; indexing a str or a byte slice panics unless both ends are
provably ordered, in range and (for str) known boundaries."""
from .lin import Lin, implies
from .sym import Int, Bool, Flt, Struct, Enum, SymEnum, Ref, Str, Arr, Opq, St, c_lin, c_and, DIVERGE
from .models import IterV, _str_of, _arr_of


def install(eng):
    M = eng.models
    M["core::str::<impl str>::get"] = m_str_get
    M["core::str::traits::<impl core::ops::Index<I> for str>::index"] = m_str_index
    M["core::slice::index::<impl core::ops::Index<I> for [T]>::index"] = m_slice_index_any
    M["core::str::<impl str>::as_bytes"] = m_as_bytes
    M["core::str::<impl str>::chars"] = m_chars
    M["core::iter::Iterator::nth"] = m_nth
    M["core::str::<impl str>::starts_with"] = m_opaque_bool
    M["<core::str::Chars<'a> as core::iter::Iterator>::next"] = m_chars_next
    M["<core::str::CharIndices<'a> as core::iter::Iterator>::next"] = m_charidx_first


def range_of(eng, st, r, s_len):
    """(start Lin, end Lin) of a Range / RangeFrom / RangeTo / RangeFull struct value"""
    if not isinstance(r, Struct):
        return None
    name = eng.types[r.tid]["path"] if r.tid is not None and eng.types[r.tid]["k"] == "adt" else ""
    fs = [f for f in r.fs]
    if name.endswith("ops::Range") and len(fs) == 2 and all(isinstance(f, Int) for f in fs):
        return fs[0].lin, fs[1].lin
    if name.endswith("ops::RangeFrom") and len(fs) == 1 and isinstance(fs[0], Int):
        return fs[0].lin, s_len
    if name.endswith("ops::RangeTo") and len(fs) == 1 and isinstance(fs[0], Int):
        return Lin.const(0), fs[0].lin
    if name.endswith("ops::RangeFull"):
        return Lin.const(0), s_len
    return None


def substr(eng, st, s, a, b):
    name = "sub(%s,%r,%r)" % (s.sym if s.sym is not None else repr(s.s), a, b)
    ln = eng.atom(name + ".len", 0, (1 << 63) - 1)
    eng.add_cons(st, [(Lin.atom(ln) - (b - a), "==")])
    return Ref(val=Str(sym=name, ln=Lin.atom(ln)))


def m_str_get(eng, st, c, args, dest_tid, t):
    s = _str_of(eng, st, args[0])
    if s is None:
        return NotImplemented
    rg = range_of(eng, st, args[1], s.len)
    if rg is None:
        return NotImplemented
    a, b = rg
    out = []
    s_none = st.clone()
    out.append((s_none, eng.mk_option(dest_tid, None)))
    ok = c_and(c_lin("le", a - b), c_and(c_lin("le", b - s.len), c_lin("ge", a)))
    for s2 in eng.assume(st, ok):
        out.append((s2, eng.mk_option(dest_tid, substr(eng, s2, s, a, b))))
    return out


def boundary_known(eng, st, s, x):
    if x.is_const() and x.k == 0:
        return True
    tags = st.facts_extra.get(("boundary", s.sym), ())
    xk = x.key()
    if xk == s.len.key() or any(k == xk for k, lin in tags):
        return True
    if implies(st.cons, x - s.len, "==", st.bnd):
        return True
    seen = set()
    for k, lin in tags:
        if k in seen:
            continue
        seen.add(k)
        if implies(st.cons, x - lin, "==", st.bnd):
            return True
    if x.is_const() and x.k == 1:
        fc = st.facts_extra.get(("firstchar", s.sym))
        if fc is not None and implies(st.cons, fc - 127, "<=", st.bnd) and implies(st.cons, -s.len + 1, "<=", st.bnd):
            return True
    return False


def add_boundary(st, s, lin):
    key = ("boundary", s.sym)
    cur = st.facts_extra.get(key, ())
    st.facts_extra[key] = cur + ((lin.key(), lin),)


def m_str_index(eng, st, c, args, dest_tid, t):
    s = _str_of(eng, st, args[0])
    if s is None:
        return NotImplemented
    rg = range_of(eng, st, args[1], s.len)
    if rg is None:
        return NotImplemented
    a, b = rg
    ordered = implies(st.cons, a - b, "<=", st.bnd) and implies(st.cons, b - s.len, "<=", st.bnd) and implies(st.cons, -a, "<=", st.bnd)
    bnd = s.sym is None or (boundary_known(eng, st, s, a) and boundary_known(eng, st, s, b))
    out = []
    if not (ordered and bnd):
        bad = st.clone()
        bad.end = "panic"
        eng.event(bad, "panic", "str slicing [%s] may be out of range or split a character" % ("bounds" if not ordered else "char boundary"),
                  callee="str::index")
        out.append((bad, DIVERGE))
    out.append((st, substr(eng, st, s, a, b)))
    return out


def m_slice_index_any(eng, st, c, args, dest_tid, t):
    """[T]::index with a usize (arrays) or a Range (byte slices of strings)"""
    from .models import m_array_index
    if isinstance(args[1], Int):
        return m_array_index(eng, st, c, args, dest_tid, t)
    s = _str_of(eng, st, args[0])
    if s is None:
        return NotImplemented
    rg = range_of(eng, st, args[1], s.len)
    if rg is None:
        return NotImplemented
    a, b = rg
    ordered = implies(st.cons, a - b, "<=", st.bnd) and implies(st.cons, b - s.len, "<=", st.bnd)
    out = []
    if not ordered:
        bad = st.clone()
        bad.end = "panic"
        eng.event(bad, "panic", "byte slice range may be out of bounds", callee="[u8]::index")
        out.append((bad, DIVERGE))
    out.append((st, substr(eng, st, s, a, b)))
    return out


def m_as_bytes(eng, st, c, args, dest_tid, t):
    s = _str_of(eng, st, args[0])
    if s is None:
        return NotImplemented
    return [(st, Ref(val=s))]


def m_chars(eng, st, c, args, dest_tid, t):
    return [(st, IterV("chars", a=args[0], n=0))]


def first_char(eng, st, s):
    key = ("firstchar", s.sym)
    fc = st.facts_extra.get(key)
    if fc is None:
        a = eng.atom("firstchar(%s)" % s.sym, 0, 0x10FFFF)
        fc = Lin.atom(a)
        st.facts_extra[key] = fc
    return fc


def m_nth(eng, st, c, args, dest_tid, t):
    ref = args[0]
    it = eng.deref(st, ref) if isinstance(ref, Ref) else None
    n = args[1]
    if isinstance(it, IterV) and it.ikind == "chars" and it.n == 0 and isinstance(n, Int) and n.lin.is_const() and n.lin.k == 0:
        s = _str_of(eng, st, it.a)
        if s is not None and s.sym is not None:
            out = []
            char_tid = eng.types[dest_tid]["variants"][1]["ftys"][0]
            empty, nonempty = eng.branch(st, c_lin("eq", s.len))
            for s2 in empty:
                out.append((s2, eng.mk_option(dest_tid, None)))
            for s2 in nonempty:
                out.append((s2, eng.mk_option(dest_tid, Int(first_char(eng, s2, s), char_tid))))
            return out
    return NotImplemented


def m_opaque_bool(eng, st, c, args, dest_tid, t):
    return [(st, eng.fresh(dest_tid, ("starts_with", eng.term(args[0]), eng.term(args[1]))))]


def m_chars_next(eng, st, c, args, dest_tid, t):
    """First `next()` of a fresh `chars()`: None iff the string is empty, else its first character."""
    ref = args[0]
    it = eng.deref(st, ref) if isinstance(ref, Ref) else None
    if isinstance(it, IterV) and it.ikind == "chars" and it.n == 0 and isinstance(ref, Ref) and ref.key is not None:
        s = _str_of(eng, st, it.a)
        if s is not None and s.sym is not None:
            out = []
            char_tid = eng.types[dest_tid]["variants"][1]["ftys"][0]
            empty, nonempty = eng.branch(st, c_lin("eq", s.len))
            for s2 in empty:
                out.append((s2, eng.mk_option(dest_tid, None)))
            for s2 in nonempty:
                eng.write_key(s2, ref.key, ref.proj, IterV("chars", a=it.a, n=1))
                out.append((s2, eng.mk_option(dest_tid, Int(first_char(eng, s2, s), char_tid))))
            return out
    return NotImplemented


def m_charidx_first(eng, st, c, args, dest_tid, t):
    """First `next()` of a fresh `char_indices()` (not a loop driver): None iff empty, else (0, first char)."""
    ref = args[0]
    it = eng.deref(st, ref) if isinstance(ref, Ref) else None
    if isinstance(it, IterV) and it.ikind == "charidx" and it.n is None and isinstance(ref, Ref) and ref.key is not None:
        s = _str_of(eng, st, it.a)
        if s is not None and s.sym is not None:
            out = []
            tup_tid = eng.types[dest_tid]["variants"][1]["ftys"][0]
            el = eng.types[tup_tid]["elems"]
            empty, nonempty = eng.branch(st, c_lin("eq", s.len))
            for s2 in empty:
                out.append((s2, eng.mk_option(dest_tid, None)))
            for s2 in nonempty:
                eng.write_key(s2, ref.key, ref.proj, IterV("charidx", a=it.a, n=1))
                out.append((s2, eng.mk_option(dest_tid, Struct(tup_tid, [Int(Lin.const(0), el[0]), Int(first_char(eng, s2, s), el[1])]))))
            return out
    return NotImplemented
