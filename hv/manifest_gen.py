"""Generates /verif/MANIFEST.json from the registry below (kept in one place so it stays valid)."""
import json
import os

VERIF = os.path.dirname(os.path.dirname(os.path.abspath(__file__)))

CHECKS = {
    "C01": ("trace-partitioned abstract interpretation of MIR (intervals + linear forms, Fourier-Motzkin); E5 delegation shape rules",
            "Every path partition of Add/Sub/Neg/abs/Mul<i64>/Div<i64> over symbolic canonical durations: exact linear form or saturation on the side of the exact result, canonical result, no reachable panic/wrap/lossy cast; Unit/assign forms by delegation shape.",
            "3.C01"),
    "C02": ("who-may-construct/field-write discipline on MIR + trace-partitioned abstract interpretation (linear forms)",
            "Canonical-form discipline (field visibility, every aggregate/field write constant-canonical or post-dominated by normalize), EXACT/SAT-SIDE of total_nanoseconds, from_total_nanoseconds, from_parts, the 64-bit accessors, Unit x i64 for all nine units, the std bridge, integer-exact compose.",
            "3.C02"),
    "C03": ("decision analysis by trace-partitioned abstract interpretation of the comparison MIR",
            "cmp/partial_cmp/lt/le/gt/ge/min/max/eq and the Unit comparisons over two symbolic canonical durations: every returned Ordering/bool is implied by the order of the signed counts; == only for equal counts or exact negations within a century.",
            "3.C03"),
    "C04": ("frame / operand-flow rule on MIR via abstract interpretation with Duration-level linear forms",
            "For the ten Epoch operator impls: result scale is self's, result duration is self.duration +/- the operand (arg, unit*1, seconds*Unit::Second), assign forms store it; Epoch-Epoch converts the right operand to the left's scale.",
            "3.C04"),
    "C05": ("finite-partition abstract evaluation (36 scale pairs) + table agreement with an independent calendar oracle",
            "to_time_scale evaluated per ordered pair of the six uniform scales with symbolic elapsed time: result = self.duration + constant, constant equals the oracle offset; reference constants, prime/gregorian offsets and to_/from_ wrappers agree with the oracle.",
            "3.C05"),
    "C12": ("decision analysis by abstract interpretation with an uninterpreted scale conversion; E5 scale-domain rule",
            "Epoch eq/partial_cmp/cmp/min/max: both operands of the Duration comparison are in the same scale (one converted to the other's), and the result is exactly what the signed counts dictate, so ==, <, > are mutually exclusive; PartialOrd and Ord agree.",
            "3.C12"),
    "C10": ("abstract interpretation of the reader over a template-string domain built from the writers' decoded fmt::Arguments templates; dispatch tables; constructor constants vs oracle",
            "Decides the agreement of writer and reader grammars, not the value-level round trip: each writer's shape (both forms, nine scale names) read off its templates drives Epoch::from_str on every path to exactly one maybe_from_gregorian(field k = digit run k, written scale) + zero offset; the statement's input grammar (0-9 fraction digits x Z/+hh:mm/-hh:mm x optional suffix) yields ns = frac*10^(9-d), shift = -/+(hh:mm), scale = suffix|UTC; TimeScale Display->FromStr identity; serde delegation; JD/MJD/SEC dispatch table (27 cells) and day-count constructors relative to each scale's reference epoch. Not decided: compute_gregorian/maybe_from_gregorian being inverse for every instant, digit-level lexical/fmt correctness, float resolution.",
            "3.C10"),
    "C13": ("panic-site reachability by abstract interpretation over MIR: string models with panic semantics, loops abstracted by havoc + Houdini-inferred inductive invariants, assume/guarantee contracts; SCC termination rule",
            "Every explicit panic, MIR Assert (bounds, overflow, division), unwrap/expect, str/slice indexing and out-of-range shift reachable from the ten string-parsing entry points is unreachable on every abstract path for an arbitrary UTF-8 input (only its length, known char boundaries and first char are tracked); every loop in the cone is driven by a finite iterator; out-of-range fields are rejected through Token::value_ok's table and dates are built only through maybe_from_gregorian, which is itself interpreted over every i32 year (no panic on any path).",
            "3.C13"),
    "C15": ("write-set (frame) analysis + decision tables by abstract interpretation with exact Duration algebra",
            "next() writes only cur; item = start + cur_before*step (product from the counter) in start's scale; cur += 1 on Some, unchanged on None; None iff cur*step >= span (exclusive) / > span (inclusive); constructors set duration = end - start, cur = 0, incl.",
            "3.C15"),
    "C14": ("abstract interpretation with linear forms and Euclid/truncating-remainder axioms; decision tables; E5 frame rule",
            "floor: F <= x, x - F < |s|, F = x - (x mod s) with operands provably the exact counts; zero step => 0; ceil = floor + |s| (MAX on overflow); round returns the floor iff strictly nearer, else floor + |s| (MAX on overflow), however the upper candidate is obtained (ties up); Epoch forms delegate in the epoch's own scale.",
            "3.C14"),
    "C17": ("abstract interpretation with uninterpreted scale conversion, constant folding (IEEE doubles), table agreement with the statement's constants, static rounding-error analysis of the float views' expression trees",
            "Every Duration-valued JD/MJD/UNIX view is to_S_duration() + K with K equal to the statement's constant; every float view is to_unit/to_seconds of such a duration with the right unit; from_mjd/from_jde constructors place the day count relative to each of the nine scales' own reference epoch (oracle reference dates), from_unix mirrors the 1970 constant; the public reference-epoch constants are the statement's instants (R5; J2000_REF_EPOCH is a test-locked known finding); the float views' 'few ulps' clause = static rounding-error bound of to_seconds/to_unit (R6, shared with C18.R6: <= 8u*max(|exact|, 1 s)). The float round trip value -> epoch -> value is NOT decided.",
            "3.C17"),
    "C20": ("abstract interpretation with linear forms and division axioms; dominating-guard and delegation rules",
            "from_time_of_week = from_total_nanoseconds(ns + week*7d) in the given scale; to_time_of_week satisfies week*7d+ns == count, 0 <= ns < 7d for non-negative counts; GNSS ns counters exact, Ok only under centuries == 0; day-of-year siblings share the anchor with paired +/-1.0.",
            "3.C20"),
    "C16": ("finite-map extraction and decision tables by abstract interpretation; E6 float-exactness rule; table agreement",
            "Weekday conversions/arithmetic as finite maps equal to arithmetic mod 7 with no reachable panic for any u8/i8; 49-cell difference table; names round-trip; weekday index derived from the integer count (floor(count/1d) mod 7, index 0 = Monday = 1900-01-01); next/previous move 1..7 days per the 49-cell table.",
            "3.C16"),
    "C06": ("table agreement with the shipped data files + decision-table extraction by abstract interpretation + scale-domain (E5) and float-exactness (E6) rules",
            "Built-in table equals leap-seconds.list and naif0012 row for row; look-up returns the last eligible row at or before the count (all 43 intervals, both flag values); conversions pass iers_only = true; UTC->TAI adds / TAI->UTC subtracts; look-up key domain; exact threshold comparison; file provider: both providers' next_back interpreted (None iff pos == len, else data[len-pos-1], pos+1), one generic look-up body for both, parser idioms (white-space-collapsing tokenizer, columns 0 and 1, '#' lines skipped, rows marked announced).",
            "3.C06"),
    "C08": ("region-containment proof per path partition (abstract interpretation + Fourier-Motzkin), table agreement, base-case/inductive-step analysis of the year loop",
            "is_gregorian_valid accepts only inside / rejects only outside the statement's region (month lengths, 4/100/400 rule, leap-second instants from the IERS rows); tables; maybe_from_gregorian = 365(y-1900) d +/- one day per leap loop-year + cumulative days + time of day - scale offset (or, for a loop-free constructor, the exact day number over the Euclidean quotients of y-1), Err on invalid input; no panic, wrap or lossy cast for any i32 year (R4, leap-day loops abstracted).",
            "3.C08"),
    "C07": ("constant agreement with the NAIF kernel file + expression-DAG shape comparison (abstract interpretation, sin uninterpreted) + operand-flow/sign rules + static error budget (interval, derivative and rounding-error analysis of the closed-form trees)",
            "NAIF/TDB constants equal the kernel's and the statement's; delta_et_tai and inner_g are exactly the closed forms as expression DAGs; both directions of ET and TDB apply the same correction with opposite signs, mirrored 32.184 s shift and J2000 offset, evaluated at the epoch's own seconds plus a bounded offset (interval evaluation of the refinement loop). The 30 ns / 20 ns / 100 ns clauses are decided as a static error budget (R3): Lipschitz constant, float evaluation error (rounding-error analysis, sin assumed accurate to 2^-50) and amplitude of the closed-form trees + evaluation-point offsets + to_seconds rounding (C18.R6) + ns truncation (C18.R2) give 11.8 ns <= 30 ns, 11.8 / 1.0 ns <= 20 ns round trip, and a 99 ns margin for order beyond 100 ns, over +/-10 000 years. What the refinement iteration converges to is not examined (only how far it can move the evaluation point).",
            "3.C07"),
    "C18": ("finite-map/table agreement + decision-table extraction over float comparison terms + reachability of panics / loop bounds by abstract interpretation + static rounding-error and forward-difference analysis of the float expression tree of every path (standard model of IEEE-754 arithmetic, exact rational bounds)",
            "PARTIAL: factor tables of Unit x f64 / Unit x i64 / in_seconds agree and match the statement; Unit<->u8 inverse; Unit x f64 saturates by the documented three-way decision and hands trunc(q*factor) to the exact integer constructors; no panic and bounded loops for any f64 in Unit x f64, to_seconds/to_unit, from_* and Duration x f64; in Duration x f64 the integer converted is the one the integrality test certified (same rounding function) and the test's tolerance is relative (<= 2 eps) or bounded by 1 ns over 10 000 years; Duration -> float: for every path of to_seconds and of to_unit per unit, |result - exact| <= 8u*max(|exact|, 1 s) (derived: 2.6u / <= 4.7u), correct sign, zero to zero, and monotone non-decreasing over [MIN, MAX] (regions tile, forward differences >= 0, seams ordered). Unit x f64 is by construction trunc(fl(q*factor)) with the exact factor (R1+R2), i.e. the statement's definition; NOT decided: the accuracy of Duration x f64 beyond R4/R5.",
            "3.C18"),
    "C11": ("abstract interpretation with division axioms; table-chain agreement (writer/reader); E7 format-template decoding over all Display path partitions",
            "decompose: weighted sum of the seven integer outputs == |count|, ranges, sign; Display unit strings -> UNITS slots -> compose_f64 parameters -> TimeUnits methods -> the same weights; all 25 spellings; Display prints '-' iff negative, '0 ns' iff zero, exactly the non-zero components in order with single spaces; serde via Display/FromStr.",
            "3.C11"),
    "C09": ("E6 float-exactness taint + interval evaluation by provenance; sibling-shape agreement; E7 format-template decoding with argument-flow checks; per-cell abstract interpretation of the year/month/day search (integer-valued-double domain, loop summaries with inductive-step check) against a days-from-civil oracle",
            "No f64 view of the duration and only exact int->float casts in compute_gregorian's cone; forward/inverse Gregorian code share reference year, ranges, leap predicate, tables and offset; hour/minute/second/ns ranges and lossless casts; the eight writers' templates, argument order, scale and fraction guard; accessors from the same decomposition; time-of-day operand flow (compose of one decomposition, nanosecond weights); the (year, month, day) computed from the day count equals the civil calendar for every day of years 0001-9999 (quick tier: ~325 of the 10 003 estimate-year cells; thorough: all). Relies on decompose's exactness (C11.R1) and on is_leap_year == 4/100/400 rule (decided here).",
            "3.C09"),
    "C19": ("abstract interpretation of Display for Formatter over per-rule abstract formats with E7 template decoding; finite-map extraction; constant-vs-documentation agreement",
            "token -> (field, {:0N}) table for every token in both branches; letter -> Token map (Format::from_str interpreted on \"%<letter>xy\" for every ASCII letter: documented token, separators in order, undocumented letters rejected) and Item::new separator/optional table; each predefined constant equals its documented format string (rustdoc pairs / named standard); no panic for any token, Format fields private, need_gregorian partition; separators exactly once; ISO8601 renders as the default Display template; for UTC epochs Format::parse interpreted on what the Formatter renders (predefined formats without optional tokens + three generated) reaches maybe_from_gregorian with field k = digit run k.",
            "3.C19"),
}

NOT_YET = {}

NA = {}


def gen():
    props = []
    with open(os.path.join(VERIF, "properties.jsonl")) as f:
        for l in f:
            if l.strip():
                props.append(json.loads(l)["id"])
    checks = []
    for pid in props:
        if pid in CHECKS:
            tech, text, ref = CHECKS[pid]
            checks.append({
                "property_id": pid,
                "quick_cmd": "bin/check %s" % pid,
                "thorough_cmd": "bin/check %s --tier thorough" % pid,
                "evidence_file": "evidence/%s.json" % pid,
                "replay_cmd_template": "bin/check %s --replay {path}" % pid,
                "engine": "hv",
                "level_claimed": {"category": "other", "text": text, "design_ref": ref},
                "level_note": "Trusted: rustc's MIR/const-eval for the pinned nightly, hv/models.py summaries of core primitives, "
                              "hv/lin.py. Analysed configuration: default features (std, serde), debug assertions + overflow "
                              "checks on; features ut1/python, cfg(kani) and no_std are not analysed. Obligations are proved by "
                              "over-approximation: a behaviour-preserving rewrite outside the domains' reach would be reported. "
                              "Rule <ID>.R0 (assumption audit): the rules of the properties this check leans on (bin/check ASSUMES) are "
                              "re-run on the same fact base and their undischarged obligations, other than those properties' recorded "
                              "known findings, are reported here too.",
                "technique": tech,
            })
    na = []
    for pid in props:
        if pid not in CHECKS:
            na.append({"property_id": pid, "reason": NA.get(pid, "check not built yet in this round (see DESIGN.md section 3 for the planned static rules)")})
    m = {
        "version": 1,
        "setup_cmd": "bin/setup.sh",
        "hooks": {
            "guard": "hifitime_verif (unused: static analysis reads the unmodified sources; no hook was added)",
            "enable": "none needed",
            "baseline_off_cmd": "cd /repo && cargo nextest run --workspace --no-fail-fast --offline --test-threads 8",
            "source_commits": [],
            "add_only": True,
        },
        "engines": [
            {"name": "hifi-facts", "path": "driver", "serves_properties": sorted(CHECKS), "kind_free_text": "rustc_private driver: monomorphised MIR, resolved callees, evaluated constants -> JSON fact base"},
            {"name": "hv", "path": "hv", "serves_properties": sorted(CHECKS), "kind_free_text": "Python static analyses over the fact base (abstract interpretation, CFG/flow rules, table agreement)"},
        ],
        "checks": checks,
        "not_applicable": na,
        "notes": "Static analysis only. Known genuine defects are listed in known_findings.json (exact keys); fix: commits in /repo repair the rest.",
    }
    with open(os.path.join(VERIF, "MANIFEST.json"), "w") as f:
        json.dump(m, f, indent=1)


if __name__ == "__main__":
    gen()
