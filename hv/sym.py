"""E1/E3: trace-partitioned abstract interpreter over the MIR fact base.

For loop-free (or constant-trip) code it keeps one abstract state per feasible outcome vector
of the branches passed.  Integers are linear forms over symbolic atoms; every partial or
non-linear operation (overflowing arithmetic, lossy casts, checked/saturating operations,
enum discriminants, string comparisons) splits the partition eagerly, and infeasible
partitions are pruned with the exact Fourier-Motzkin procedure in lin.py.  Nothing is ever
executed: values are abstract and inputs are symbols ranging over their whole type.
"""
import struct
import math
from .lin import Atom, Lin, feasible, bounds, interval, Infeasible, INF

# --------------------------------------------------------------------------------------
# values


class V:
    __slots__ = ()


class Int(V):
    __slots__ = ("lin", "tid")

    def __init__(self, lin, tid):
        self.lin = lin
        self.tid = tid

    def __repr__(self):
        return "Int(%r)" % (self.lin,)


class Bool(V):
    __slots__ = ("c",)

    def __init__(self, c):
        self.c = c

    def __repr__(self):
        return "Bool(%r)" % (self.c,)


class Flt(V):
    __slots__ = ("t",)

    def __init__(self, t):
        self.t = t

    def __repr__(self):
        return "Flt(%r)" % (self.t,)


class Struct(V):
    __slots__ = ("tid", "fs")

    def __init__(self, tid, fs):
        self.tid = tid
        self.fs = tuple(fs)

    def __repr__(self):
        return "S%r" % (self.fs,)


class Enum(V):
    __slots__ = ("tid", "vi", "fs")

    def __init__(self, tid, vi, fs=()):
        self.tid = tid
        self.vi = vi
        self.fs = tuple(fs)

    def __repr__(self):
        return "E%d%r" % (self.vi, self.fs)


class SymEnum(V):
    __slots__ = ("tid", "name")

    def __init__(self, tid, name):
        self.tid = tid
        self.name = name

    def __repr__(self):
        return "SymEnum(%s)" % (self.name,)


class Ref(V):
    __slots__ = ("key", "proj", "val")

    def __init__(self, key=None, proj=(), val=None):
        self.key = key
        self.proj = tuple(proj)
        self.val = val

    def __repr__(self):
        return "Ref(%r%r)" % (self.key, self.proj) if self.key is not None else "Ref(=%r)" % (self.val,)


class Str(V):
    __slots__ = ("s", "sym", "len")

    def __init__(self, s=None, sym=None, ln=None):
        self.s = s
        self.sym = sym
        self.len = ln

    def __repr__(self):
        return "Str(%r)" % (self.s if self.s is not None else self.sym,)


class Arr(V):
    __slots__ = ("tid", "els")

    def __init__(self, tid, els):
        self.tid = tid
        self.els = tuple(els)

    def __repr__(self):
        return "Arr[%d]" % len(self.els)


class Opq(V):
    __slots__ = ("term", "tid")

    def __init__(self, term, tid):
        self.term = term
        self.tid = tid

    def __repr__(self):
        return "Opq(%r)" % (self.term,)


class FnV(V):
    __slots__ = ("path",)

    def __init__(self, path):
        self.path = path

    def __repr__(self):
        return "Fn(%s)" % self.path


TRUE = ("t",)
FALSE = ("f",)


def c_not(c):
    k = c[0]
    if k == "t":
        return FALSE
    if k == "f":
        return TRUE
    if k == "le":  # lin <= 0  ->  lin >= 1
        return ("le", -c[1] + 1)
    if k == "eq":
        return ("ne", c[1])
    if k == "ne":
        return ("eq", c[1])
    if k == "not":
        return c[1]
    if k == "and":
        return ("or", c_not(c[1]), c_not(c[2]))
    if k == "or":
        return ("and", c_not(c[1]), c_not(c[2]))
    return ("not", c)


def c_and(a, b):
    if a == TRUE:
        return b
    if b == TRUE:
        return a
    if a == FALSE or b == FALSE:
        return FALSE
    return ("and", a, b)


def c_or(a, b):
    if a == FALSE:
        return b
    if b == FALSE:
        return a
    if a == TRUE or b == TRUE:
        return TRUE
    return ("or", a, b)


def c_lin(op, lin):
    """lin op 0 with constant folding; op in le/eq/ne/lt/ge/gt"""
    if op == "lt":
        op, lin = "le", lin + 1
    elif op == "ge":
        op, lin = "le", -lin
    elif op == "gt":
        op, lin = "le", -lin + 1
    if lin.is_const():
        k = lin.k
        r = (k <= 0) if op == "le" else (k == 0) if op == "eq" else (k != 0)
        return TRUE if r else FALSE
    return (op, lin)


def dnf(c):
    """Cond -> list of alternatives; each alternative is a list of atoms:
    (Lin, '<='|'=='|'!=') or ('opq', term, sense)."""
    k = c[0]
    if k == "t":
        return [[]]
    if k == "f":
        return []
    if k == "le":
        return [[(c[1], "<=")]]
    if k == "eq":
        return [[(c[1], "==")]]
    if k == "ne":
        return [[(c[1], "!=")]]
    if k == "and":
        out = []
        for a in dnf(c[1]):
            for b in dnf(c[2]):
                out.append(a + b)
        return out
    if k == "or":
        return dnf(c[1]) + dnf(c[2])
    if k == "not":
        return [[("opq", c[1], False)]]
    return [[("opq", c, True)]]


# --------------------------------------------------------------------------------------


class Frame:
    __slots__ = ("fn", "fid", "bb", "si", "dest", "ret_bb", "caller_sp", "dec")

    def __init__(self, fn, fid, dest=None, ret_bb=None, caller_sp=None):
        self.fn = fn
        self.fid = fid
        self.bb = 0
        self.si = 0
        self.dest = dest
        self.ret_bb = ret_bb
        self.caller_sp = caller_sp
        self.dec = ()

    def copy(self):
        f = Frame(self.fn, self.fid, self.dest, self.ret_bb, self.caller_sp)
        f.bb = self.bb
        f.si = self.si
        f.dec = self.dec
        return f


class St:
    __slots__ = (
        "frames", "store", "cons", "ckey", "bnd", "opq", "events", "enum_ref", "str_eq", "str_ne",
        "steps", "trace", "end", "ret", "facts_extra",
    )

    def __init__(self):
        self.frames = []
        self.store = {}
        self.cons = []
        self.ckey = frozenset()
        self.bnd = {}
        self.opq = []
        self.events = []
        self.enum_ref = {}
        self.str_eq = {}
        self.str_ne = {}
        self.steps = 0
        self.trace = []
        self.end = None
        self.ret = None
        self.facts_extra = {}

    def clone(self):
        s = St()
        s.frames = [f.copy() for f in self.frames]
        s.store = dict(self.store)
        s.cons = list(self.cons)
        s.ckey = self.ckey
        s.bnd = dict(self.bnd)
        s.opq = list(self.opq)
        s.events = list(self.events)
        s.enum_ref = dict(self.enum_ref)
        s.str_eq = dict(self.str_eq)
        s.str_ne = {k: set(v) for k, v in self.str_ne.items()}
        s.steps = self.steps
        s.trace = list(self.trace)
        s.facts_extra = dict(self.facts_extra)
        s.end = self.end
        s.ret = self.ret
        return s


class Limit(Exception):
    pass


# keys of the local functions whose bodies any engine of this process has interpreted (entry points and inlined callees):
# reported in the evidence as what was analysed
COVERED = set()


class Engine:
    def __init__(self, facts, max_paths=20000, max_steps=4000, max_depth=24, overflow_panics=None):
        self.F = facts
        self.types = facts.types
        self.max_paths = max_paths
        self.max_steps = max_steps
        self.max_depth = max_depth
        # in the debug fact base optional overflow Asserts panic; in release semantics they wrap
        self.lazy_enums = False
        self.max_block_visits = None
        self.int_floats = False
        self.group_switch = False
        self.sym_select = False
        self.overflow_panics = facts.config.get("overflow_checks", True) if overflow_panics is None else overflow_panics
        self.nfid = 0
        self.ncell = 0
        self.memo = {}
        self.atoms = {}
        self.feas_cache = {}
        self.models = {}
        self.opaque = None  # predicate(callee dict) -> bool : treat as uninterpreted function
        self.index_split = True  # split a path on the value of a small-range symbolic index of an array read
        self.hooks = {}  # callee path suffix -> model override
        self.hooks_by_id = {}  # resolved fn id -> model override
        self.stats = {"paths": 0, "steps": 0, "fm": 0, "asserts": 0, "asserts_const": 0, "calls_inlined": 0,
                      "calls_modelled": 0, "calls_opaque": 0, "calls_unmodelled": 0, "pruned": 0}
        self.site_stats = {}
        from . import models

        models.install(self)

    def reset(self):
        """Forget atoms / memoised symbols of a previous exploration (names are per-exploration)."""
        self.atoms = {}
        self.memo = {}
        self.feas_cache = {}
        self.memo_cells = {}
        self.cell_tids = {}
        self.fresh_terms = {}

    # ---------------------------------------------------------------- types
    def T(self, tid):
        return self.types[tid]

    def int_range(self, tid):
        t = self.types[tid]
        k = t["k"]
        if k == "int":
            b = t["bits"]
            if t["signed"]:
                return -(1 << (b - 1)), (1 << (b - 1)) - 1
            return 0, (1 << b) - 1
        if k == "bool":
            return 0, 1
        if k == "char":
            return 0, 0x10FFFF
        return -INF, INF

    def is_intlike(self, tid):
        return self.types[tid]["k"] in ("int", "char", "bool")

    def find_tid(self, s):
        for i, t in enumerate(self.types):
            if t.get("s") == s:
                return i
        raise KeyError(s)

    # ---------------------------------------------------------------- symbolic inputs
    def atom(self, name, lo, hi, kind="sym", defn=None):
        a = self.atoms.get(name)
        if a is None:
            a = Atom(name, lo, hi, kind, defn)
            self.atoms[name] = a
        return a

    def sym(self, tid, name, depth=0):
        """A symbolic value ranging over the whole type `tid`."""
        t = self.types[tid]
        k = t["k"]
        if k in ("int", "char"):
            lo, hi = self.int_range(tid)
            return Int(Lin.atom(self.atom(name, lo, hi)), tid)
        if k == "bool":
            b = self.atom(name, 0, 1)
            return Bool(("le", Lin({b: -1}, 1)))  # 1 - b <= 0
        if k == "float":
            return Flt(("sym", name))
        if k == "tuple":
            return Struct(tid, [self.sym(e, "%s.%d" % (name, i), depth + 1) for i, e in enumerate(t["elems"])])
        if k == "adt":
            vs = t["variants"]
            if not t["enum"]:
                if vs and "ftys" in vs[0] and depth < 6:
                    v = vs[0]
                    return Struct(tid, [self.sym(ft, "%s.%s" % (name, fn), depth + 1) for ft, fn in zip(v["ftys"], v["fields"])])
                return Opq(("sym", name), tid)
            return SymEnum(tid, name)
        if k in ("ref", "ptr"):
            to = self.types[t["to"]]
            if to["k"] == "str":
                ln = self.atom(name + ".len", 0, (1 << 63) - 1)
                return Ref(val=Str(sym=name, ln=Lin.atom(ln)))
            inner = self.sym(t["to"], "*" + name, depth + 1)
            self.ncell += 1
            key = ("cell", self.ncell, name)
            self._pending_cells.append((key, inner))
            return Ref(key=key)
        if k == "array" and t["len"] is not None and t["len"] <= 64:
            return Arr(tid, [self.sym(t["elem"], "%s[%d]" % (name, i), depth + 1) for i in range(t["len"])])
        return Opq(("sym", name), tid)

    _pending_cells = []

    def fresh(self, tid, term):
        """Typed symbolic value for an uninterpreted term (memoised: pure functions)."""
        key = (tid, term)
        v = self.memo.get(key)
        if v is None:
            name = "$%d" % (len(self.memo) + 1)
            self._pending_cells = []
            v = self.sym(tid, name)
            # cells created for refs inside fresh values are installed lazily by read
            self.memo[key] = v
            self.memo_cells = getattr(self, "memo_cells", {})
            for k2, inner in self._pending_cells:
                self.memo_cells[k2] = inner
            self.fresh_terms = getattr(self, "fresh_terms", {})
            self.fresh_terms[name] = term
        return v

    # ---------------------------------------------------------------- terms (hashable views of values)
    def term(self, v):
        if isinstance(v, Int):
            return ("i", v.lin.key())
        if isinstance(v, Bool):
            return ("b", _ckey(v.c))
        if isinstance(v, Flt):
            return ("f", v.t)
        if isinstance(v, Struct):
            return ("s", tuple(self.term(x) for x in v.fs))
        if isinstance(v, Enum):
            return ("e", v.vi, tuple(self.term(x) for x in v.fs))
        if isinstance(v, SymEnum):
            return ("se", v.name)
        if isinstance(v, Ref):
            if v.key is not None:
                return ("r", v.key, tuple(_pkey(x) for x in v.proj))
            return ("rv", self.term(v.val))
        if isinstance(v, Str):
            return ("str", v.s if v.s is not None else ("sym", v.sym))
        if isinstance(v, Arr):
            return ("a", tuple(self.term(x) for x in v.els))
        if isinstance(v, Opq):
            return ("o", v.term)
        if isinstance(v, FnV):
            return ("fn", v.path)
        if v is None:
            return ("none",)
        if hasattr(v, "pieces"):
            return ("fmtargs", id(v))
        if hasattr(v, "ikind"):
            return ("iter", id(v))
        if hasattr(v, "kind") and hasattr(v, "val"):
            return ("fmtarg", v.kind, self.term(v.val))
        return ("?", repr(v))

    # ---------------------------------------------------------------- constraint handling
    def lin_bounds(self, st, lin):
        """Cheap interval, then exact FM bounds under the path condition."""
        lo, hi = interval(lin, st.bnd)
        return lo, hi

    def fm_bounds(self, st, lin):
        lo, hi = interval(lin, st.bnd)
        if lo == hi:
            return lo, hi
        try:
            self.stats["fm"] += 1
            l2, h2 = bounds(lin, st.cons, st.bnd)
        except Infeasible:
            return lo, hi
        return max(lo, l2), min(hi, h2)

    def _feasible_with(self, st, alt):
        # an opaque predicate already decided on this path keeps its value
        for a in alt:
            if a[0] == "opq":
                for term, sense in st.opq:
                    if sense != a[2] and term == a[1]:
                        return False
        lins = [a for a in alt if a[0] != "opq"]
        if not lins:
            return True
        # quick interval tests
        undecided = []
        for lin, op in lins:
            lo, hi = interval(lin, st.bnd)
            if op == "<=":
                if lo > 0:
                    return False
                if hi <= 0:
                    continue
            elif op == "==":
                if lo > 0 or hi < 0:
                    return False
                if lo == hi == 0:
                    continue
            elif op == "!=":
                if lo == hi == 0:
                    return False
                if lo > 0 or hi < 0:
                    continue
            undecided.append((lin, op))
        if not undecided:
            return True
        key = (st.ckey, frozenset((l.key(), o) for l, o in undecided))
        r = self.feas_cache.get(key)
        if r is None:
            self.stats["fm"] += 1
            # only the cone of influence of the new constraints matters (old ones are feasible)
            from .lin import _relevant

            seed = set()
            for l, _ in undecided:
                seed.update(l.c.keys())
            rel = _relevant(st.cons, seed)
            r = feasible(rel + undecided, st.bnd)
            self.feas_cache[key] = r
        return r

    def add_cons(self, st, alt):
        for a in alt:
            if a[0] == "opq":
                st.opq.append((a[1], a[2]))
                continue
            lin, op = a
            lo, hi = interval(lin, st.bnd)
            if op == "<=" and hi <= 0:
                continue
            if op == "==" and lo == hi == 0:
                continue
            if op == "!=" and (lo > 0 or hi < 0):
                continue
            st.cons.append((lin, op))
            st.ckey = st.ckey | {(lin.key(), op)}
            # single-atom constraints refine the interval map
            if len(lin.c) == 1:
                (a1, v), = lin.c.items()
                alo, ahi = st.bnd.get(a1, (a1.lo, a1.hi))
                if op == "<=":
                    if v > 0:
                        ahi = min(ahi, (-lin.k) // v)
                    else:
                        alo = max(alo, -((-lin.k) // (-v)))
                elif op == "==":
                    if (-lin.k) % v == 0:
                        alo = max(alo, (-lin.k) // v)
                        ahi = min(ahi, (-lin.k) // v)
                elif op == "!=":
                    if (-lin.k) % v == 0:
                        x = (-lin.k) // v
                        if x == alo:
                            alo += 1
                        if x == ahi:
                            ahi -= 1
                st.bnd[a1] = (alo, ahi)

    def assume(self, st, cond, label=None):
        """States in which cond holds (possibly several: DNF), infeasible ones pruned.
        The *last* alternative reuses `st` itself (callers must not reuse st afterwards)."""
        alts = [a for a in dnf(cond) if self._feasible_with(st, a)]
        out = []
        for i, a in enumerate(alts):
            s = st if i == len(alts) - 1 else st.clone()
            self.add_cons(s, a)
            if label is not None:
                s.trace.append(label)
            out.append(s)
        return out

    def branch(self, st, cond, label=None):
        """-> (true_states, false_states)"""
        if cond == TRUE:
            return [st], []
        if cond == FALSE:
            return [], [st]
        talts = [a for a in dnf(cond) if self._feasible_with(st, a)]
        falts = [a for a in dnf(c_not(cond)) if self._feasible_with(st, a)]
        if not falts and len(talts) >= 1:
            # cond is implied: keep the state as is (do not grow the constraint set) unless opaque atoms
            if all(x[0] != "opq" for a in talts for x in a) or len(talts) == 1:
                if len(talts) == 1:
                    # implied: record opaque atoms and the (cheap, interval-refining) single-atom facts only
                    self.add_cons(st, [x for x in talts[0] if x[0] == "opq" or len(x[0].c) == 1])
                return [st], []
        if not talts and len(falts) >= 1:
            if len(falts) == 1:
                self.add_cons(st, [x for x in falts[0] if x[0] == "opq" or len(x[0].c) == 1])
                return [], [st]
        ts, fs = [], []
        total = len(talts) + len(falts)
        n = 0
        for a in talts:
            n += 1
            s = st if n == total else st.clone()
            self.add_cons(s, a)
            if label is not None:
                s.trace.append((label, True))
            ts.append(s)
        for a in falts:
            n += 1
            s = st if n == total else st.clone()
            self.add_cons(s, a)
            if label is not None:
                s.trace.append((label, False))
            fs.append(s)
        if total == 0:
            self.stats["pruned"] += 1
        return ts, fs

    def const_of(self, st, v):
        """int constant of an Int value under the path condition, else None"""
        if isinstance(v, Int):
            if v.lin.is_const():
                return v.lin.k
            lo, hi = interval(v.lin, st.bnd)
            if lo == hi:
                return lo
        return None

    # ---------------------------------------------------------------- events
    def event(self, st, kind, msg, **kw):
        fr = st.frames[-1] if st.frames else None
        e = {"kind": kind, "msg": msg}
        if fr is not None:
            e["fn"] = fr.fn["key"]
            e["bb"] = fr.bb
            t = fr.fn["blocks"][fr.bb]["t"]
            e["span"] = self.F.span(t.get("sp"))
            e["stack"] = [f.fn["key"] for f in st.frames]
        e.update(kw)
        st.events.append(e)
        return e

    # ---------------------------------------------------------------- memory
    def local_tid(self, fr, l):
        return fr.fn["locals"][l]["ty"]

    def read_key(self, st, key):
        v = st.store.get(key)
        if v is None and key[0] == "cell":
            v = getattr(self, "memo_cells", {}).get(key)
        return v

    def proj_read(self, st, v, projs, tid):
        """Apply projections to value v (type tid).  Returns (value, tid)."""
        for e in projs:
            if isinstance(v, SymEnum) and v.name in st.enum_ref:
                v = st.enum_ref[v.name]
            if e == "deref":
                t = self.types[tid]
                to = t.get("to")
                if isinstance(v, Ref):
                    if v.key is not None:
                        base = self.read_key(st, v.key)
                        bt = self.key_tid(st, v.key)
                        if base is None:
                            base = self.fresh(bt if bt is not None else to, ("uninit", v.key))
                        v, tid2 = self.proj_read(st, base, v.proj, bt) if v.proj else (base, bt)
                        tid = to if to is not None else tid2
                    else:
                        v = v.val
                        tid = to
                else:
                    v = self.fresh(to, ("deref", self.term(v)))
                    tid = to
            elif isinstance(e, dict) and "f" in e:
                i = e["f"]
                ft = e["ty"]
                if isinstance(v, (Struct, Enum)):
                    if i < len(v.fs):
                        v = v.fs[i]
                    else:
                        v = self.fresh(ft, ("field", self.term(v), i))
                elif v is None:
                    v = self.fresh(ft, ("uninit-field", i))
                else:
                    v = self.fresh(ft, ("field", self.term(v), i))
                tid = ft
            elif isinstance(e, dict) and "dc" in e:
                if isinstance(v, SymEnum):
                    # refine: this path assumes the variant
                    nv = self.enum_variant(v, e["dc"])
                    st.enum_ref[v.name] = nv
                    v = nv
                elif isinstance(v, Enum):
                    if v.vi != e["dc"]:
                        v = Opq(("bad-downcast", self.term(v), e["dc"]), tid)
                # tid unchanged
            elif isinstance(e, dict) and "idx" in e:
                fr = st.frames[-1]
                iv = st.store.get((fr.fid, e["idx"]))
                et = self.types[tid].get("elem") if tid is not None else (self.types[v.tid].get("elem") if isinstance(v, Arr) and v.tid is not None else None)
                c = self.const_of(st, iv) if iv is not None else None
                if isinstance(v, Arr) and c is not None and 0 <= c < len(v.els):
                    v = v.els[c]
                else:
                    v = self.fresh(et, ("index", self.term(v), self.term(iv)))
                tid = et
            elif isinstance(e, dict) and "cidx" in e:
                et = self.types[tid].get("elem") if tid is not None else (self.types[v.tid].get("elem") if isinstance(v, Arr) and v.tid is not None else None)
                if isinstance(v, Arr) and not e["from_end"] and e["cidx"] < len(v.els):
                    v = v.els[e["cidx"]]
                else:
                    v = self.fresh(et, ("cindex", self.term(v), e["cidx"], e["from_end"]))
                tid = et
            else:
                v = Opq(("proj", self.term(v), str(e)), tid)
        if isinstance(v, SymEnum) and v.name in st.enum_ref:
            v = st.enum_ref[v.name]
        return v, tid

    def key_tid(self, st, key):
        if key[0] == "cell":
            return st.facts_extra.get(key) or getattr(self, "cell_tids", {}).get(key)
        fid, l = key
        for fr in st.frames:
            if fr.fid == fid:
                return fr.fn["locals"][l]["ty"]
        return getattr(self, "dead_tids", {}).get(key)

    def read_place(self, st, fr, p):
        key = (fr.fid, p["l"])
        tid = self.local_tid(fr, p["l"])
        v = st.store.get(key)
        if v is None:
            v = self.fresh(tid, ("uninit", fr.fn["key"], p["l"], fr.fid))
        if not p["pj"]:
            if isinstance(v, SymEnum) and v.name in st.enum_ref:
                v = st.enum_ref[v.name]
            return v
        v, _ = self.proj_read(st, v, p["pj"], tid)
        return v

    def place_ref(self, st, fr, p):
        """Ref value for &place (resolving derefs through existing refs)."""
        key = (fr.fid, p["l"])
        proj = []
        tid = self.local_tid(fr, p["l"])
        cur_key, cur_proj, cur_val = key, [], None
        for e in p["pj"]:
            if e == "deref":
                # value at current location must be a Ref
                if cur_key is not None:
                    base = self.read_key(st, cur_key)
                    bt = self.key_tid(st, cur_key)
                    v, _ = self.proj_read(st, base, cur_proj, bt) if base is not None else (None, None)
                else:
                    v = cur_val
                if isinstance(v, Ref):
                    if v.key is not None:
                        cur_key, cur_proj, cur_val = v.key, list(v.proj), None
                    else:
                        cur_key, cur_proj, cur_val = None, [], v.val
                else:
                    # unknown pointer target: allocate a cell holding a fresh value
                    to = None
                    cur_key, cur_proj, cur_val = None, [], self.fresh(self.types[tid].get("to", tid), ("deref", self.term(v)))
                tid = self.types[tid].get("to", tid)
            else:
                if cur_key is not None:
                    cur_proj.append(_pkey(e))
                else:
                    cur_val, _ = self.proj_read(st, cur_val, [e], tid)
                if isinstance(e, dict) and "ty" in e:
                    tid = e["ty"]
                elif isinstance(e, dict) and ("idx" in e or "cidx" in e):
                    tid = self.types[tid].get("elem", tid)
        if cur_key is not None:
            return Ref(key=cur_key, proj=[_punkey(x) for x in cur_proj])
        return Ref(val=cur_val)

    def write_key(self, st, key, projs, val):
        base = self.read_key(st, key)
        tid = self.key_tid(st, key)
        st.store[key] = self._upd(st, base, list(projs), val, tid)

    def _upd(self, st, base, projs, val, tid):
        if not projs:
            return val
        e = projs[0]
        rest = projs[1:]
        if isinstance(base, SymEnum) and base.name in st.enum_ref:
            base = st.enum_ref[base.name]
        if e == "deref":
            if isinstance(base, Ref) and base.key is not None:
                self.write_key(st, base.key, list(base.proj) + rest, val)
            else:
                self.event(st, "imprecise", "write through unknown pointer")
            return base
        if isinstance(e, dict) and "f" in e:
            i = e["f"]
            if isinstance(base, Struct):
                fs = list(base.fs)
                while len(fs) <= i:
                    fs.append(None)
                fs[i] = self._upd(st, fs[i], rest, val, e["ty"])
                return Struct(base.tid, fs)
            if isinstance(base, Enum):
                fs = list(base.fs)
                while len(fs) <= i:
                    fs.append(None)
                fs[i] = self._upd(st, fs[i], rest, val, e["ty"])
                return Enum(base.tid, base.vi, fs)
            # build a skeleton from the type
            t = self.types[tid] if tid is not None else None
            n = 0
            if t is not None:
                if t["k"] == "tuple":
                    n = len(t["elems"])
                elif t["k"] == "adt" and t["variants"]:
                    n = t["variants"][0]["nfields"]
            fs = []
            for j in range(max(n, i + 1)):
                if base is not None and not isinstance(base, (Struct, Enum)):
                    fs.append(None)
                else:
                    fs.append(None)
            fs[i] = self._upd(st, None, rest, val, e["ty"])
            return Struct(tid, fs)
        if isinstance(e, dict) and "dc" in e:
            if isinstance(base, Enum) and base.vi == e["dc"]:
                return self._upd(st, base, rest, val, tid)
            nb = Enum(tid, e["dc"], [])
            return self._upd(st, nb, rest, val, tid)
        if isinstance(e, dict) and "idx" in e:
            fr = st.frames[-1]
            iv = st.store.get((fr.fid, e["idx"]))
            c = self.const_of(st, iv) if iv is not None else None
            et = self.types[tid].get("elem") if tid is not None else None
            if isinstance(base, Arr) and c is not None and 0 <= c < len(base.els):
                els = list(base.els)
                els[c] = self._upd(st, els[c], rest, val, et)
                return Arr(base.tid, els)
            # weak update: array becomes unknown
            return Opq(("array-weak-update", self.term(base), self.term(iv), self.term(val)), tid)
        if isinstance(e, dict) and "cidx" in e:
            et = self.types[tid].get("elem") if tid is not None else None
            if isinstance(base, Arr) and not e["from_end"] and e["cidx"] < len(base.els):
                els = list(base.els)
                els[e["cidx"]] = self._upd(st, els[e["cidx"]], rest, val, et)
                return Arr(base.tid, els)
        return Opq(("weak-update", self.term(base)), tid)

    def write_place(self, st, fr, p, val):
        self.write_key(st, (fr.fid, p["l"]), p["pj"], val)

    # ---------------------------------------------------------------- constants
    def const_val(self, k):
        tid = k["ty"]
        v = k.get("v")
        ck = (tid, _jkey(v))
        r = self.memo.get(("const", ck))
        if r is None:
            r = self._cv(v, tid, k.get("src"))
            self.memo[("const", ck)] = r
        return r

    def _cv(self, v, tid, src=None):
        t = self.types[tid]
        k = t["k"]
        if isinstance(v, bool):
            return Bool(TRUE if v else FALSE)
        if isinstance(v, int):
            return Int(Lin.const(v), tid)
        if isinstance(v, dict):
            if "fbits" in v:
                if v["w"] == 64:
                    return Flt(("c", struct.unpack("<d", struct.pack("<Q", v["fbits"]))[0]))
                return Flt(("c", struct.unpack("<f", struct.pack("<I", v["fbits"]))[0]))
            if "char" in v:
                return Int(Lin.const(v["code"]), tid)
            if "str" in v:
                s = Str(s=v["str"], ln=Lin.const(len(v["str"].encode())))
                return Ref(val=s)
            if "fn" in v:
                return FnV(v["fn"])
            if "ref" in v:
                return Ref(val=self._cv(v["ref"], t["to"]))
            if "tuple" in v:
                if k == "tuple":
                    return Struct(tid, [self._cv(x, e) for x, e in zip(v["tuple"], t["elems"])])
                return Struct(tid, [Opq(("const", _jkey(x)), None) for x in v["tuple"]])
            if "arr" in v:
                return Arr(tid, [self._cv(x, t["elem"]) for x in v["arr"]])
            if "slice" in v:
                to = self.types[t["to"]] if k in ("ref", "ptr") else None
                et = to["elem"] if to else None
                return Ref(val=Arr(t.get("to"), [self._cv(x, et) for x in v["slice"]]))
            if "bytes" in v:
                to = self.types[t["to"]] if k in ("ref", "ptr") else None
                et = to.get("elem") if to else None
                return Ref(val=Arr(t.get("to"), [Int(Lin.const(b), et) for b in v["bytes"]]))
            if "adt" in v:
                vi = v["vidx"]
                var = t["variants"][vi] if k == "adt" and vi < len(t["variants"]) else None
                ftys = var.get("ftys") if var else None
                fs = []
                for j, (_, fv) in enumerate(v["fields"]):
                    if ftys:
                        fs.append(self._cv(fv, ftys[j]))
                    else:
                        fs.append(self._cv_untyped(fv))
                if k == "adt" and t["enum"]:
                    return Enum(tid, vi, fs)
                return Struct(tid, fs)
            if "uneval" in v:
                return self.fresh(tid, ("uneval", src))
        return Opq(("const", _jkey(v), src), tid)

    def _cv_untyped(self, v):
        if isinstance(v, bool):
            return Bool(TRUE if v else FALSE)
        if isinstance(v, int):
            return Int(Lin.const(v), None)
        return Opq(("const", _jkey(v)), None)

    # ---------------------------------------------------------------- operands / rvalues
    def operand(self, st, fr, o):
        if "cp" in o:
            return self.read_place(st, fr, o["cp"])
        if "mv" in o:
            return self.read_place(st, fr, o["mv"])
        if "k" in o:
            return self.const_val(o["k"])
        return Opq(("operand?",), None)

    def operand_tid(self, fr, o):
        if "k" in o:
            return o["k"]["ty"]
        p = o.get("cp") or o.get("mv")
        tid = self.local_tid(fr, p["l"])
        for e in p["pj"]:
            if e == "deref":
                tid = self.types[tid].get("to", tid)
            elif isinstance(e, dict) and "ty" in e:
                tid = e["ty"]
            elif isinstance(e, dict) and ("idx" in e or "cidx" in e):
                tid = self.types[tid].get("elem", tid)
        return tid

    def enum_variant(self, se, vi):
        t = self.types[se.tid]
        var = t["variants"][vi]
        ftys = var.get("ftys")
        fs = []
        if ftys:
            for j, ft in enumerate(ftys):
                fs.append(self.fresh(ft, ("variant-field", se.name, vi, j)))
        else:
            for j in range(var["nfields"]):
                fs.append(Opq(("variant-field", se.name, vi, j), None))
        return Enum(se.tid, vi, fs)

    def wrap_split(self, st, exact, tid, what):
        """Split on whether the exact integer `exact` fits type tid.
        -> list of (state, result Lin, overflowed: bool)"""
        lo, hi = self.int_range(tid)
        if lo == -INF:
            return [(st, exact, False)]
        elo, ehi = interval(exact, st.bnd)
        if elo >= lo and ehi <= hi:
            return [(st, exact, False)]
        out = []
        m = hi - lo + 1
        in_range = c_and(c_lin("ge", exact - lo), c_lin("le", exact - hi))
        alts = []
        alts.append((in_range, exact, False, None))
        alts.append((c_lin("gt", exact - hi), None, True, +1))
        alts.append((c_lin("lt", exact - lo), None, True, -1))
        feas = []
        for cond, res, ov, side in alts:
            d = dnf(cond)
            ok = [a for a in d if self._feasible_with(st, a)]
            if ok:
                feas.append((ok[0] if len(ok) == 1 else None, cond, res, ov, side))
        n = len(feas)
        for i, (alt, cond, res, ov, side) in enumerate(feas):
            if n == 1 and not ov:
                # fits on every feasible path: nothing to add
                return [(st, exact, False)]
            s = st if i == n - 1 else st.clone()
            ss = self.assume(s, cond)
            for s2 in ss:
                if not ov:
                    out.append((s2, exact, False))
                else:
                    # wrapped value: one modulus away if provable, else a fresh atom
                    w = exact - m if side > 0 else exact + m
                    wlo, whi = self.fm_bounds(s2, w)
                    if wlo >= lo and whi <= hi:
                        out.append((s2, w, True))
                    else:
                        a = self.atom("$wrap%d" % (len(self.atoms) + 1), lo, hi, "wrap", (what, exact.key()))
                        out.append((s2, Lin.atom(a), True))
        return out

    def rvalue(self, st, fr, r, dest_tid):
        """-> list of (state, value)"""
        op = r["op"]
        if op == "use":
            return [(st, self.operand(st, fr, r["x"]))]
        if op == "bin":
            return self.binop(st, fr, r["b"], self.operand(st, fr, r["l"]), self.operand(st, fr, r["r"]), dest_tid,
                              self.operand_tid(fr, r["l"]))
        if op == "un":
            return self.unop(st, fr, r["u"], self.operand(st, fr, r["x"]), dest_tid)
        if op == "cast":
            return self.cast(st, fr, r["ck"], self.operand(st, fr, r["x"]), self.operand_tid(fr, r["x"]), r["ty"])
        if op == "ref" or op == "rawptr":
            return [(st, self.place_ref(st, fr, r["p"]))]
        if op == "discr":
            v = self.read_place(st, fr, r["p"])
            return self.discriminant(st, v, dest_tid)
        if op == "agg":
            xs = [self.operand(st, fr, x) for x in r["xs"]]
            ak = r["ak"]
            if ak == "tuple":
                return [(st, Struct(dest_tid, xs))]
            if ak == "adt":
                t = self.types[r["ty"]]
                if t["enum"]:
                    return [(st, Enum(r["ty"], r["variant"], xs))]
                return [(st, Struct(r["ty"], xs))]
            if ak == "array":
                return [(st, Arr(dest_tid, xs))]
            if ak == "closure":
                return [(st, Struct(dest_tid, xs))]
            return [(st, Opq(("agg", ak, tuple(self.term(x) for x in xs)), dest_tid))]
        if op == "repeat":
            x = self.operand(st, fr, r["x"])
            n = r["n"]
            if n is not None and n <= 4096:
                return [(st, Arr(dest_tid, [x] * n))]
            return [(st, Opq(("repeat", self.term(x), n), dest_tid))]
        return [(st, self.fresh(dest_tid, ("rvalue", op, r.get("dbg"))))]

    def discriminant(self, st, v, dest_tid):
        if isinstance(v, SymEnum) and v.name in st.enum_ref:
            v = st.enum_ref[v.name]
        if isinstance(v, Enum):
            t = self.types[v.tid]
            d = t["variants"][v.vi].get("discr", v.vi)
            # discriminants are reported as u128 bit patterns; reinterpret in dest type
            lo, hi = self.int_range(dest_tid)
            if hi != INF and d > hi:
                d -= (hi - lo + 1)
            return [(st, Int(Lin.const(d), dest_tid))]
        if isinstance(v, SymEnum) and self.lazy_enums:
            # field-less enum with contiguous discriminants: the discriminant is an integer atom, decided by later comparisons
            t = self.types[v.tid]
            ds = [var.get("discr", i) for i, var in enumerate(t["variants"])]
            lo, hi = self.int_range(dest_tid)
            ds = [d - (hi - lo + 1) if hi != INF and d > hi else d for d in ds]
            if all(var["nfields"] == 0 for var in t["variants"]) and sorted(ds) == list(range(min(ds), max(ds) + 1)) and len(ds) > 2:
                a = self.atom("discr(%s)" % v.name, min(ds), max(ds))
                return [(st, Int(Lin.atom(a), dest_tid))]
        if isinstance(v, SymEnum):
            t = self.types[v.tid]
            out = []
            n = len(t["variants"])
            for vi in range(n):
                s = st if vi == n - 1 else st.clone()
                ev = self.enum_variant(v, vi)
                s.enum_ref[v.name] = ev
                s.trace.append(("variant", v.name, t["variants"][vi]["name"]))
                d = t["variants"][vi].get("discr", vi)
                lo, hi = self.int_range(dest_tid)
                if hi != INF and d > hi:
                    d -= (hi - lo + 1)
                out.append((s, Int(Lin.const(d), dest_tid)))
            return out
        return [(st, self.fresh(dest_tid, ("discr", self.term(v))))]

    def binop(self, st, fr, b, l, r, dest_tid, ltid=None):
        with_ov = b.endswith("WithOverflow")
        base = b.replace("WithOverflow", "").replace("Unchecked", "")
        if isinstance(l, Int) and isinstance(r, Int):
            tid = l.tid if l.tid is not None else ltid
            if base in ("Add", "Sub", "Mul"):
                exact = None
                if base == "Add":
                    exact = l.lin + r.lin
                elif base == "Sub":
                    exact = l.lin - r.lin
                else:
                    if l.lin.is_const():
                        exact = r.lin.scale(l.lin.k)
                    elif r.lin.is_const():
                        exact = l.lin.scale(r.lin.k)
                    else:
                        exact = self.product(st, l.lin, r.lin)
                res_tid = tid
                out = []
                for s2, res, ov in self.wrap_split(st, exact, res_tid, base):
                    if with_ov:
                        out.append((s2, Struct(dest_tid, [Int(res, res_tid), Bool(TRUE if ov else FALSE)])))
                    else:
                        if ov:
                            self.event(s2, "wrap", "%s wraps silently" % b, op=b)
                        out.append((s2, Int(res, res_tid)))
                return out
            if base in ("Eq", "Ne", "Lt", "Le", "Gt", "Ge"):
                d = l.lin - r.lin
                c = {"Eq": c_lin("eq", d), "Ne": c_lin("ne", d), "Lt": c_lin("lt", d), "Le": c_lin("le", d),
                     "Gt": c_lin("gt", d), "Ge": c_lin("ge", d)}[base]
                return [(st, Bool(c))]
            if base == "Cmp":
                d = l.lin - r.lin
                out = []
                for cond, vi in ((c_lin("lt", d), 0), (c_lin("eq", d), 1), (c_lin("gt", d), 2)):
                    for s2 in self.assume(st.clone(), cond):
                        out.append((s2, Enum(dest_tid, vi, ())))
                return out
            if base in ("Div", "Rem"):
                return self.divrem(st, base, l, r, tid)
            if base in ("BitAnd", "BitOr", "BitXor", "Shl", "Shr"):
                lc, rc = self.const_of(st, l), self.const_of(st, r)
                if lc is not None and rc is not None:
                    lo, hi = self.int_range(tid)
                    if base == "BitAnd":
                        v = lc & rc
                    elif base == "BitOr":
                        v = lc | rc
                    elif base == "BitXor":
                        v = lc ^ rc
                    elif base == "Shl":
                        v = lc << rc
                        if hi != INF:
                            m = hi - lo + 1
                            v = (v - lo) % m + lo
                    else:
                        v = lc >> rc
                    return [(st, Int(Lin.const(v), tid))]
                return [(st, self.fresh(tid, ("bitop", base, l.lin.key(), r.lin.key())))]
        if isinstance(l, Flt) and isinstance(r, Flt):
            if self.int_floats and base in ("Add", "Sub", "Eq", "Ne", "Lt", "Le", "Gt", "Ge"):
                # integer-valued doubles below 2^53: f64 +, - and comparisons are exact integer arithmetic
                a, bq = self.flt_int(st, l), self.flt_int(st, r)
                if a is not None and bq is not None and not (l.t[0] == "c" and r.t[0] == "c"):
                    if base in ("Add", "Sub"):
                        res = a + bq if base == "Add" else a - bq
                        lo, hi = interval(res, st.bnd)
                        if -(1 << 53) <= lo and hi <= (1 << 53):
                            return [(st, Flt(("i2f", res.key(), res)))]
                    else:
                        d = a - bq
                        rel = {"Eq": "eq", "Ne": "ne", "Lt": "lt", "Le": "le", "Gt": "gt", "Ge": "ge"}[base]
                        return [(st, Bool(c_lin(rel, d)))]
            if base in ("Add", "Sub", "Mul", "Div", "Rem"):
                return [(st, Flt(fold_f(base, l.t, r.t)))]
            if base in ("Eq", "Ne", "Lt", "Le", "Gt", "Ge"):
                if l.t[0] == "c" and r.t[0] == "c":
                    a, bb = l.t[1], r.t[1]
                    res = {"Eq": a == bb, "Ne": a != bb, "Lt": a < bb, "Le": a <= bb, "Gt": a > bb, "Ge": a >= bb}[base]
                    return [(st, Bool(TRUE if res else FALSE))]
                return [(st, Bool(("fcmp", base, l.t, r.t)))]
        if isinstance(l, Bool) and isinstance(r, Bool):
            if base == "BitAnd":
                return [(st, Bool(c_and(l.c, r.c)))]
            if base == "BitOr":
                return [(st, Bool(c_or(l.c, r.c)))]
            if base == "Eq":
                return [(st, Bool(c_or(c_and(l.c, r.c), c_and(c_not(l.c), c_not(r.c)))))]
            if base in ("Ne", "BitXor"):
                return [(st, Bool(c_or(c_and(l.c, c_not(r.c)), c_and(c_not(l.c), r.c))))]
        # mixed Bool/Int (bool compared as integer)
        if base in ("Eq", "Ne") and isinstance(l, Bool) and isinstance(r, Int) and r.lin.is_const():
            c = l.c if r.lin.k != 0 else c_not(l.c)
            return [(st, Bool(c if base == "Eq" else c_not(c)))]
        if base in ("Eq", "Ne", "Lt", "Le", "Gt", "Ge"):
            return [(st, Bool(("cmp?", base, self.term(l), self.term(r))))]
        return [(st, self.fresh(dest_tid, ("bin", b, self.term(l), self.term(r))))]

    def product(self, st, a, b):
        """Non-linear product of two Lins -> Lin over a product atom (with interval bounds)."""
        ka, kb = a.key(), b.key()
        if kb < ka:
            a, b, ka, kb = b, a, kb, ka
        name = "mul(%r,%r)" % (a, b)
        at = self.atoms.get(name)
        if at is None:
            alo, ahi = self.fm_bounds(st, a)
            blo, bhi = self.fm_bounds(st, b)
            cands = []
            for x in (alo, ahi):
                for y in (blo, bhi):
                    if x in (INF, -INF) or y in (INF, -INF):
                        if x == 0 or y == 0:
                            cands.append(0)
                        else:
                            cands.append(INF if (x > 0) == (y > 0) else -INF)
                    else:
                        cands.append(x * y)
            # NOTE: bounds are computed under the *current* path; keep them only if they hold for the
            # static atom ranges too (otherwise memoisation across paths would be unsound)
            sa = interval(a)
            sb = interval(b)
            cs = []
            for x in sa:
                for y in sb:
                    if x in (INF, -INF) or y in (INF, -INF):
                        cs.append(INF if (x > 0) == (y > 0) else -INF)
                    else:
                        cs.append(x * y)
            at = self.atom(name, min(cs), max(cs), "mul", (a, b))
        return Lin.atom(at)

    def _link_remainders(self, st, x, k, rm, nonneg):
        """Remainders of the same value by moduli that divide one another are congruent: x % m == k*j + x % k when k | m (same sign
        for the truncating remainder).  Added when the second remainder appears on a path, so that `y % 100 != 0` excludes
        `y % 400 == 0` without the code having to test it (nested leap-year rule)."""
        seen = set()
        for lin_, _op in list(st.cons):
            for a in lin_.c:
                if a.kind != "trem" or a is rm or a.id in seen or not isinstance(a.defn, tuple) or not isinstance(a.defn[1], int):
                    continue
                seen.add(a.id)
                if a.defn[0].key() != x.key():
                    continue
                m = abs(a.defn[1])
                if m == k:
                    self.add_cons(st, [(Lin.atom(a) - Lin.atom(rm), "==")])
                    continue
                big, small, mb, ms = (a, rm, m, k) if m % k == 0 and m > k else ((rm, a, k, m) if k % m == 0 and k > m else (None, None, 0, 0))
                if big is None:
                    continue
                n = mb // ms
                j = self.atom("remlink(%s,%s)" % (big.name, small.name), 0 if nonneg else -(n - 1), (n - 1) if nonneg else 0, "remlink", (Lin.atom(big), Lin.atom(small)))
                self.add_cons(st, [(Lin.atom(big) - Lin({j: ms, small: 1}), "==")])

    def divrem(self, st, base, l, r, tid):
        """Truncating integer division / remainder (the Assert for zero / overflow precedes it)."""
        rc = self.const_of(st, r)
        lc = self.const_of(st, l)
        if rc is not None and lc is not None and rc != 0:
            q = abs(lc) // abs(rc)
            if (lc < 0) != (rc < 0):
                q = -q
            rem = lc - q * rc
            return [(st, Int(Lin.const(q if base == "Div" else rem), tid))]
        if rc is not None and rc != 0:
            # l = q*rc + rem ; |rem| < |rc| ; sign(rem) = sign(l)
            kq = ("tdiv", l.lin.key(), rc)
            lo, hi = self.int_range(tid)
            q = self.atom("tdiv(%r,%d)" % (l.lin, rc), lo, hi, "tdiv", (l.lin, rc))
            rm = self.atom("trem(%r,%d)" % (l.lin, rc), -(abs(rc) - 1), abs(rc) - 1, "trem", (l.lin, rc))
            out = []
            defn = (l.lin - Lin({q: rc, rm: 1}), "==")
            for cond, extra in (
                (c_lin("ge", l.lin), [(Lin({rm: -1}), "<=")]),  # l >= 0 -> rem >= 0
                (c_lin("lt", l.lin), [(Lin({rm: 1}), "<=")]),  # l < 0 -> rem <= 0
            ):
                for s2 in self.assume(st.clone(), cond):
                    self.add_cons(s2, [defn] + extra)
                    self._link_remainders(s2, l.lin, abs(rc), rm, extra[0][0].c.get(rm) == -1)
                    out.append((s2, Int(Lin.atom(q if base == "Div" else rm), tid)))
            return out
        # symbolic divisor: uninterpreted with sign/magnitude facts for the remainder
        lo, hi = self.int_range(tid)
        if base == "Div":
            a = self.atom("tdiv(%r,%r)" % (l.lin, r.lin), lo, hi, "tdivs", (l.lin, r.lin))
            ql = Lin.atom(a)
            out = []
            # |l / r| <= |l| for any non-zero divisor (the zero case is excluded by the preceding Assert)
            for s2 in self.assume(st.clone(), c_lin("ge", l.lin)):
                self.add_cons(s2, [(ql - l.lin, "<="), (-ql - l.lin, "<=")])
                out.append((s2, Int(ql, tid)))
            for s2 in self.assume(st.clone(), c_lin("lt", l.lin)):
                self.add_cons(s2, [(ql + l.lin, "<="), (-ql + l.lin, "<=")])
                out.append((s2, Int(ql, tid)))
            return out
        a = self.atom("trem(%r,%r)" % (l.lin, r.lin), lo, hi, "trems", (l.lin, r.lin))
        rm = Lin.atom(a)
        out = []
        # sign(rem) = sign(l) or rem = 0 ; |rem| < |r|
        for lc_, rc_ in (("ge", "gt"), ("ge", "lt"), ("lt", "gt"), ("lt", "lt")):
            cond = c_and(c_lin(lc_, l.lin), c_lin(rc_, r.lin))
            for s2 in self.assume(st.clone(), cond):
                absr = r.lin if rc_ == "gt" else -r.lin
                if lc_ == "ge":
                    self.add_cons(s2, [(-rm, "<="), (rm - absr + 1, "<=")])
                else:
                    self.add_cons(s2, [(rm, "<="), (-rm - absr + 1, "<=")])
                out.append((s2, Int(rm, tid)))
        return out

    def flt_int(self, st, x):
        """Lin of an integer-valued double (an int -> float cast below 2^53, or an integral constant), else None"""
        t = x.t
        if t[0] == "i2f":
            lo, hi = interval(t[2], st.bnd)
            if -(1 << 53) <= lo and hi <= (1 << 53):
                return t[2]
            return None
        if t[0] == "c" and isinstance(t[1], float) and t[1] == t[1] and abs(t[1]) < float(1 << 53) and t[1] == int(t[1]):
            return Lin.const(int(t[1]))
        return None

    def unop(self, st, fr, u, x, dest_tid):
        if u == "Not":
            if isinstance(x, Bool):
                return [(st, Bool(c_not(x.c)))]
            if isinstance(x, Int):
                lo, hi = self.int_range(x.tid)
                if lo < 0:
                    return [(st, Int(-x.lin - 1, x.tid))]
                return [(st, Int(Lin.const(hi) - x.lin, x.tid))]
        if u == "Neg":
            if isinstance(x, Int):
                out = []
                for s2, res, ov in self.wrap_split(st, -x.lin, x.tid, "Neg"):
                    # (the OverflowNeg Assert, when present, precedes this statement)
                    out.append((s2, Int(res, x.tid)))
                return out
            if isinstance(x, Flt):
                if self.int_floats and x.t[0] != "c":
                    a = self.flt_int(st, x)
                    if a is not None:
                        return [(st, Flt(("i2f", (-a).key(), -a)))]
                return [(st, Flt(fold_f1("neg", x.t)))]
        if u == "PtrMetadata":
            if isinstance(x, Ref):
                tgt = x.val if x.key is None else self.deref(st, x)
                if isinstance(tgt, Str):
                    return [(st, Int(tgt.len, dest_tid))]
                if isinstance(tgt, Arr):
                    return [(st, Int(Lin.const(len(tgt.els)), dest_tid))]
            return [(st, self.fresh(dest_tid, ("len", self.term(x))))]
        return [(st, self.fresh(dest_tid, ("un", u, self.term(x))))]

    def cast(self, st, fr, ck, x, src_tid, tid):
        t = self.types[tid]
        if ck == "IntToInt":
            if isinstance(x, Bool):
                # bool as integer
                if x.c == TRUE:
                    return [(st, Int(Lin.const(1), tid))]
                if x.c == FALSE:
                    return [(st, Int(Lin.const(0), tid))]
                out = []
                ts, fs = self.branch(st, x.c)
                return [(s, Int(Lin.const(1), tid)) for s in ts] + [(s, Int(Lin.const(0), tid)) for s in fs]
            if isinstance(x, Int):
                out = []
                for s2, res, ov in self.wrap_split(st, x.lin, tid, "cast"):
                    if ov:
                        self.event(s2, "lossy_cast", "integer cast %s -> %s changes the value" % (
                            self.F.ty_s(src_tid) if src_tid is not None else "?", self.F.ty_s(tid)))
                    out.append((s2, Int(res, tid)))
                return out
        if ck == "IntToFloat":
            if isinstance(x, Int):
                c = self.const_of(st, x)
                if c is not None:
                    return [(st, Flt(("c", float(c))))]
                obs = getattr(self, "i2f_observer", None)
                if obs is not None:
                    obs(st, x)
                return [(st, Flt(("i2f", x.lin.key(), x.lin)))]
            if isinstance(x, Bool):
                return [(st, Flt(("b2f", _ckey(x.c))))]
        if ck == "FloatToInt":
            if isinstance(x, Flt):
                lo, hi = self.int_range(tid)
                if x.t[0] == "c":
                    f = x.t[1]
                    if f != f:
                        v = 0
                    elif f == math.inf:
                        v = hi
                    elif f == -math.inf:
                        v = lo
                    else:
                        v = max(lo, min(hi, int(f)))
                    return [(st, Int(Lin.const(v), tid))]
                if x.t[0] == "i2f":
                    # round trip of an integer through f64: exact only below 2^53
                    l0, h0 = self.fm_bounds(st, x.t[2])
                    if -(1 << 53) <= l0 and h0 <= (1 << 53) and l0 >= lo and h0 <= hi:
                        return [(st, Int(x.t[2], tid))]
                    if self.int_floats:
                        self.event(st, "lossy_cast", "float -> %s cast of an integer-valued double that may lie outside the target range [%s, %s]" % (
                            self.F.ty_s(tid), l0, h0))
                v = self.fresh(tid, ("f2i", x.t))
                return [(st, v)]
        if ck == "FloatToFloat":
            return [(st, x)]
        if ck.startswith("PointerCoercion") or ck in ("PtrToPtr", "Transmute", "Subtype"):
            if ck == "Transmute" and isinstance(x, Int) and self.types[tid]["k"] in ("int", "char"):
                return self.cast(st, fr, "IntToInt", x, src_tid, tid)
            return [(st, x)]
        return [(st, self.fresh(tid, ("cast", ck, self.term(x))))]

    # ---------------------------------------------------------------- execution
    def run(self, fn, args=None, st=None, arg_names=None):
        """Explore every path of `fn` from symbolic (or given) arguments.
        -> list of final states (st.end in return/panic/limit/unreachable, st.ret = value)."""
        self._pending_cells = []
        if st is None:
            self.reset()
            st = St()
        self.nfid += 1
        if fn.get("local"):
            COVERED.add(fn["key"])
        fr = Frame(fn, self.nfid)
        st.frames = [fr]
        n = fn["arg_count"]
        self.cell_tids = getattr(self, "cell_tids", {})
        if args is None:
            args = []
            for i in range(1, n + 1):
                nm = fn["locals"][i].get("name") or ("arg%d" % i)
                if arg_names:
                    nm = arg_names[i - 1]
                self._pending_cells = []
                v = self.sym(fn["locals"][i]["ty"], nm)
                for k2, inner in self._pending_cells:
                    st.store[k2] = inner
                args.append(v)
        for i, a in enumerate(args):
            st.store[(fr.fid, i + 1)] = a
        return self.explore(st)

    def explore(self, st0):
        finals = []
        stack = [st0]
        while stack:
            st = stack.pop()
            if len(finals) + len(stack) > self.max_paths:
                st.end = "limit"
                self.event(st, "limit", "path limit")
                finals.append(st)
                for s in stack:
                    s.end = "limit"
                    finals.append(s)
                break
            # run this state until it ends or forks
            while True:
                if st.end is not None:
                    finals.append(st)
                    break
                st.steps += 1
                self.stats["steps"] += 1
                if st.steps > self.max_steps:
                    st.end = "limit"
                    self.event(st, "limit", "step limit (unbounded loop?)")
                    finals.append(st)
                    break
                nxt = self.step(st)
                if len(nxt) == 1:
                    st = nxt[0]
                    continue
                stack.extend(nxt)
                break
        self.stats["paths"] += len(finals)
        return finals

    def step(self, st):
        fr = st.frames[-1]
        blk = fr.fn["blocks"][fr.bb]
        if fr.si < len(blk["s"]):
            s = blk["s"][fr.si]
            fr.si += 1
            if s["k"] == "a":
                p = s["p"]
                dest_tid = self.place_tid(fr, p)
                if self.index_split:
                    sp = self._split_on_index(st, fr, s)
                    if sp is not None:
                        return sp
                res = self.rvalue(st, fr, s["r"], dest_tid)
                out = []
                for s2, v in res:
                    self.write_place(s2, s2.frames[-1], p, v)
                    out.append(s2)
                return out
            if s["k"] == "setdiscr":
                v = self.read_place(st, fr, s["p"])
                tid = self.place_tid(fr, s["p"])
                fs = v.fs if isinstance(v, Enum) and v.vi == s["variant"] else ()
                self.write_place(st, fr, s["p"], Enum(tid, s["variant"], fs))
            return [st]
        return self.terminator(st, fr, blk["t"])

    def _split_on_index(self, st, fr, s):
        """`TABLE[i]` read with an index that is not a constant on this path but ranges over a few values (`ALL[u % 7]`): the path
        is split by the value of the index, so that the element read is the table's own entry instead of an unknown.  Returns the
        split states (the statement is re-executed on each) or None."""
        def idx_locals(o):
            out = []
            if isinstance(o, dict):
                for k in ("cp", "mv"):
                    pl = o.get(k)
                    if isinstance(pl, dict):
                        out += [e["idx"] for e in pl.get("pj", []) if isinstance(e, dict) and "idx" in e]
            return out
        r = s["r"]
        cands = []
        for key in ("x", "l", "r"):
            if key in r:
                cands += idx_locals(r[key])
        for x in r.get("xs", []) or []:
            cands += idx_locals(x)
        if r.get("op") == "ref" and isinstance(r.get("p"), dict):
            cands += [e["idx"] for e in r["p"].get("pj", []) if isinstance(e, dict) and "idx" in e]
        for l in cands:
            iv = st.store.get((fr.fid, l))
            if not isinstance(iv, Int) or self.const_of(st, iv) is not None:
                continue
            lo, hi = self.fm_bounds(st, iv.lin)
            if lo == -INF or hi == INF or hi - lo > 16 or hi - lo < 1:
                continue
            out = []
            for v in range(int(lo), int(hi) + 1):
                for s2 in self.assume(st.clone(), c_lin("eq", iv.lin - v)):
                    s2.frames[-1].si -= 1  # re-execute the statement with the index decided
                    out.append(s2)
            if out:
                return out
        return None

    def place_tid(self, fr, p):
        tid = self.local_tid(fr, p["l"])
        for e in p["pj"]:
            if e == "deref":
                tid = self.types[tid].get("to", tid)
            elif isinstance(e, dict) and "ty" in e:
                tid = e["ty"]
            elif isinstance(e, dict) and ("idx" in e or "cidx" in e):
                tid = self.types[tid].get("elem", tid)
        return tid

    def goto(self, st, bb):
        fr = st.frames[-1]
        if self.max_block_visits is not None and bb <= fr.bb:
            # backward jump: bound the number of times one path may re-enter a block of this frame (exploration cut-off used by
            # analyses that only need what happens before a non-iterator loop; the path ends as "cut", never as a verdict)
            k = ("visits", fr.fid, bb)
            n = st.facts_extra.get(k, 0) + 1
            st.facts_extra[k] = n
            if n > self.max_block_visits:
                st.end = "cut"
        fr.bb = bb
        fr.si = 0
        return st

    def terminator(self, st, fr, t):
        k = t["k"]
        if k == "goto":
            return [self.goto(st, t["t"])]
        if k == "drop":
            return [self.goto(st, t["t"])]
        if k == "return":
            return self.do_return(st)
        if k == "switch":
            x = self.operand(st, fr, t["x"])
            return self.switch(st, fr, t, x)
        if k == "assert":
            return self.do_assert(st, fr, t)
        if k == "call":
            return self.call(st, fr, t)
        if k == "unreachable":
            st.end = "unreachable"
            self.event(st, "unreachable", "MIR Unreachable terminator reached")
            return [st]
        st.end = "limit"
        self.event(st, "limit", "unsupported terminator %s" % k)
        return [st]

    def switch(self, st, fr, t, x):
        if isinstance(x, Bool):
            # vals is [[0, bbF]] else bbT
            tgt_false = None
            for v, bb in t["vals"]:
                if v == 0:
                    tgt_false = bb
            tgt_true = t["else"]
            if tgt_false is None:
                # switch on bool with 1: bbT
                for v, bb in t["vals"]:
                    if v == 1:
                        tgt_true = bb
                tgt_false = t["else"]
            bb0 = fr.bb
            ts, fs = self.branch(st, x.c, label=(fr.fn["key"], fr.bb))
            out = []
            for s in ts:
                s.frames[-1].dec = s.frames[-1].dec + ((bb0, tgt_true),)
                out.append(self.goto(s, tgt_true))
            for s in fs:
                s.frames[-1].dec = s.frames[-1].dec + ((bb0, tgt_false),)
                out.append(self.goto(s, tgt_false))
            return out
        if isinstance(x, Int):
            c = self.const_of(st, x)
            tid = t["ty"]
            lo, hi = self.int_range(tid)
            vals = []
            for v, bb in t["vals"]:
                # switch values are u128 bit patterns of the discriminant type
                if hi != INF and v > hi:
                    v -= (hi - lo + 1)
                vals.append((v, bb))
            bb0 = fr.bb
            if c is not None:
                for v, bb in vals:
                    if v == c:
                        fr.dec = fr.dec + ((bb0, bb),)
                        return [self.goto(st, bb)]
                fr.dec = fr.dec + ((bb0, t["else"]),)
                return [self.goto(st, t["else"])]
            out = []
            other = st.clone()
            if self.group_switch:
                # one successor state per target block: hull of its values minus the holes
                groups = {}
                for v, bb in vals:
                    groups.setdefault(bb, []).append(v)
                for bb, vs in groups.items():
                    vs.sort()
                    cnd = c_and(c_lin("ge", x.lin - vs[0]), c_lin("le", x.lin - vs[-1]))
                    for h in range(vs[0], vs[-1] + 1):
                        if h not in vs:
                            cnd = c_and(cnd, c_lin("ne", x.lin - h))
                    for s2 in self.assume(st.clone(), cnd, label=(fr.fn["key"], fr.bb, vs[0])):
                        s2.frames[-1].dec = s2.frames[-1].dec + ((bb0, bb),)
                        out.append(self.goto(s2, bb))
                vals_iter = []
                for v, bb in vals:
                    ss = self.assume(other, c_lin("ne", x.lin - v))
                    if not ss:
                        other = None
                        break
                    other = ss[0]
            else:
                vals_iter = vals
            for v, bb in vals_iter:
                for s2 in self.assume(st.clone(), c_lin("eq", x.lin - v), label=(fr.fn["key"], fr.bb, v)):
                    s2.frames[-1].dec = s2.frames[-1].dec + ((bb0, bb),)
                    out.append(self.goto(s2, bb))
                ss = self.assume(other, c_lin("ne", x.lin - v))
                if not ss:
                    other = None
                    break
                other = ss[0]
            if other is not None:
                # is the otherwise edge feasible at all?
                if self._feasible_with(other, []) and feasible(other.cons, other.bnd):
                    other.trace.append((fr.fn["key"], bb0, "else"))
                    other.frames[-1].dec = other.frames[-1].dec + ((bb0, t["else"]),)
                    out.append(self.goto(other, t["else"]))
            return out
        # unknown discriminant: explore every edge (sound over-approximation), recording the choice
        out = []
        tg = [(v, bb) for v, bb in t["vals"]] + [("else", t["else"])]
        for i, (v, bb) in enumerate(tg):
            s = st if i == len(tg) - 1 else st.clone()
            s.opq.append((("switch", self.term(x), v), True))
            s.trace.append((fr.fn["key"], fr.bb, v))
            out.append(self.goto(s, bb))
        return out

    def do_assert(self, st, fr, t):
        self.stats["asserts"] += 1
        site = (fr.fn["key"], fr.bb, t["msg"])
        ss = self.site_stats.setdefault(site, {"seen": 0, "failed": 0, "span": self.F.span(t.get("sp"))})
        ss["seen"] += 1
        optional = t["msg"].startswith("Overflow")
        c = self.operand(st, fr, t["cond"])
        if not isinstance(c, Bool):
            c = Bool(("opq-assert", self.term(c)))
        cond = c.c if t["expected"] else c_not(c.c)
        if cond == TRUE:
            self.stats["asserts_const"] += 1
        oks, bads = self.branch(st, cond)
        out = [self.goto(s, t["t"]) for s in oks]
        for s in bads:
            ss["failed"] += 1
            if optional and not self.overflow_panics:
                # release semantics: the check is compiled out, the value has wrapped
                self.event(s, "wrap", "arithmetic overflow wraps silently (%s)" % t["msg"], op=t["msg"])
                out.append(self.goto(s, t["t"]))
            else:
                s.end = "panic"
                self.event(s, "panic", t["msg"], site=site)
                out.append(s)
        return out

    def do_return(self, st):
        fr = st.frames.pop()
        st.trace.append(("ret", fr.fn["key"], fr.dec))
        key0 = (fr.fid, 0)
        v = st.store.get(key0)
        if v is None:
            tid0 = fr.fn["locals"][0]["ty"]
            t0 = self.types[tid0]
            if t0["k"] == "tuple" and not t0["elems"]:
                v = Struct(tid0, [])
            else:
                v = self.fresh(tid0, ("uninit-ret", fr.fn["key"], fr.fid))
        if isinstance(v, SymEnum) and v.name in st.enum_ref:
            v = st.enum_ref[v.name]
        # remember local types of dead frames (refs into them may outlive the frame in store)
        self.dead_tids = getattr(self, "dead_tids", {})
        if not st.frames:
            st.ret = v
            st.end = "return"
            st.frames = []
            return [st]
        # free callee locals that cannot be referenced any more (keep those reachable via refs: cheap
        # approximation - keep everything of frames that handed out refs; else drop)
        for key in [k for k in st.store if k[0] == fr.fid]:
            self.dead_tids[key] = fr.fn["locals"][key[1]]["ty"]
        caller = st.frames[-1]
        if fr.dest is not None:
            self.write_place(st, caller, fr.dest, v)
        if fr.ret_bb is None:
            st.end = "panic"
            self.event(st, "panic", "call to diverging function returned?")
            return [st]
        self.goto(st, fr.ret_bb)
        return [st]

    # ---------------------------------------------------------------- calls
    def _untuple(self, callee, tup, n):
        """Closure bodies take their arguments spread; the Fn* call passes them as one tuple."""
        if n != 2:
            return True
        if not isinstance(tup, Struct) or len(tup.fs) != 1:
            return False
        # one declared parameter: spread unless that parameter itself has the tuple's type
        return tup.tid is None or callee["locals"][2]["ty"] != tup.tid

    def call(self, st, fr, t):
        c = t["f"]
        args = [self.operand(st, fr, a) for a in t["args"]]
        dest = t["dest"]
        dest_tid = self.place_tid(fr, dest)
        if c.get("kind") == "fnptr_shim" and len(args) == 2 and c.get("targs"):
            # `f.call_once((a, b))` where f is a function item (`opt.map_or(d, Self::from_total_nanoseconds)`): a call of that function,
            # dispatched like a direct call (hooks on the function apply)
            ft = self.types[c["targs"][0]] if c["targs"][0] is not None else None
            if ft and ft.get("k") == "fndef" and isinstance(args[1], Struct):
                if not hasattr(self, "_fn_by_path"):
                    self._fn_by_path = {}
                    for g in self.F.fns:
                        if g and "blocks" in g and g.get("def_kind") != "Closure":
                            self._fn_by_path.setdefault(g.get("path"), []).append(g)
                cands = self._fn_by_path.get(ft.get("path")) or []
                if len(cands) == 1 and cands[0]["arg_count"] == len(args[1].fs):
                    g = cands[0]
                    c = {"fn_id": g["id"], "path": g["path"], "decl_path": g["path"], "inst": ft.get("s"), "local": bool(g.get("local")), "kind": "item"}
                    args = list(args[1].fs)
        path = norm_path(c.get("path") or c.get("decl_path") or "")
        name = c.get("inst") or c.get("decl") or c.get("kind")
        # 1. rule-specific hooks, then std models
        res = None
        m = self.hooks_by_id.get(c.get("fn_id")) if c.get("fn_id") is not None else None
        for suf, h in (self.hooks.items() if m is None else ()):
            if path == suf or path.endswith("::" + suf) or name == suf:
                m = h
                break
        if m is None:
            m = self.models.get(path)
        if m is None and c.get("intrinsic"):
            m = self.models.get("intrinsic::" + c["intrinsic"])
        if m is not None:
            res = m(self, st, c, args, dest_tid, t)
            if (res is NotImplemented or res is None) and m is not self.models.get(path) and self.models.get(path) is not None:
                res = self.models[path](self, st, c, args, dest_tid, t)  # a declining hook leaves the call to the std model
            if res is not NotImplemented and res is not None:
                self.stats["calls_modelled"] += 1
                return self.finish_call(res, t)
        # 2. diverging call without model: a panic site
        if t["t"] is None and "fn_id" not in c:
            st.end = "panic"
            self.event(st, "panic", "call %s" % name, callee=path, macro=t.get("macro"))
            return [st]
        # 3. uninterpreted by policy (a call of a closure of the analysed crate through the Fn* traits is local code, whatever
        #    the policy says about the library function that makes the call)
        local_closure = False
        if c.get("kind") == "closure_once_shim" and c.get("closure_fn_id") is not None:
            cb = self.F.fns[c["closure_fn_id"]]
            local_closure = bool(cb and cb.get("local") and "blocks" in cb)
        if not local_closure and self.opaque is not None and self.opaque(c):
            self.stats["calls_opaque"] += 1
            v = self.fresh(dest_tid, ("call", name, tuple(self.term(a) for a in args)))
            st.trace.append(("opaque-call", name))
            return self.finish_call([(st, v)], t)
        # 4. inline
        fid = c.get("fn_id")
        if fid is None and c.get("kind") == "closure_once_shim":
            fid = c.get("closure_fn_id")
        if fid is not None:
            callee = self.F.fns[fid]
            if callee is not None and "blocks" in callee:
                if len(st.frames) >= self.max_depth:
                    self.event(st, "limit", "inlining depth")
                    st.end = "limit"
                    return [st]
                self.stats["calls_inlined"] += 1
                if callee.get("local"):
                    COVERED.add(callee["key"])
                self.nfid += 1
                nf = Frame(callee, self.nfid, dest=dest, ret_bb=t["t"])
                n = callee["arg_count"]
                if callee.get("def_kind") == "Closure" and len(args) == 2 and self._untuple(callee, args[1], n):
                    tup = args[1]
                    if isinstance(tup, Struct):
                        args = [args[0]] + list(tup.fs)
                    if c.get("kind") == "closure_once_shim":
                        pass
                if c.get("kind") == "closure_once_shim":
                    # closure passed by value but the body takes it by reference
                    self.ncell += 1
                    key = ("cell", self.ncell, "closure-env")
                    st.store[key] = args[0]
                    args = [Ref(key=key)] + args[1:]
                    if len(args) == 2 and isinstance(args[1], Struct) and self._untuple(callee, args[1], n):
                        args = [args[0]] + list(args[1].fs)
                st.frames.append(nf)
                for i, a in enumerate(args[:n]):
                    st.store[(nf.fid, i + 1)] = a
                return [st]
        # 5. unknown callee: havoc the result, record it (rules decide whether that is acceptable)
        self.stats["calls_unmodelled"] += 1
        self.event(st, "unmodelled", "call %s" % name, callee=path)
        if t["t"] is None:
            st.end = "panic"
            return [st]
        v = self.fresh(dest_tid, ("call", name, tuple(self.term(a) for a in args)))
        return self.finish_call([(st, v)], t)

    def subcall(self, st, fn, args):
        """Run `fn` (a MIR body, typically a closure handed to a modelled library function) to completion from inside a model.
        -> (returned: [(state, value)], ended: [states that panicked / hit a limit inside])."""
        saved = st.frames
        self.nfid += 1
        if fn.get("local"):
            COVERED.add(fn["key"])
        fr = Frame(fn, self.nfid)
        st.frames = [fr]
        for i, a in enumerate(args[:fn["arg_count"]]):
            st.store[(fr.fid, i + 1)] = a
        returned, ended = [], []
        for s in self.explore(st):
            if s.end == "return":
                v = s.ret
                s.end, s.ret = None, None
                s.frames = [f.copy() for f in saved]
                returned.append((s, v))
            else:
                s.frames = [f.copy() for f in saved] + s.frames
                ended.append(s)
        return returned, ended

    def closure_fn(self, v):
        """MIR body of a closure value (None if v is not a closure with a body)."""
        if isinstance(v, Ref):
            return None
        t = self.types[v.tid] if isinstance(v, Struct) and v.tid is not None else None
        if t and t.get("k") == "closure":
            if not hasattr(self, "_closure_by_path"):
                self._closure_by_path = {f["path"]: f for f in self.F.fns if f and f.get("def_kind") == "Closure" and "blocks" in f}
            return self._closure_by_path.get(t.get("path"))
        return None

    def finish_call(self, res, t):
        out = []
        for item in res:
            s2, v = item[0], item[1]
            if s2.end is not None:
                out.append(s2)
                continue
            if v is DIVERGE or t["t"] is None:
                s2.end = "panic"
                out.append(s2)
                continue
            fr = s2.frames[-1]
            self.write_place(s2, fr, t["dest"], v)
            out.append(self.goto(s2, t["t"]))
        return out

    # helpers for models ---------------------------------------------------------------
    def mk_option(self, tid, v):
        """Option value of type tid: None if v is None else Some(v)"""
        if v is None:
            return Enum(tid, 0, ())
        return Enum(tid, 1, (v,))

    def variant_index(self, tid, name):
        for i, v in enumerate(self.types[tid]["variants"]):
            if v["name"] == name:
                return i
        raise KeyError(name)

    def deref(self, st, v):
        """Value behind a reference."""
        if isinstance(v, Ref):
            if v.key is None:
                return v.val
            base = self.read_key(st, v.key)
            bt = self.key_tid(st, v.key)
            if base is None:
                return None
            if v.proj:
                base, _ = self.proj_read(st, base, v.proj, bt)
            if isinstance(base, SymEnum) and base.name in st.enum_ref:
                base = st.enum_ref[base.name]
            return base
        return None


DIVERGE = object()


def norm_path(p):
    return p.replace("std::", "core::").replace("alloc::", "core::")


def _pkey(e):
    if isinstance(e, dict):
        return tuple(sorted(e.items()))
    return e


def _punkey(e):
    if isinstance(e, tuple):
        return dict(e)
    return e


def _jkey(v):
    if isinstance(v, dict):
        return tuple((k, _jkey(x)) for k, x in sorted(v.items()))
    if isinstance(v, list):
        return tuple(_jkey(x) for x in v)
    return v


def _ckey(c):
    out = []
    for x in c:
        if isinstance(x, Lin):
            out.append(x.key())
        elif isinstance(x, tuple):
            out.append(_ckey(x))
        else:
            out.append(x)
    return tuple(out)


def fold_f(op, a, b):
    if a[0] == "c" and b[0] == "c":
        x, y = a[1], b[1]
        try:
            if op == "Add":
                return ("c", x + y)
            if op == "Sub":
                return ("c", x - y)
            if op == "Mul":
                return ("c", x * y)
            if op == "Div":
                if y == 0.0:
                    if x == 0.0 or x != x:
                        return ("c", math.nan)
                    return ("c", math.copysign(math.inf, x) * math.copysign(1.0, y))
                return ("c", x / y)
            if op == "Rem":
                return ("c", math.fmod(x, y)) if y != 0.0 and not math.isinf(x) else ("c", math.nan)
        except OverflowError:
            return ("c", math.inf)
    return ("op", op, a, b)


def fold_f1(op, a):
    if a[0] == "c":
        x = a[1]
        try:
            if op == "neg":
                return ("c", -x)
            if op == "abs":
                return ("c", abs(x))
            if op == "floor":
                return ("c", float(math.floor(x))) if math.isfinite(x) else ("c", x)
            if op == "ceil":
                return ("c", float(math.ceil(x))) if math.isfinite(x) else ("c", x)
            if op == "trunc":
                return ("c", float(math.trunc(x))) if math.isfinite(x) else ("c", x)
            if op == "round":
                if not math.isfinite(x):
                    return ("c", x)
                return ("c", math.copysign(float(math.floor(abs(x) + 0.5)), x))
            if op == "sin":
                return ("c", math.sin(x)) if math.isfinite(x) else ("c", math.nan)
        except (OverflowError, ValueError):
            pass
    return ("op1", op, a)
