"""Summaries of std/core callees used by the trace-partitioned interpreter (sym.py).

Every model is a *sound over-approximation with exact case splits*: the cases a primitive can
take (fits / overflows high / overflows low, Some / None ...) are enumerated and each case adds
the linear constraint that characterises it.  Trusted base: this file (listed in evidence).
"""
import re
import math
from .lin import Lin, INF, interval
from .sym import (Int, Bool, Flt, Struct, Enum, SymEnum, Ref, Str, Arr, Opq, FnV, TRUE, FALSE, c_lin, c_and, c_or,
                  c_not, fold_f1, fold_f, DIVERGE)

INT_TYS = ["i8", "i16", "i32", "i64", "i128", "isize", "u8", "u16", "u32", "u64", "u128", "usize"]


def install(eng):
    M = eng.models
    for ty in INT_TYS:
        p = "core::num::<impl %s>::" % ty
        M[p + "checked_add"] = mk_checked("add")
        M[p + "checked_sub"] = mk_checked("sub")
        M[p + "checked_mul"] = mk_checked("mul")
        M[p + "saturating_add"] = mk_saturating("add")
        M[p + "saturating_sub"] = mk_saturating("sub")
        M[p + "saturating_mul"] = mk_saturating("mul")
        M[p + "saturating_div"] = m_saturating_div
        M[p + "saturating_abs"] = m_saturating_abs
        M[p + "wrapping_add"] = mk_wrapping("add")
        M[p + "wrapping_sub"] = mk_wrapping("sub")
        M[p + "wrapping_mul"] = mk_wrapping("mul")
        M[p + "abs"] = m_abs
        M[p + "unsigned_abs"] = m_unsigned_abs
        M[p + "signum"] = m_signum
        M[p + "is_negative"] = m_is_negative
        M[p + "is_positive"] = m_is_positive
        M[p + "div_euclid"] = m_div_euclid
        M[p + "rem_euclid"] = m_rem_euclid
        M[p + "pow"] = m_pow
        M[p + "checked_pow"] = m_checked_pow
    p = "core::f64::<impl f64>::"
    for name in ("abs", "floor", "ceil", "round", "trunc", "sin", "cos", "sqrt"):
        M[p + name] = mk_f1(name)
    M[p + "powi"] = m_powi
    M[p + "is_finite"] = mk_fpred("is_finite")
    M[p + "is_nan"] = mk_fpred("is_nan")
    M[p + "is_infinite"] = mk_fpred("is_infinite")
    M["core::str::<impl str>::len"] = m_str_len
    M["core::str::<impl str>::is_empty"] = m_str_is_empty
    M["core::str::<impl str>::trim"] = m_str_trim
    M["core::str::traits::<impl core::cmp::PartialEq for str>::eq"] = m_str_eq
    M["core::intrinsics::cold_path"] = m_unit
    M["intrinsic::cold_path"] = m_unit
    M["core::hint::must_use"] = m_identity
    M["core::mem::swap"] = m_swap
    M["core::ops::RangeInclusive::<Idx>::contains"] = m_range_incl_contains
    M["core::iter::range::<impl core::iter::Iterator for core::ops::Range<A>>::next"] = m_range_next
    M["core::clone::Clone::clone"] = NotImplementedModel
    install_fmt(eng)
    install_iters(eng)
    M["core::slice::<impl [T]>::len"] = m_slice_len
    M["core::slice::<impl [T]>::get"] = m_slice_get
    M["core::array::<impl core::ops::Index<I> for [T; N]>::index"] = m_array_index
    M["core::slice::index::<impl core::ops::Index<I> for [T]>::index"] = m_array_index


def NotImplementedModel(*a):
    return NotImplemented


def _int2(args):
    a, b = args[0], args[1]
    if isinstance(a, Int) and isinstance(b, Int):
        return a, b
    import os
    if os.environ.get("HV_DEBUG"):
        print("INT2", repr(a), repr(b))
    return None


def _exact(eng, st, op, a, b):
    if op == "add":
        return a.lin + b.lin
    if op == "sub":
        return a.lin - b.lin
    if a.lin.is_const():
        return b.lin.scale(a.lin.k)
    if b.lin.is_const():
        return a.lin.scale(b.lin.k)
    return eng.product(st, a.lin, b.lin)


def mk_checked(op):
    def m(eng, st, c, args, dest_tid, t):
        ab = _int2(args)
        if ab is None:
            return NotImplemented
        a, b = ab
        exact = _exact(eng, st, op, a, b)
        out = []
        for s2, res, ov in eng.wrap_split(st, exact, a.tid, "checked_" + op):
            s2.trace.append(("checked_" + op, "None" if ov else "Some"))
            out.append((s2, eng.mk_option(dest_tid, None if ov else Int(res, a.tid))))
        return out

    return m


def mk_wrapping(op):
    def m(eng, st, c, args, dest_tid, t):
        ab = _int2(args)
        if ab is None:
            return NotImplemented
        a, b = ab
        exact = _exact(eng, st, op, a, b)
        return [(s2, Int(res, a.tid)) for s2, res, ov in eng.wrap_split(st, exact, a.tid, "wrapping_" + op)]

    return m


def mk_saturating(op):
    def m(eng, st, c, args, dest_tid, t):
        ab = _int2(args)
        if ab is None:
            return NotImplemented
        a, b = ab
        exact = _exact(eng, st, op, a, b)
        lo, hi = eng.int_range(a.tid)
        out = []
        for cond, val, lab in (
            (c_and(c_lin("ge", exact - lo), c_lin("le", exact - hi)), exact, "fits"),
            (c_lin("gt", exact - hi), Lin.const(hi), "sat-high"),
            (c_lin("lt", exact - lo), Lin.const(lo), "sat-low"),
        ):
            for s2 in eng.assume(st.clone(), cond):
                s2.trace.append(("saturating_" + op, lab))
                out.append((s2, Int(val, a.tid)))
        return out

    return m


def m_saturating_div(eng, st, c, args, dest_tid, t):
    ab = _int2(args)
    if ab is None:
        return NotImplemented
    a, b = ab
    lo, hi = eng.int_range(a.tid)
    out = []
    # b == 0 panics (division by zero)
    zs, nzs = eng.branch(st, c_lin("eq", b.lin))
    for s in zs:
        s.end = "panic"
        eng.event(s, "panic", "saturating_div by zero")
        out.append((s, DIVERGE))
    for s in nzs:
        # MIN / -1 saturates to MAX; otherwise truncating division
        if lo < 0:
            sat, rest = eng.branch(s, c_and(c_lin("eq", a.lin - lo), c_lin("eq", b.lin + 1)))
            for s2 in sat:
                out.append((s2, Int(Lin.const(hi), a.tid)))
        else:
            rest = [s]
        for s2 in rest:
            for s3, v in eng.divrem(s2, "Div", a, b, a.tid):
                out.append((s3, v))
    return out


def m_saturating_abs(eng, st, c, args, dest_tid, t):
    a = args[0]
    if not isinstance(a, Int):
        return NotImplemented
    lo, hi = eng.int_range(a.tid)
    out = []
    for cond, val in (
        (c_lin("ge", a.lin), a.lin),
        (c_and(c_lin("lt", a.lin), c_lin("gt", a.lin - lo)), -a.lin),
        (c_lin("eq", a.lin - lo), Lin.const(hi)),
    ):
        for s2 in eng.assume(st.clone(), cond):
            out.append((s2, Int(val, a.tid)))
    return out


def m_abs(eng, st, c, args, dest_tid, t):
    """iN::abs: #[rustc_inherit_overflow_checks] - MIN panics with overflow checks, wraps without."""
    a = args[0]
    if not isinstance(a, Int):
        return NotImplemented
    lo, hi = eng.int_range(a.tid)
    out = []
    for s2 in eng.assume(st.clone(), c_lin("ge", a.lin)):
        out.append((s2, Int(a.lin, a.tid)))
    for s2 in eng.assume(st.clone(), c_and(c_lin("lt", a.lin), c_lin("gt", a.lin - lo))):
        out.append((s2, Int(-a.lin, a.tid)))
    for s2 in eng.assume(st.clone(), c_lin("eq", a.lin - lo)):
        if eng.overflow_panics:
            s2.end = "panic"
            eng.event(s2, "panic", "Overflow(Neg) in %s" % (c.get("inst") or "abs"), callee="abs")
            out.append((s2, DIVERGE))
        else:
            eng.event(s2, "wrap", "abs(MIN) wraps silently", op="abs")
            out.append((s2, Int(Lin.const(lo), a.tid)))
    return out


def m_unsigned_abs(eng, st, c, args, dest_tid, t):
    a = args[0]
    if not isinstance(a, Int):
        return NotImplemented
    out = []
    for s2 in eng.assume(st.clone(), c_lin("ge", a.lin)):
        out.append((s2, Int(a.lin, dest_tid)))
    for s2 in eng.assume(st.clone(), c_lin("lt", a.lin)):
        out.append((s2, Int(-a.lin, dest_tid)))
    return out


def m_signum(eng, st, c, args, dest_tid, t):
    a = args[0]
    if not isinstance(a, Int):
        return NotImplemented
    out = []
    for cond, v in ((c_lin("gt", a.lin), 1), (c_lin("eq", a.lin), 0), (c_lin("lt", a.lin), -1)):
        for s2 in eng.assume(st.clone(), cond):
            out.append((s2, Int(Lin.const(v), a.tid)))
    return out


def m_is_negative(eng, st, c, args, dest_tid, t):
    a = args[0]
    if not isinstance(a, Int):
        return NotImplemented
    return [(st, Bool(c_lin("lt", a.lin)))]


def m_is_positive(eng, st, c, args, dest_tid, t):
    a = args[0]
    if not isinstance(a, Int):
        return NotImplemented
    return [(st, Bool(c_lin("gt", a.lin)))]


def _euclid(eng, st, a, b, which):
    """a = q*b + r, 0 <= r < |b| for constant non-zero b (symbolic b: uninterpreted with range facts)."""
    bc = eng.const_of(st, b)
    ac = eng.const_of(st, a)
    lo, hi = eng.int_range(a.tid)
    if bc is not None and bc != 0:
        if ac is not None:
            r = ac % abs(bc)
            q = (ac - r) // bc
            return [(st, Int(Lin.const(q if which == "div" else r), a.tid))]
        q = eng.atom("ediv(%r,%d)" % (a.lin, bc), lo, hi, "ediv", (a.lin, bc))
        r = eng.atom("erem(%r,%d)" % (a.lin, bc), 0, abs(bc) - 1, "erem", (a.lin, bc))
        eng.add_cons(st, [(a.lin - Lin({q: bc, r: 1}), "==")])
        return [(st, Int(Lin.atom(q if which == "div" else r), a.tid))]
    # symbolic divisor
    out = []
    zs, nzs = eng.branch(st, c_lin("eq", b.lin))
    for s in zs:
        s.end = "panic"
        eng.event(s, "panic", "%s_euclid by zero" % which)
        out.append((s, DIVERGE))
    for s in nzs:
        if which == "div":
            q = eng.atom("ediv(%r,%r)" % (a.lin, b.lin), lo, hi, "edivs", (a.lin, b.lin))
            out.append((s, Int(Lin.atom(q), a.tid)))
        else:
            r = eng.atom("erem(%r,%r)" % (a.lin, b.lin), 0, hi, "erems", (a.lin, b.lin))
            rl = Lin.atom(r)
            for s2 in eng.assume(s.clone(), c_lin("gt", b.lin)):
                eng.add_cons(s2, [(rl - b.lin + 1, "<=")])
                out.append((s2, Int(rl, a.tid)))
            for s2 in eng.assume(s.clone(), c_lin("lt", b.lin)):
                eng.add_cons(s2, [(rl + b.lin + 1, "<=")])
                out.append((s2, Int(rl, a.tid)))
    return out


def m_div_euclid(eng, st, c, args, dest_tid, t):
    ab = _int2(args)
    if ab is None:
        return NotImplemented
    return _euclid(eng, st, ab[0], ab[1], "div")


def m_rem_euclid(eng, st, c, args, dest_tid, t):
    ab = _int2(args)
    if ab is None:
        return NotImplemented
    return _euclid(eng, st, ab[0], ab[1], "rem")


def m_pow(eng, st, c, args, dest_tid, t):
    """iN::pow (inherits overflow checks).  Constant base with a bounded exponent is enumerated."""
    a, e = args[0], args[1]
    if not (isinstance(a, Int) and isinstance(e, Int)):
        return NotImplemented
    ac = eng.const_of(st, a)
    elo, ehi = eng.fm_bounds(st, e.lin)
    lo, hi = eng.int_range(a.tid)
    if ac is not None and elo != -INF and ehi != INF and ehi - elo <= 64:
        out = []
        for k in range(int(elo), int(ehi) + 1):
            for s2 in eng.assume(st.clone(), c_lin("eq", e.lin - k)):
                v = ac ** k
                if lo <= v <= hi:
                    out.append((s2, Int(Lin.const(v), a.tid)))
                elif eng.overflow_panics:
                    s2.end = "panic"
                    eng.event(s2, "panic", "Overflow(Mul) in %s" % (c.get("inst") or "pow"), callee="pow")
                    out.append((s2, DIVERGE))
                else:
                    eng.event(s2, "wrap", "pow wraps silently", op="pow")
                    m = hi - lo + 1
                    out.append((s2, Int(Lin.const((v - lo) % m + lo), a.tid)))
        return out
    # unknown: may overflow
    s_ok = st.clone()
    s_bad = st
    res = [(s_ok, eng.fresh(a.tid, ("pow", a.lin.key(), e.lin.key())))]
    if eng.overflow_panics:
        s_bad.end = "panic"
        eng.event(s_bad, "panic", "Overflow(Mul) in %s (exponent unbounded)" % (c.get("inst") or "pow"), callee="pow")
        res.append((s_bad, DIVERGE))
    else:
        eng.event(s_ok, "wrap", "pow may wrap silently", op="pow")
    return res


def m_checked_pow(eng, st, c, args, dest_tid, t):
    """iN::checked_pow with a constant base and a bounded exponent: enumerated; otherwise an arbitrary Option."""
    a, e = args[0], args[1]
    if not (isinstance(a, Int) and isinstance(e, Int)):
        return NotImplemented
    ac = eng.const_of(st, a)
    elo, ehi = eng.fm_bounds(st, e.lin)
    lo, hi = eng.int_range(a.tid)
    if ac is None or elo == -INF or ehi == INF or ehi - elo > 64:
        return NotImplemented
    out = []
    for k in range(int(elo), int(ehi) + 1):
        for s2 in eng.assume(st.clone(), c_lin("eq", e.lin - k)):
            v = ac ** k
            out.append((s2, eng.mk_option(dest_tid, Int(Lin.const(v), a.tid) if lo <= v <= hi else None)))
    return out


def mk_f1(name):
    def m(eng, st, c, args, dest_tid, t):
        a = args[0]
        if not isinstance(a, Flt):
            return NotImplemented
        return [(st, Flt(fold_f1(name, a.t)))]

    return m


def m_powi(eng, st, c, args, dest_tid, t):
    a, e = args[0], args[1]
    if not isinstance(a, Flt):
        return NotImplemented
    ec = eng.const_of(st, e) if isinstance(e, Int) else None
    if a.t[0] == "c" and ec is not None:
        try:
            return [(st, Flt(("c", float(a.t[1]) ** ec)))]
        except (OverflowError, ZeroDivisionError):
            return [(st, Flt(("c", math.inf)))]
    return [(st, Flt(("op", "powi", a.t, ("i", e.lin.key()) if isinstance(e, Int) else ("?",))))]


def mk_fpred(name):
    def m(eng, st, c, args, dest_tid, t):
        a = args[0]
        if not isinstance(a, Flt):
            return NotImplemented
        if a.t[0] == "c":
            x = a.t[1]
            r = {"is_finite": math.isfinite(x), "is_nan": x != x, "is_infinite": math.isinf(x)}[name]
            return [(st, Bool(TRUE if r else FALSE))]
        return [(st, Bool(("fpred", name, a.t)))]

    return m


def _str_of(eng, st, v):
    s = eng.deref(st, v) if isinstance(v, Ref) else v
    if isinstance(s, Ref):
        s = eng.deref(st, s)
    if isinstance(s, Str):
        if s.sym is not None and s.sym in st.str_eq:
            k = st.str_eq[s.sym]
            return Str(s=k, ln=Lin.const(len(k.encode())))
        return s
    return None


def m_str_len(eng, st, c, args, dest_tid, t):
    s = _str_of(eng, st, args[0])
    if s is None:
        return NotImplemented
    return [(st, Int(s.len, dest_tid))]


def m_str_is_empty(eng, st, c, args, dest_tid, t):
    s = _str_of(eng, st, args[0])
    if s is None:
        return NotImplemented
    return [(st, Bool(c_lin("eq", s.len)))]


def m_str_trim(eng, st, c, args, dest_tid, t):
    s = _str_of(eng, st, args[0])
    if s is None:
        return NotImplemented
    if s.s is not None:
        k = s.s.strip()
        return [(st, Ref(val=Str(s=k, ln=Lin.const(len(k.encode())))))]
    name = "trim(%s)" % s.sym
    ln = eng.atom(name + ".len", 0, (1 << 63) - 1)
    eng.add_cons(st, [(Lin.atom(ln) - s.len, "<=")])
    return [(st, Ref(val=Str(sym=name, ln=Lin.atom(ln))))]


def m_str_eq(eng, st, c, args, dest_tid, t):
    a = _str_of(eng, st, args[0])
    b = _str_of(eng, st, args[1])
    if a is None or b is None:
        return NotImplemented
    if a.s is not None and b.s is not None:
        return [(st, Bool(TRUE if a.s == b.s else FALSE))]
    if a.s is not None:
        a, b = b, a
    if b.s is None:
        return [(st, Bool(("streq", a.sym, b.sym)))]
    # symbolic a vs literal b: split the partition
    lit = b.s
    if lit in st.str_ne.get(a.sym, ()):
        return [(st, Bool(FALSE))]
    out = []
    s_eq = st.clone()
    # equal: the string *is* the literal on this path
    for s2 in eng.assume(s_eq, c_lin("eq", a.len - len(lit.encode()))):
        s2.str_eq[a.sym] = lit
        s2.trace.append(("str", a.sym, "==", lit))
        out.append((s2, Bool(TRUE)))
    st.str_ne.setdefault(a.sym, set()).add(lit)
    out.append((st, Bool(FALSE)))
    return out


def m_unit(eng, st, c, args, dest_tid, t):
    return [(st, Struct(dest_tid, []))]


def m_identity(eng, st, c, args, dest_tid, t):
    return [(st, args[0])]


def m_swap(eng, st, c, args, dest_tid, t):
    a, b = args[0], args[1]
    if isinstance(a, Ref) and isinstance(b, Ref) and a.key is not None and b.key is not None:
        va = eng.deref(st, a)
        vb = eng.deref(st, b)
        eng.write_key(st, a.key, a.proj, vb)
        eng.write_key(st, b.key, b.proj, va)
        return [(st, Struct(dest_tid, []))]
    return NotImplemented


def m_range_incl_contains(eng, st, c, args, dest_tid, t):
    r = eng.deref(st, args[0])
    x = eng.deref(st, args[1])
    if isinstance(r, Struct) and len(r.fs) >= 2 and isinstance(r.fs[0], Int) and isinstance(r.fs[1], Int) and isinstance(x, Int):
        return [(st, Bool(c_and(c_lin("ge", x.lin - r.fs[0].lin), c_lin("le", x.lin - r.fs[1].lin))))]
    return NotImplemented


def m_range_next(eng, st, c, args, dest_tid, t):
    ref = args[0]
    r = eng.deref(st, ref)
    if isinstance(ref, Ref) and ref.key is not None and isinstance(r, Struct) and len(r.fs) == 2 and all(
            isinstance(f, Int) for f in r.fs):
        start, end = r.fs
        out = []
        ts, fs = eng.branch(st, c_lin("lt", start.lin - end.lin))
        for s in ts:
            eng.write_key(s, ref.key, ref.proj, Struct(r.tid, [Int(start.lin + 1, start.tid), end]))
            out.append((s, eng.mk_option(dest_tid, start)))
        for s in fs:
            out.append((s, eng.mk_option(dest_tid, None)))
        return out
    return NotImplemented


def _arr_of(eng, st, v):
    a = eng.deref(st, v) if isinstance(v, Ref) else v
    if isinstance(a, Ref):
        a = eng.deref(st, a)
    return a if isinstance(a, Arr) else None


def m_slice_len(eng, st, c, args, dest_tid, t):
    a = _arr_of(eng, st, args[0])
    if a is None:
        s = _str_of(eng, st, args[0])
        if s is not None:
            return [(st, Int(s.len, dest_tid))]
        return NotImplemented
    return [(st, Int(Lin.const(len(a.els)), dest_tid))]


def _elem_ref(eng, st, ref, a, i):
    """Reference to element i of the array behind `ref` (keeps a place when there is one)."""
    r = ref
    if isinstance(r, Ref) and r.key is not None:
        inner = eng.deref(st, r)
        if isinstance(inner, Ref):
            r = inner
    if isinstance(r, Ref) and r.key is not None:
        return Ref(key=r.key, proj=list(r.proj) + [{"cidx": i, "min_len": i + 1, "from_end": False}])
    return Ref(val=a.els[i])


def m_slice_get(eng, st, c, args, dest_tid, t):
    a = _arr_of(eng, st, args[0])
    i = args[1]
    if a is None or not isinstance(i, Int):
        return NotImplemented
    k = eng.const_of(st, i)
    n = len(a.els)
    if k is not None:
        if 0 <= k < n:
            return [(st, eng.mk_option(dest_tid, _elem_ref(eng, st, args[0], a, k)))]
        return [(st, eng.mk_option(dest_tid, None))]
    out = []
    ins, outs = eng.branch(st, c_and(c_lin("ge", i.lin), c_lin("le", i.lin - (n - 1))))
    for s2 in outs:
        out.append((s2, eng.mk_option(dest_tid, None)))
    for s2 in ins:
        et = eng.types[a.tid].get("elem") if a.tid is not None else None
        if eng.sym_select and et is not None and eng.types[et]["k"] == "adt":
            # read-only access at a symbolic index: some element, i.e. an arbitrary value of the element type
            eng.nsel = getattr(eng, "nsel", 0) + 1
            eng._pending_cells = []
            v = eng.sym(et, "sel%d" % eng.nsel)
            for k2, inner in eng._pending_cells:
                s2.store[k2] = inner
            out.append((s2, eng.mk_option(dest_tid, Ref(val=v))))
        elif n <= 64:
            for k in range(n):
                for s3 in eng.assume(s2.clone(), c_lin("eq", i.lin - k)):
                    out.append((s3, eng.mk_option(dest_tid, _elem_ref(eng, s3, args[0], a, k))))
        else:
            et = eng.types[a.tid].get("elem") if a.tid is not None else None
            out.append((s2, eng.mk_option(dest_tid, Ref(val=eng.fresh(et, ("select", eng.term(a), i.lin.key()))))))
    return out


def m_array_index(eng, st, c, args, dest_tid, t):
    a = _arr_of(eng, st, args[0])
    i = args[1]
    if a is None or not isinstance(i, Int):
        return NotImplemented
    k = eng.const_of(st, i)
    n = len(a.els)
    if k is not None:
        if 0 <= k < n:
            return [(st, _elem_ref(eng, st, args[0], a, k))]
        st.end = "panic"
        eng.event(st, "panic", "index out of bounds (constant)")
        return [(st, DIVERGE)]
    out = []
    ins, outs = eng.branch(st, c_and(c_lin("ge", i.lin), c_lin("le", i.lin - (n - 1))))
    for s2 in outs:
        s2.end = "panic"
        eng.event(s2, "panic", "index out of bounds")
        out.append((s2, DIVERGE))
    for s2 in ins:
        if n <= 64:
            for k in range(n):
                for s3 in eng.assume(s2.clone(), c_lin("eq", i.lin - k)):
                    out.append((s3, _elem_ref(eng, s3, args[0], a, k)))
        else:
            et = eng.types[a.tid].get("elem") if a.tid is not None else None
            out.append((s2, Ref(val=eng.fresh(et, ("select", eng.term(a), i.lin.key())))))
    return out


# --------------------------------------------------------------------------------------------------
# fmt: write!/format! become recorded output pieces (E7)

from .sym import V, norm_path  # noqa: E402
from . import fmtdecode  # noqa: E402


class FmtArg(V):
    __slots__ = ("kind", "val")

    def __init__(self, kind, val):
        self.kind = kind
        self.val = val

    def __repr__(self):
        return "FmtArg(%s,%r)" % (self.kind, self.val)


class FmtArgs(V):
    __slots__ = ("pieces", "args")

    def __init__(self, pieces, args):
        self.pieces = pieces
        self.args = args

    def __repr__(self):
        return "FmtArgs(%r,%r)" % (self.pieces, self.args)


def install_fmt(eng):
    M = eng.models
    M["core::fmt::Arguments::<'a>::from_str"] = m_args_from_str
    M["core::fmt::Arguments::<'a>::new"] = m_args_new
    for k in ("display", "debug", "lower_hex", "upper_hex", "lower_exp", "upper_exp", "pointer", "octal", "binary"):
        M["core::fmt::rt::Argument::<'_>::new_" + k] = mk_argument(k)
    M["core::fmt::Formatter::<'a>::write_fmt"] = m_write_fmt
    M["core::fmt::Formatter::<'a>::write_str"] = m_write_str
    M["core::fmt::format"] = m_format


def m_args_from_str(eng, st, c, args, dest_tid, t):
    s = _str_of(eng, st, args[0])
    if s is None or s.s is None:
        return NotImplemented
    return [(st, FmtArgs([("lit", s.s)] if s.s else [], []))]


def m_args_new(eng, st, c, args, dest_tid, t):
    tmpl = _arr_of(eng, st, args[0])
    arr = _arr_of(eng, st, args[1])
    if tmpl is None or arr is None:
        return NotImplemented
    bs = []
    for e in tmpl.els:
        k = eng.const_of(st, e)
        if k is None:
            return NotImplemented
        bs.append(k)
    try:
        pieces = fmtdecode.decode_template(bytes(bs))
    except fmtdecode.DecoderUnsupported as e:
        eng.event(st, "unmodelled", "DECODER-UNSUPPORTED %s" % e)
        return NotImplemented
    return [(st, FmtArgs(pieces, list(arr.els)))]


def mk_argument(kind):
    def m(eng, st, c, args, dest_tid, t):
        v = args[0]
        val = eng.deref(st, v) if isinstance(v, Ref) else v
        # Display of a reference to a reference (&&str etc.)
        while isinstance(val, Ref):
            val = eng.deref(st, val)
        return [(st, FmtArg(kind, val))]

    return m


def _ok_unit(eng, dest_tid):
    vi = eng.variant_index(dest_tid, "Ok")
    t = eng.types[dest_tid]
    ftys = t["variants"][vi].get("ftys")
    return Enum(dest_tid, vi, (Struct(ftys[0] if ftys else None, []),))


def m_write_fmt(eng, st, c, args, dest_tid, t):
    a = args[1]
    if not isinstance(a, FmtArgs):
        return NotImplemented
    st.trace.append(("out", "fmt", a))
    return [(st, _ok_unit(eng, dest_tid))]


def m_write_str(eng, st, c, args, dest_tid, t):
    s = _str_of(eng, st, args[1])
    if s is None:
        return NotImplemented
    st.trace.append(("out", "str", s.s if s.s is not None else ("sym", s.sym)))
    return [(st, _ok_unit(eng, dest_tid))]


def m_format(eng, st, c, args, dest_tid, t):
    a = args[0]
    if not isinstance(a, FmtArgs):
        return NotImplemented
    return [(st, Opq(("string", a), dest_tid))]


def outputs(st):
    """The ordered output pieces written on this path."""
    return [x for x in st.trace if isinstance(x, tuple) and x and x[0] == "out"]


# --------------------------------------------------------------------------------------------------
# iterators over arrays/slices (constant length): slice::Iter, Zip, Enumerate, Take


class IterV(V):
    __slots__ = ("ikind", "a", "b", "n")

    def __init__(self, ikind, a=None, b=None, n=None):
        self.ikind = ikind
        self.a = a
        self.b = b
        self.n = n

    def __repr__(self):
        return "Iter(%s,%r,%r,%r)" % (self.ikind, self.a, self.b, self.n)


def install_iters(eng):
    M = eng.models
    M["core::slice::<impl [T]>::iter"] = m_slice_iter
    M["core::slice::<impl [T]>::iter_mut"] = m_slice_iter
    M["core::iter::Iterator::fold"] = m_iter_fold
    M["core::array::iter::<impl core::iter::IntoIterator for [T; N]>::into_iter"] = m_array_into_iter
    M["<core::array::IntoIter<T, N> as core::iter::Iterator>::fold"] = m_iter_fold
    M["<core::array::IntoIter<T, N> as core::iter::Iterator>::next"] = m_iter_next
    M["<core::iter::Zip<A, B> as core::iter::Iterator>::fold"] = m_iter_fold
    M["<core::slice::Iter<'a, T> as core::iter::Iterator>::fold"] = m_iter_fold
    M["<core::slice::IterMut<'a, T> as core::iter::Iterator>::fold"] = m_iter_fold
    M["<core::ops::Range<A> as core::iter::Iterator>::fold"] = m_iter_fold
    M["core::slice::iter::<impl core::iter::IntoIterator for &'a [T]>::into_iter"] = m_slice_iter
    M["core::iter::Iterator::zip"] = m_iter_zip
    M["core::iter::Iterator::enumerate"] = m_iter_enumerate
    M["core::iter::Iterator::take"] = m_iter_take
    for p in ("<core::slice::Iter<'a, T> as core::iter::Iterator>::next", "<core::iter::Zip<A, B> as core::iter::Iterator>::next",
              "<core::iter::Enumerate<I> as core::iter::Iterator>::next", "<core::iter::Take<I> as core::iter::Iterator>::next"):
        M[p] = m_iter_next
    M["core::iter::Iterator::filter"] = m_iter_filter
    M["core::iter::Iterator::map"] = m_iter_map
    M["<core::iter::Map<I, F> as core::iter::Iterator>::next"] = m_iter_next
    M["core::iter::Iterator::sum"] = m_iter_sum
    M["core::str::<impl str>::split"] = m_str_split_char
    M["<core::str::Split<'a, P> as core::iter::Iterator>::next"] = m_iter_next
    M["core::iter::Iterator::for_each"] = m_iter_for_each
    M["core::iter::Iterator::try_for_each"] = m_iter_try_for_each
    M["<core::iter::Filter<I, P> as core::iter::Iterator>::next"] = m_filter_next
    M["core::iter::adapters::filter::<impl core::iter::Iterator for core::iter::Filter<I, P>>::next"] = m_filter_next
    for nm, m in (("find", m_iter_find), ("position", m_iter_position), ("any", m_iter_any), ("all", m_iter_all)):
        M["<core::slice::Iter<'a, T> as core::iter::Iterator>::" + nm] = m
        M["<core::iter::Rev<I> as core::iter::Iterator>::" + nm] = m
        M["core::iter::Iterator::" + nm] = m


def m_slice_iter(eng, st, c, args, dest_tid, t):
    a = _arr_of(eng, st, args[0])
    if a is None:
        return NotImplemented
    return [(st, IterV("slice", a=args[0], b=len(a.els), n=0))]


def _as_iter(eng, st, v):
    """an IntoIterator argument as an iterator value: an iterator already, or an array taken by value"""
    if isinstance(v, IterV):
        return v
    if isinstance(v, Arr):
        return IterV("vals", a=list(v.els), n=0)
    return None


def m_array_into_iter(eng, st, c, args, dest_tid, t):
    """[T; N]::into_iter(): the elements by value, in order"""
    v = args[0]
    if isinstance(v, Arr):
        return [(st, IterV("vals", a=list(v.els), n=0))]
    return NotImplemented


def m_iter_zip(eng, st, c, args, dest_tid, t):
    a, b = _as_iter(eng, st, args[0]), _as_iter(eng, st, args[1])
    if a is not None and b is not None:
        return [(st, IterV("zip", a=a, b=b))]
    return NotImplemented


def m_iter_fold(eng, st, c, args, dest_tid, t):
    """iter.fold(init, f) with a closure that has a MIR body, over an iterator _pull understands: acc = f(acc, item) in order"""
    it, acc0, clo = args[0], args[1], args[2]
    if isinstance(it, Ref) and it.key is not None:
        it = eng.deref(st, it)
    fn = eng.closure_fn(clo)
    if fn is None or not isinstance(it, (IterV, Struct)):
        return NotImplemented
    eng.ncell += 1
    ckey = ("cell", eng.ncell, "closure-env")
    st.store[ckey] = clo
    out = []
    work = [(st, it, acc0, 0)]
    while work:
        s0, it0, acc, k = work.pop()
        if k > 4096:
            s0.end = "limit"
            eng.event(s0, "limit", "fold over an unbounded iterator")
            out.append((s0, None))
            continue
        pl = _pull(eng, s0, it0, None)
        if pl is None:
            return NotImplemented
        out.extend((s2, None) for s2 in pl[1])
        for s1, nit, item in pl[0]:
            if item is None:
                out.append((s1, acc))
                continue
            returned, ended = eng.subcall(s1, fn, [Ref(key=ckey), acc, item])
            out.extend((s2, None) for s2 in ended)
            for s2, v in returned:
                work.append((s2, nit, v, k + 1))
    return out


def m_iter_enumerate(eng, st, c, args, dest_tid, t):
    if isinstance(args[0], IterV):
        return [(st, IterV("enum", a=args[0], n=0))]
    return NotImplemented


def m_iter_take(eng, st, c, args, dest_tid, t):
    if isinstance(args[0], IterV) and isinstance(args[1], Int):
        return [(st, IterV("take", a=args[0], n=args[1]))]
    return NotImplemented


class _Ended:
    """item placeholder: the state ended (panic / limit) inside a closure while the iterator was advanced"""
    def __repr__(self):
        return "ENDED"


ENDED = _Ended()


def _advance(eng, st, it, item_tid):
    """-> list of (state, new iterator, item | None | ENDED)"""
    if it.ikind == "filter":
        out = []
        work = [(st, it.a, 0)]
        while work:
            s0, inner, k = work.pop()
            if k > 4096 or not isinstance(inner, IterV):
                s0.end = "limit"
                eng.event(s0, "limit", "filter over an iterator of unknown length")
                out.append((s0, it, ENDED))
                continue
            for s1, ni, item in _advance(eng, s0, inner, None):
                if item is ENDED:
                    out.append((s1, it, ENDED))
                    continue
                if item is None:
                    out.append((s1, IterV("filter", a=ni, b=it.b), None))
                    continue
                eng.ncell += 1
                key = ("cell", eng.ncell, "iter-item")
                s1.store[key] = item
                returned, ended = _pred_call(eng, s1, it.b, Ref(key=key))
                if returned is None:
                    s1.end = "limit"
                    eng.event(s1, "unmodelled", "filter predicate without a body")
                    out.append((s1, it, ENDED))
                    continue
                out.extend((s2, it, ENDED) for s2 in ended)
                for s2, v in returned:
                    if not isinstance(v, Bool):
                        s2.end = "limit"
                        eng.event(s2, "unmodelled", "filter predicate did not return a bool value")
                        out.append((s2, it, ENDED))
                        continue
                    ts, fs = eng.branch(s2, v.c)
                    for s3 in ts:
                        out.append((s3, IterV("filter", a=ni, b=it.b), item))
                    for s3 in fs:
                        work.append((s3, ni, k + 1))
        return out
    if it.ikind == "map":
        out = []
        for s1, ni, item in _advance(eng, st, it.a, None) if isinstance(it.a, IterV) else []:
            if item is ENDED or item is None:
                out.append((s1, IterV("map", a=ni, b=it.b), item))
                continue
            returned, ended = _pred_call(eng, s1, it.b, item)
            if returned is None:
                s1.end = "limit"
                eng.event(s1, "unmodelled", "map closure without a body")
                out.append((s1, it, ENDED))
                continue
            out.extend((s2, it, ENDED) for s2 in ended)
            for s2, v in returned:
                out.append((s2, IterV("map", a=ni, b=it.b), v))
        return out
    if it.ikind == "vals":
        if it.n < len(it.a):
            return [(st, IterV("vals", a=it.a, n=it.n + 1), it.a[it.n])]
        return [(st, it, None)]
    if it.ikind == "slice":
        if it.n < it.b:
            arr = _arr_of(eng, st, it.a)
            return [(st, IterV("slice", a=it.a, b=it.b, n=it.n + 1), _elem_ref(eng, st, it.a, arr, it.n))]
        return [(st, it, None)]
    if it.ikind == "zip":
        out = []
        for s1, na, ia in _advance(eng, st, it.a, None):
            if ia is None or ia is ENDED:
                out.append((s1, IterV("zip", a=na, b=it.b), ia))
                continue
            for s2, nb, ib in _advance(eng, s1, it.b, None):
                if ib is ENDED:
                    out.append((s2, IterV("zip", a=na, b=nb), ENDED))
                elif ib is None:
                    out.append((s2, IterV("zip", a=na, b=nb), None))
                else:
                    out.append((s2, IterV("zip", a=na, b=nb), Struct(None, [ia, ib])))
        return out
    if it.ikind == "enum":
        out = []
        for s1, na, ia in _advance(eng, st, it.a, None):
            if ia is None or ia is ENDED:
                out.append((s1, IterV("enum", a=na, n=it.n), ia))
            else:
                out.append((s1, IterV("enum", a=na, n=it.n + 1), Struct(None, [Int(Lin.const(it.n), eng.find_tid("usize")), ia])))
        return out
    if it.ikind == "take":
        out = []
        left = it.n
        zs, nzs = eng.branch(st, c_lin("le", left.lin))
        for s1 in zs:
            out.append((s1, it, None))
        for s1 in nzs:
            for s2, na, ia in _advance(eng, s1, it.a, None):
                out.append((s2, IterV("take", a=na, n=Int(left.lin - 1, left.tid)), ia))
        return out
    return [(st, it, None)]


def _impl_fn(eng, self_path, name):
    """the crate's own implementation `name` (next / next_back) for the type `self_path`, if it has a MIR body"""
    idx = getattr(eng, "_impl_index", None)
    if idx is None:
        idx = eng._impl_index = {}
        for f in eng.F.fns:
            im = f.get("impl") if f else None
            if f and im and "blocks" in f and f.get("local"):
                idx.setdefault((norm_path(im.get("self") or ""), f.get("name")), []).append(f)
    c = idx.get((norm_path(self_path or ""), name)) or []
    return c[0] if len(c) == 1 else None


def _pull(eng, st, it, opt_tid):
    """One `next()` of an iterator value: a constant-length IterV, `Rev` of one of the crate's own double-ended iterators, or one of
    the crate's own iterators (their next / next_back bodies are interpreted).  -> (list of (state, new iterator value, item | None),
    ended states) or None when the iterator is of no known kind."""
    if isinstance(it, IterV):
        res = _advance(eng, st, it, None)
        return [(s1, ni, item) for s1, ni, item in res if item is not ENDED], [s1 for s1, ni, item in res if item is ENDED]
    if isinstance(it, Struct) and it.tid is not None:
        ty = eng.types[it.tid]
        path = norm_path(ty.get("path") or "")
        rev = path.endswith("iter::Rev") or path.endswith("rev::Rev")
        inner = it.fs[0] if rev and len(it.fs) == 1 else it
        ity = eng.types[inner.tid] if isinstance(inner, Struct) and inner.tid is not None else None
        fn = _impl_fn(eng, ity.get("path"), "next_back" if rev else "next") if ity else None
        if fn is None:
            return None
        eng.ncell += 1
        key = ("cell", eng.ncell, "iter-state")
        st.store[key] = inner
        returned, ended = eng.subcall(st, fn, [Ref(key=key)])
        out = []
        for s1, ov in returned:
            if not isinstance(ov, Enum):
                return None
            ni = s1.store.get(key)
            nv = Struct(it.tid, [ni]) if rev else ni
            out.append((s1, nv, ov.fs[0] if ov.vi == 1 else None))
        return out, ended
    return None


def _iter_search(eng, st, c, args, dest_tid, t, mode):
    """Iterator::find / position / any / all over a constant-length iterator with a closure that has a MIR body: the elements are
    visited in order and the closure is interpreted on each (one path per outcome), exactly as the library loop does."""
    ref, clo = args[0], args[1]
    if not (isinstance(ref, Ref) and ref.key is not None):
        return NotImplemented
    it = eng.deref(st, ref)
    fn = eng.closure_fn(clo)
    if fn is None or not isinstance(it, (IterV, Struct)):
        return NotImplemented
    eng.ncell += 1
    ckey = ("cell", eng.ncell, "closure-env")
    st.store[ckey] = clo
    out = []
    work = [(st, it, 0)]
    usize = eng.find_tid("usize")
    btid = eng.find_tid("bool")
    while work:
        s0, it0, k = work.pop()
        if k > 4096:
            s0.end = "limit"
            eng.event(s0, "limit", "search over an unbounded iterator")
            out.append((s0, None))
            continue
        pl = _pull(eng, s0, it0, None)
        if pl is None:
            return NotImplemented
        out.extend((s2, None) for s2 in pl[1])
        for s1, nit, item in pl[0]:
            if item is None:
                eng.write_key(s1, ref.key, ref.proj, nit)
                if mode in ("find", "position"):
                    out.append((s1, eng.mk_option(dest_tid, None)))
                else:
                    out.append((s1, Bool(FALSE if mode == "any" else TRUE)))
                continue
            if mode == "find":
                eng.ncell += 1
                ikey = ("cell", eng.ncell, "iter-item")
                s1.store[ikey] = item
                cargs = [Ref(key=ckey), Ref(key=ikey)]  # predicate takes &Self::Item
            else:
                cargs = [Ref(key=ckey), item]
            returned, ended = eng.subcall(s1, fn, cargs)
            out.extend((s2, None) for s2 in ended)
            for s2, v in returned:
                if not isinstance(v, Bool):
                    return NotImplemented
                ts, fs = eng.branch(s2, v.c)
                hit, miss = (ts, fs) if mode != "all" else (fs, ts)
                for s3 in hit:
                    eng.write_key(s3, ref.key, ref.proj, nit)
                    if mode == "find":
                        out.append((s3, eng.mk_option(dest_tid, item)))
                    elif mode == "position":
                        out.append((s3, eng.mk_option(dest_tid, Int(Lin.const(k), usize))))
                    else:
                        out.append((s3, Bool(TRUE if mode == "any" else FALSE)))
                for s3 in miss:
                    work.append((s3, nit, k + 1))
    return out


RANGE_NEXT = "core::iter::range::<impl core::iter::Iterator for core::ops::Range<A>>::next"


def m_str_split_char(eng, st, c, args, dest_tid, t):
    """s.split(ch) for a concrete string and a constant char pattern: the pieces, in order"""
    sv = _str_of(eng, st, args[0])
    pat = args[1]
    if sv is None or sv.s is None or not isinstance(pat, Int) or not pat.lin.is_const():
        return NotImplemented
    pieces = sv.s.split(chr(pat.lin.k))
    return [(st, IterV("vals", a=[Ref(val=Str(p_)) for p_ in pieces], n=0))]


def m_iter_map(eng, st, c, args, dest_tid, t):
    """iter.map(f) over a constant-length iterator: an adaptor value; f must be a closure (or fn item) with a MIR body"""
    if eng.closure_fn(args[1]) is None and not isinstance(args[1], FnV):
        return NotImplemented
    if not isinstance(args[0], IterV):
        return NotImplemented
    return [(st, IterV("map", a=args[0], b=args[1]))]


def m_iter_sum(eng, st, c, args, dest_tid, t):
    """iter.sum::<iN>() over a constant-length iterator of integers: the items added in order, each addition with the build's
    overflow semantics (`Sum for iN` inherits the caller's overflow checks)"""
    it = args[0]
    if not isinstance(it, IterV) or eng.types[dest_tid]["k"] != "int":
        return NotImplemented
    lo, hi = eng.int_range(dest_tid)
    out = []
    work = [(st, it, Int(Lin.const(0), dest_tid), 0)]
    while work:
        s0, it0, acc, k = work.pop()
        if k > 4096:
            return NotImplemented
        pl = _pull(eng, s0, it0, None)
        if pl is None:
            return NotImplemented
        out.extend((s2, DIVERGE) for s2 in pl[1])
        for s1, nit, item in pl[0]:
            if item is None:
                out.append((s1, acc))
                continue
            if isinstance(item, Ref):
                item = eng.deref(s1, item)
            if not isinstance(item, Int):
                return NotImplemented
            tot = acc.lin + item.lin
            for s2 in eng.assume(s1.clone(), c_and(c_lin("ge", tot - lo), c_lin("le", tot - hi))):
                work.append((s2, nit, Int(tot, dest_tid), k + 1))
            for cond in (c_lin("lt", tot - lo), c_lin("gt", tot - hi)):
                for s2 in eng.assume(s1.clone(), cond):
                    if eng.overflow_panics:
                        s2.end = "panic"
                        eng.event(s2, "panic", "Overflow(Add) in %s" % (c.get("inst") or "sum"), callee="sum")
                        out.append((s2, DIVERGE))
                    else:
                        return NotImplemented
    return out


def m_iter_filter(eng, st, c, args, dest_tid, t):
    """iter.filter(pred): an adaptor value; the predicate must be a closure (or fn item) with a MIR body"""
    if eng.closure_fn(args[1]) is None and not isinstance(args[1], FnV):
        return NotImplemented
    inner = args[0]
    if not isinstance(inner, IterV) and not (isinstance(inner, Struct) and len(inner.fs) == 2 and all(isinstance(f, Int) for f in inner.fs)):
        return NotImplemented
    return [(st, IterV("filter", a=inner, b=args[1]))]


def _pred_call(eng, st, pred, arg):
    """-> (returned [(state, Bool)], ended states)"""
    fn = eng.closure_fn(pred)
    if fn is not None:
        eng.ncell += 1
        ckey = ("cell", eng.ncell, "closure-env")
        st.store[ckey] = pred
        return eng.subcall(st, fn, [Ref(key=ckey), arg])
    if isinstance(pred, FnV):
        f = getattr(pred, "fn", None)
        if f is None:
            for g in eng.F.fns:
                if g and g.get("path") == pred.path and "blocks" in g:
                    f = g
                    break
        if f is not None:
            return eng.subcall(st, f, [arg])
    return None, None


def m_filter_next(eng, st, c, args, dest_tid, t):
    """Filter::next: pull from the inner iterator (through whatever hook or model interprets its `next`) until the predicate holds"""
    ref = args[0]
    if not (isinstance(ref, Ref) and ref.key is not None):
        return NotImplemented
    it = eng.deref(st, ref)
    if not (isinstance(it, IterV) and it.ikind == "filter"):
        return NotImplemented
    if isinstance(it.a, IterV):
        return m_iter_next(eng, st, c, args, dest_tid, t)
    out = []
    work = [(st, it.a, 0)]
    while work:
        s0, inner, k = work.pop()
        if k > 4096:
            s0.end = "limit"
            eng.event(s0, "limit", "filter over an unbounded iterator")
            out.append((s0, None))
            continue
        if isinstance(inner, IterV):
            res_ = _advance(eng, s0, inner, None)
            out.extend((s1, None) for s1, ni, item in res_ if item is ENDED)
            pulled = [(s1, ni, item) for s1, ni, item in res_ if item is not ENDED]
        else:
            eng.ncell += 1
            ikey = ("cell", eng.ncell, "filter-inner")
            s0.store[ikey] = inner
            h = None
            for suf, hh in eng.hooks.items():
                if RANGE_NEXT == suf or RANGE_NEXT.endswith("::" + suf):
                    h = hh
            res = h(eng, s0, c, [Ref(key=ikey)], dest_tid, t) if h is not None else NotImplemented
            if res is NotImplemented or res is None:
                res = m_range_next(eng, s0, c, [Ref(key=ikey)], dest_tid, t)
            if res is NotImplemented:
                return NotImplemented
            pulled = []
            for s1, ov in res:
                if s1.end is not None:
                    out.append((s1, None))
                    continue
                item = ov.fs[0] if isinstance(ov, Enum) and ov.vi == 1 else None
                pulled.append((s1, s1.store.get(ikey), item))
        for s1, ni, item in pulled:
            if item is None:
                eng.write_key(s1, ref.key, ref.proj, IterV("filter", a=ni, b=it.b))
                out.append((s1, eng.mk_option(dest_tid, None)))
                continue
            eng.ncell += 1
            key = ("cell", eng.ncell, "iter-item")
            s1.store[key] = item
            returned, ended = _pred_call(eng, s1, it.b, Ref(key=key))
            if returned is None:
                return NotImplemented
            out.extend((s2, None) for s2 in ended)
            for s2, v in returned:
                if not isinstance(v, Bool):
                    return NotImplemented
                ts, fs = eng.branch(s2, v.c)
                for s3 in ts:
                    eng.write_key(s3, ref.key, ref.proj, IterV("filter", a=ni, b=it.b))
                    out.append((s3, eng.mk_option(dest_tid, item)))
                for s3 in fs:
                    work.append((s3, ni, k + 1))
    return out


def _for_each(eng, st, c, args, dest_tid, t, fallible):
    """Iterator::for_each / try_for_each with a closure that has a MIR body, over an iterator _pull understands: the closure is
    interpreted on each element in order; try_for_each stops at the first Err / None it returns."""
    it, clo = args[0], args[1]
    ref = None
    if isinstance(it, Ref) and it.key is not None:
        ref = it
        it = eng.deref(st, ref)
    fn = eng.closure_fn(clo)
    if fn is None or not isinstance(it, (IterV, Struct)):
        return NotImplemented
    eng.ncell += 1
    ckey = ("cell", eng.ncell, "closure-env")
    st.store[ckey] = clo
    out = []
    work = [(st, it, 0)]
    while work:
        s0, it0, k = work.pop()
        if k > 4096:
            s0.end = "limit"
            eng.event(s0, "limit", "for_each over an unbounded iterator")
            out.append((s0, None))
            continue
        pl = _pull(eng, s0, it0, None)
        if pl is None:
            return NotImplemented
        out.extend((s2, None) for s2 in pl[1])
        for s1, nit, item in pl[0]:
            if item is None:
                if ref is not None:
                    eng.write_key(s1, ref.key, ref.proj, nit)
                if fallible:
                    ty = eng.types[dest_tid]
                    names = [v_["name"] for v_ in ty.get("variants", [])]
                    cont = "Ok" if "Ok" in names else ("Some" if "Some" in names else None)
                    if cont is None:
                        return NotImplemented
                    vi = names.index(cont)
                    unit = Struct(ty["variants"][vi]["ftys"][0], []) if ty["variants"][vi].get("ftys") else None
                    out.append((s1, Enum(dest_tid, vi, (unit,) if unit is not None else ())))
                else:
                    out.append((s1, Struct(dest_tid, [])))
                continue
            returned, ended = eng.subcall(s1, fn, [Ref(key=ckey), item])
            out.extend((s2, None) for s2 in ended)
            for s2, v in returned:
                if not fallible:
                    work.append((s2, nit, k + 1))
                    continue
                if isinstance(v, SymEnum):
                    v = s2.enum_ref.get(v.name, v)
                if not isinstance(v, Enum):
                    return NotImplemented
                nm = eng.types[v.tid]["variants"][v.vi]["name"]
                if nm in ("Ok", "Some"):
                    work.append((s2, nit, k + 1))
                else:
                    if ref is not None:
                        eng.write_key(s2, ref.key, ref.proj, nit)
                    out.append((s2, v))
    return out


def m_iter_for_each(eng, st, c, args, dest_tid, t):
    return _for_each(eng, st, c, args, dest_tid, t, False)


def m_iter_try_for_each(eng, st, c, args, dest_tid, t):
    return _for_each(eng, st, c, args, dest_tid, t, True)


def m_iter_find(eng, st, c, args, dest_tid, t):
    return _iter_search(eng, st, c, args, dest_tid, t, "find")


def m_iter_position(eng, st, c, args, dest_tid, t):
    return _iter_search(eng, st, c, args, dest_tid, t, "position")


def m_iter_any(eng, st, c, args, dest_tid, t):
    return _iter_search(eng, st, c, args, dest_tid, t, "any")


def m_iter_all(eng, st, c, args, dest_tid, t):
    return _iter_search(eng, st, c, args, dest_tid, t, "all")


def m_iter_next(eng, st, c, args, dest_tid, t):
    ref = args[0]
    if not (isinstance(ref, Ref) and ref.key is not None):
        return NotImplemented
    it = eng.deref(st, ref)
    if not isinstance(it, IterV):
        return NotImplemented
    out = []
    for s2, nit, item in _advance(eng, st, it, None):
        if item is ENDED:
            out.append((s2, None))
            continue
        eng.write_key(s2, ref.key, ref.proj, nit)
        out.append((s2, eng.mk_option(dest_tid, item)))
    return out
