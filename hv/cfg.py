"""CFG utilities over the fact base: successors, reachability, must-pass-through, call sites,
call graph cones, place typing."""


def succs(fn, bi):
    t = fn["blocks"][bi]["t"]
    k = t["k"]
    if k in ("goto", "drop", "assert"):
        return [t["t"]]
    if k == "switch":
        return [b for _, b in t["vals"]] + [t["else"]]
    if k == "call":
        return [t["t"]] if t["t"] is not None else []
    return []


def return_blocks(fn):
    return [i for i, b in enumerate(fn["blocks"]) if b["t"]["k"] == "return"]


def reachable(fn, start, blocked=()):
    """Blocks reachable from `start` (inclusive) without *leaving through* blocks in `blocked`."""
    blocked = set(blocked)
    seen = set()
    stack = [start]
    while stack:
        b = stack.pop()
        if b in seen:
            continue
        seen.add(b)
        if b in blocked:
            continue
        stack.extend(succs(fn, b))
    return seen


def must_pass_through(fn, start, through):
    """Every path from block `start` to a return passes through (the terminator of) a block in `through`.
    A `through` block reached is considered satisfied; start itself may be in `through` only if the
    obligation site precedes its terminator (caller's business)."""
    seen = set()
    stack = [start]
    through = set(through)
    rets = set(return_blocks(fn))
    first = True
    while stack:
        b = stack.pop()
        if b in seen:
            continue
        seen.add(b)
        if b in through and not (first and False):
            first = False
            continue
        first = False
        if b in rets:
            return False
        stack.extend(succs(fn, b))
    return True


def calls(fn):
    """(block index, terminator) of every call"""
    for i, b in enumerate(fn["blocks"]):
        if b.get("cleanup"):
            continue
        if b["t"]["k"] == "call":
            yield i, b["t"]


def callee_name(c):
    return c.get("inst") or c.get("decl") or c.get("kind") or "?"


def callee_path(c):
    return c.get("path") or c.get("decl_path") or ""


def stmts(fn):
    for bi, b in enumerate(fn["blocks"]):
        if b.get("cleanup"):
            continue
        for si, s in enumerate(b["s"]):
            yield bi, si, s


def place_types(F, fn, p):
    """Type ids along a place: [local ty, after proj 1, ...]"""
    tid = fn["locals"][p["l"]]["ty"]
    out = [tid]
    for e in p["pj"]:
        if e == "deref":
            tid = F.types[tid].get("to", tid)
        elif isinstance(e, dict) and "ty" in e:
            tid = e["ty"]
        elif isinstance(e, dict) and ("idx" in e or "cidx" in e):
            tid = F.types[tid].get("elem", tid)
        out.append(tid)
    return out


def cone(F, roots, follow_external=False, stop=None):
    """Functions (ids) reachable through resolved calls from the root functions.
    -> dict fn id -> shortest call chain (list of fn keys)"""
    out = {}
    work = [(r["id"], [r["key"]]) for r in roots]
    while work:
        fid, chain = work.pop(0)
        if fid in out:
            continue
        out[fid] = chain
        fn = F.fns[fid]
        if fn is None or "blocks" not in fn:
            continue
        if stop is not None and stop(fn) and len(chain) > 1:
            continue
        for bi, t in calls(fn):
            c = t["f"]
            for key in ("fn_id", "closure_fn_id"):
                nid = c.get(key)
                if nid is None:
                    continue
                callee = F.fns[nid]
                if callee is None:
                    continue
                if not callee["local"] and not follow_external:
                    continue
                if nid not in out:
                    work.append((nid, chain + [callee["key"]]))
        # closures created in this body (passed to external combinators)
        for bi, si, s in stmts(fn):
            if s["k"] == "a" and s["r"]["op"] == "agg" and s["r"].get("ak") == "closure":
                nid = s["r"].get("fn_id")
                if nid is not None and nid not in out and F.fns[nid] is not None:
                    work.append((nid, chain + [F.fns[nid]["key"]]))
    return out


def operands_of_rvalue(r):
    op = r["op"]
    if op in ("use", "un", "cast", "repeat"):
        return [r["x"]]
    if op == "bin":
        return [r["l"], r["r"]]
    if op == "agg":
        return list(r["xs"])
    return []


def operand_place(o):
    return o.get("cp") or o.get("mv")


def operand_const(o):
    return o.get("k")


def unique_defs(fn):
    """local -> rvalue for locals assigned exactly once (whole-local assignments only)."""
    cnt = {}
    rv = {}
    for bi, si, s in stmts(fn):
        if s["k"] == "a":
            l = s["p"]["l"]
            cnt[l] = cnt.get(l, 0) + 1
            if not s["p"]["pj"]:
                rv[l] = s["r"]
            else:
                cnt[l] = cnt.get(l, 0) + 1
    for bi, t in calls(fn):
        l = t["dest"]["l"]
        cnt[l] = cnt.get(l, 0) + 1
        rv[l] = {"op": "call", "t": t}
    return {l: r for l, r in rv.items() if cnt.get(l) == 1}


def resolve(fn, o, defs=None, depth=0):
    """Follow copies of a whole local back to its defining rvalue / argument.
    -> ("arg", n) | ("const", k) | ("rv", rvalue) | ("place", place)"""
    if defs is None:
        defs = unique_defs(fn)
    k = operand_const(o)
    if k is not None:
        return ("const", k)
    p = operand_place(o)
    if p is None:
        return ("?", o)
    if p["pj"]:
        return ("place", p)
    l = p["l"]
    if 1 <= l <= fn["arg_count"] and l not in defs:
        return ("arg", l)
    r = defs.get(l)
    if r is None or depth > 12:
        return ("place", p)
    if r["op"] == "use":
        return resolve(fn, r["x"], defs, depth + 1)
    if r["op"] == "ref" and r["p"]["pj"] == ["deref"]:
        # reborrow `&*x`: same referent as x
        return resolve(fn, {"cp": {"l": r["p"]["l"], "pj": []}}, defs, depth + 1)
    return ("rv", r)
