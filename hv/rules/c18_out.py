"""C18.R6-R8: Duration -> float ("rounded out"): error bound, sign and monotonicity of to_seconds / to_unit, decided by a
static rounding-error analysis (hv.fperr) of the float expression tree of every path.

For every return path of Duration::to_seconds and of Duration::to_unit (per unit variant) from a canonical duration
(C = centuries, n = nanoseconds; the ediv/erem atoms of n by a constant are tied to n by their defining equality):

R6 error bound.   |computed - T/f| <= K*u*max(|T/f|, one second expressed in the unit), T = C*NPC + n, f = the unit's
                  nanosecond count (statement's units), u = 2^-53, K = 8 ("a few units in the last place").
R7 sign.          the bound is smaller than the smallest non-zero |T/f|, and the tree folds to 0.0 at T = 0.
R8 monotonicity.  every path's region is a contiguous run of durations, the runs tile [MIN, MAX], inside a run the computed
                  forward difference of the tree is >= 0 for each kind of unit step (n+1 without / with carry into the
                  quotient atoms, C+1 with n wrapping), and at each seam the two trees folded at the two adjacent end points are
                  ordered.
"""
from fractions import Fraction as Q
import itertools
from ..sym import Flt, Struct, Int
from ..lin import Lin, bounds, feasible, INF, Infeasible
from .. import fperr
from ..fperr import RL, U, NotAnalysable
from ..epochalg import scale_name
from .c02 import ctx, UNIT_FACTORS


def _ob(chk, rule, *a, **k):
    if rule is not None:
        chk.ob(rule, *a, **k)

K_ULPS = 8
DIV_KINDS = {"ediv": "erem", "tdiv": "trem"}


def _regions(D, st, C, n):
    """split the path condition's disequalities on C / n into convex sub-regions -> list of extra constraint lists"""
    outs = [[]]
    for l, op in st.cons:
        if op != "!=":
            continue
        if not set(l.c) <= {C, n}:
            raise NotAnalysable("disequality over other atoms: %s" % (l,))
        nxt = []
        for ex in outs:
            for extra in ([(l + 1, "<=")], [((-l) + 1, "<=")]):  # l <= -1  or  l >= 1
                if D.feasible(st, ex + extra):
                    nxt.append(ex + extra)
        outs = nxt
    return outs


def _div_atoms(st, cons, n):
    """quotient/remainder atom pairs of n by a constant appearing on the path -> [(q, r, k)]; refuses paths that constrain them"""
    pairs = {}
    atoms = set()
    for l, op in cons:
        atoms.update(l.c)
    for a in atoms:
        if a.kind in ("ediv", "tdiv", "erem", "trem"):
            x, k = a.defn
            if not (isinstance(x, Lin) and set(x.c) == {n} and x.c[n] == 1 and x.k == 0 and isinstance(k, int) and k > 0):
                raise NotAnalysable("quotient/remainder of something other than the nanoseconds by a constant: %r" % (a,))
            pairs.setdefault((a.kind[0], k), {})[a.kind[1:]] = a
    out = []
    for (e, k), d in pairs.items():
        out.append((d.get("div"), d.get("rem"), k))
    qr = set(a for q, r, k in out for a in (q, r) if a is not None)
    nlo, nhi = bounds(Lin.atom(n), [c for c in cons if not (set(c[0].c) & qr)], st.bnd)
    if nlo < 0 or nhi == INF:
        raise NotAnalysable("nanoseconds not known to be non-negative and bounded")
    rng = {}
    for q, r, k in out:
        if q is not None:
            rng[q] = (nlo // k, nhi // k)
        if r is not None:
            rng[r] = (0, k - 1) if nhi - nlo >= k - 1 else None
    for l, op in cons:
        inv = set(l.c) & qr
        if not inv:
            continue
        # only the defining equality  n - k*q - r == 0  may mention them ...
        ok = False
        if op == "==":
            for q, r, k in out:
                if q is not None and r is not None and (l.c == {n: 1, q: -k, r: -1} or l.c == {n: -1, q: k, r: 1}) and l.k == 0:
                    ok = True
        # ... or a range fact that holds for every value of the quotient / remainder anyway (e.g. trem >= 0 for n >= 0)
        if not ok and len(l.c) == 1 and op in ("<=", "=="):
            (a, v), = l.c.items()
            if rng.get(a):
                vals = [v * x + l.k for x in rng[a]]
                ok = all(y <= 0 for y in vals) if op == "<=" else all(y == 0 for y in vals)
        if not ok:
            raise NotAnalysable("the path branches on a quotient/remainder of the nanoseconds: %s %s" % (l, op))
    return out


def _env(C, n, pairs, cv, nv):
    env = {C: cv, n: nv}
    for q, r, k in pairs:
        if q is not None:
            env[q] = nv // k
        if r is not None:
            env[r] = nv % k
    return env


def analyse_path(D, eng, st, arg, tree, factor, inst, chk, R):
    """-> list of region records; obligations R6/R7/R8(inside) are recorded here"""
    NPC = D.NPC
    dur = eng.deref(st, arg) if not isinstance(arg, Struct) else arg
    cl, nl = D.parts(dur)
    if len(cl.c) != 1 or len(nl.c) != 1 or cl.k or nl.k:
        raise NotAnalysable("entry duration is not a pair of atoms")
    (C, cc), = cl.c.items()
    (n, nc), = nl.c.items()
    recs = []
    for extra in _regions(D, st, C, n):
        cons = [c for c in st.cons if c[1] != "!="] + extra
        pairs = _div_atoms(st, cons, n)
        clo, chi = bounds(Lin.atom(C), cons, st.bnd)
        nlo, nhi = bounds(Lin.atom(n), cons, st.bnd)
        # box: all four corners feasible (the constraint set is convex and does not restrict the quotient atoms)
        box = all(feasible(cons + [(Lin.atom(C) - cv, "=="), (Lin.atom(n) - nv, "==")], st.bnd) for cv in (clo, chi) for nv in (nlo, nhi))
        region = "C[%d..%d] n[%d..%d]" % (clo, chi, nlo, nhi)
        contiguous = box and nlo >= 0 and (clo == chi or (nlo == 0 and nhi == NPC - 1))
        _ob(chk, R[2], inst, "region-is-a-run-of-durations:%s" % region, contiguous, "box test (4 corners) + wrap condition")
        if not contiguous:
            continue
        memo = {}
        root = fperr.analyse(tree, cons, st.bnd, memo)
        # ---- R6: error against the exact value T/f
        spec = RL({C: Q(NPC, factor), n: Q(1, factor)})
        # express the spec over the atoms of the tree through the defining equalities (n = k*q + r)
        cands = {Q(1)}
        for a, v in root.rl.c.items():
            if a in spec.c:
                cands.add(v / spec.c[a])
            for q, r, k in pairs:
                if a is q:
                    cands.add(v / (spec.c[n] * k))
                if a is r:
                    cands.add(v / spec.c[n])
        if clo == chi and nlo == nhi:  # a single duration: compare the two values directly
            env = _env(C, n, pairs, clo, nlo)
            rv = root.rl.k + sum(v * env[a] for a, v in root.rl.c.items())
            sv = spec.k + sum(v * env[a] for a, v in spec.c.items())
            if sv != 0:
                cands.add(rv / sv)
        one_second = Q(10 ** 9, factor)
        best = None
        for kappa in cands:
            if kappa <= 0:
                continue
            lo, hi = fperr.rl_bounds(root.rl - spec.scale(kappa), cons, st.bnd)
            g, h = abs(kappa - 1), max(abs(lo), abs(hi))
            A = root.alpha + (1 + root.alpha) * g
            B = root.beta + (1 + root.alpha) * h
            tot = A + B / one_second
            if best is None or tot < best[0]:
                best = (tot, A, B, kappa)
        tot, A, B, kappa = best
        ok = tot <= K_ULPS * U
        _ob(chk, R[0], inst, "error<=%d*u*max(|value|,1s):%s" % (K_ULPS, region), ok, "rounding-error analysis of the path's float tree",
               detail={"total_in_u": round(float(tot / U), 3)} if ok else {"relative_part_in_u": float(A / U), "absolute_part_in_u_of_one_second": float(B / one_second / U),
                                       "tree": repr(tree)[:400]})
        # ---- R7: sign
        oks = A < 1 and B < (1 - A) * Q(1, factor)
        _ob(chk, R[1], inst, "error<smallest-nonzero-value:%s" % region, oks, "rounding-error analysis")
        if clo <= 0 <= chi and nlo <= 0 <= nhi:
            z = fperr.ceval(tree, _env(C, n, pairs, 0, 0))
            _ob(chk, R[1], inst, "zero-maps-to-zero", z == 0.0, "constant folding at T=0", detail=None if z == 0.0 else z)
        # ---- R8 inside the region: forward differences
        steps = []
        if nhi > nlo:
            for carries in itertools.product((False, True), repeat=len(pairs)):
                step = {C: 0, n: 1}
                for (q, r, k), carry in zip(pairs, carries):
                    if q is not None:
                        step[q] = 1 if carry else 0
                    if r is not None:
                        step[r] = -(k - 1) if carry else 1
                    if carry and k > nhi - nlo + 1:
                        step = None
                        break
                if step is not None:
                    steps.append(("n+1" + "".join("/carry%d" % k if c else "" for (q, r, k), c in zip(pairs, carries)), step))
        if chi > clo:
            step = {C: 1, n: nlo - nhi}
            for q, r, k in pairs:
                if q is not None:
                    step[q] = nlo // k - nhi // k
                if r is not None:
                    step[r] = nlo % k - nhi % k
            steps.append(("C+1,n:max->min", step))
        for name, step in steps:
            lo, hi = fperr.delta(tree, memo, step, cons, st.bnd)
            _ob(chk, R[2], inst, "forward-difference>=0:%s:%s" % (name, region), lo >= 0, "discrete-derivative analysis",
                   detail=None if lo >= 0 else {"lower_bound": float(lo)})
        recs.append({"min": (clo, nlo), "max": (chi, nhi), "tree": tree, "C": C, "n": n, "pairs": pairs, "region": region})
    return recs


def seams(chk, D, inst, recs, R):
    NPC = D.NPC
    recs.sort(key=lambda r: r["min"])
    T = lambda p: p[0] * NPC + p[1]
    ok = bool(recs) and T(recs[0]["min"]) == D.MIN_T and T(recs[-1]["max"]) == D.MAX_T
    for a, b in zip(recs, recs[1:]):
        if T(a["max"]) + 1 != T(b["min"]):
            ok = False
    _ob(chk, R[2], inst, "regions-tile-[MIN,MAX]", ok, "end points of consecutive regions", detail=None if ok else [r["region"] for r in recs])
    if not ok:
        return
    for a, b in zip(recs, recs[1:]):
        x = fperr.ceval(a["tree"], _env(a["C"], a["n"], a["pairs"], *a["max"]))
        y = fperr.ceval(b["tree"], _env(b["C"], b["n"], b["pairs"], *b["min"]))
        _ob(chk, R[2], inst, "seam-ordered:%s->%s" % (a["max"], b["min"]), x <= y, "constant folding at the two adjacent end points",
               detail=None if x <= y else {"below": x, "above": y})


def run_rule(chk, F, R=("C18.R6", "C18.R7", "C18.R8")):
    """R = (error rule, sign rule, monotonicity rule); a None entry skips that clause (C17 re-uses the error bound only)"""
    eng, D = ctx(F)
    nreg = 0
    for name in ("to_seconds", "to_unit"):
        fn = F.find1(self_ty="Duration", name=name, trait="")
        finals, args = D.run(fn)
        groups = {}
        for st in finals:
            if st.end != "return":
                continue  # C18.R3 decides panics
            unit = "Second" if name == "to_seconds" else scale_name(eng, st, args[1])
            groups.setdefault(unit, []).append(st)
        if name == "to_unit":
            _ob(chk, R[0], "Duration::to_unit", "all-nine-units", set(groups) == set(UNIT_FACTORS), "variant coverage", detail=sorted(map(str, groups)))
        for unit, sts in sorted(groups.items(), key=lambda x: str(x[0])):
            inst = "Duration::%s" % name + ("" if name == "to_seconds" else "[%s]" % unit)
            if unit not in UNIT_FACTORS:
                continue
            recs = []
            try:
                for st in sts:
                    if not isinstance(st.ret, Flt):
                        raise NotAnalysable("the path does not return a float term")
                    recs.extend(analyse_path(D, eng, st, args[0], st.ret.t, UNIT_FACTORS[unit], inst, chk, R))
                seams(chk, D, inst, recs, R)
            except (NotAnalysable, Infeasible) as e:
                _ob(chk, R[0], inst, "float-tree-analysable", False, "rounding-error analysis", detail=str(e)[:300])
            nreg += len(recs)
    chk.floor(R[0], "path regions analysed (to_seconds + 9 units of to_unit)", nreg, 40)
