"""C09.R7 - the year / month / day search of Epoch::compute_gregorian decided per day-count cell.

compute_gregorian turns a day count into (year, month, day) by a float estimate (days / 365), a loop that corrects for the
leap days of the years in between, a fix-up of the year when that correction crosses a year boundary, and a binary search in
the cumulative-day table.  Whether that inverts the calendar is decided here by a finite partition of the input, not by
running anything: the abstract interpreter is run on compute_gregorian with the day count an unknown integer of one cell
[365 k, 365 k + 364] (one value of the year estimate), in an integer-valued-double domain (an int -> f64 cast below 2^53,
+, -, comparisons are exact integer arithmetic; div_rem_f64 by 365.0 is the Euclidean quotient / remainder), the two
leap-day loops replaced by their closed form - justified by a one-symbolic-iteration analysis of each loop (the body adds
-1 / +1 to one accumulator exactly when is_leap_year(y) holds and touches nothing else) and by is_leap_year == the 4/100/400
rule (C08.R2) - and the table search split exactly.  Every path yields a constant year and month and the day as a linear
form of the day count; they are compared with the civil calendar (independent days-from-civil oracle) at both ends of the
path's own interval (the calendar is linear in between when both ends fall in the same month, which is part of the
comparison).  Casts that may fall outside their target type (month index, day as u8) are violations."""
import os
from multiprocessing import Pool
from ..sym import Engine, Int, Bool, Struct, Enum, SymEnum, Ref, Opq, Flt, Arr, St, c_lin, c_and, c_not
from ..lin import Lin, interval
from ..dur import DurCtx
from ..epochalg import EpochAlg
from ..havoc import Havoc
from .. import oracle, cfg
from .c20 import rec_hook, recs
from .c05 import fix_enum
from . import c13

RULE = "C09.R7"
INST = "Epoch::compute_gregorian"
BASE_1900 = oracle.days_from_civil(1900, 1, 1)
RANGE_NEXT = "core::iter::range::<impl core::iter::Iterator for core::ops::Range<A>>::next"
BSEARCH = "core::slice::<impl [T]>::binary_search"


def leap(y):
    return (y % 4 == 0 and y % 100 != 0) or y % 400 == 0


def leap_count(a, b):
    """number of leap years y with a <= y < b"""
    if b <= a:
        return 0

    def upto(n):  # leap years in (-inf, n) counted relative to a fixed origin
        n -= 1
        return n // 4 - n // 100 + n // 400
    return upto(b) - upto(a)


def make(F):
    eng = c13.make_engine(F, {})
    eng.lazy_enums = False
    eng.group_switch = False
    eng.sym_select = False
    eng.int_floats = True
    eng.max_paths = 1500
    eng.max_steps = 6000
    D = DurCtx(F, eng)
    return eng, D


class Ctx:
    def __init__(self, F):
        self.F = F
        self.eng, self.D = make(F)
        self.cg = F.find1(self_ty="Epoch", name="compute_gregorian", trait="")
        self.dec = F.find1(self_ty="Duration", name="decompose", trait="")
        self.comp = F.find1(self_ty="Duration", name="compose", trait="")
        self.drf = F.free_fn("epoch::div_rem_f64")
        self.ily = F.free_fn("gregorian::is_leap_year")
        self.A = EpochAlg(F, self.eng, self.D)
        self.summaries = None

    # ------------------------------------------------------------------ step A: loop bodies
    def loop_summaries(self, chk):
        eng, D = self.eng, self.D
        hv = Havoc(eng, [])
        self.A.install(duration_algebra=True, opaque_conv=True)
        hv.install()
        eng.hooks_by_id[self.ily["id"]] = rec_hook(D, "leap")
        eng.hooks_by_id[self.dec["id"]] = rec_hook(D, "decompose")
        eng.hooks_by_id[self.comp["id"]] = rec_hook(D, "compose")
        eng.hooks_by_id[self.drf["id"]] = rec_hook(D, "div_rem")
        from ..sym import DIVERGE

        def cut(e, st, c, a, dt, t):
            st.end = "cut"  # both loops lie before the table search: nothing after it matters for their bodies
            return [(st, DIVERGE)]
        eng.models[BSEARCH] = cut

        def setup(st, args):
            fix_enum(eng, st, args[1], "TAI")
            return [st]
        eng.max_block_visits = 2  # the year fix-ups may be `while` loops over a havoc'ed accumulator: not needed for the bodies
        try:
            finals, args = D.run(self.cg, extra=setup, interior=True)
        finally:
            eng.max_block_visits = None
        hv.uninstall()
        self.A.uninstall()
        sums = {}
        problems = []
        per_loop = {}
        loop_names = {}
        for st in finals:
            if st.end != "loop-back":
                continue
            keys = [t[1] for t in st.trace if isinstance(t, tuple) and t and t[0] == "loop-iter"]
            if not keys:
                continue
            key = keys[-1]
            # the loop's own frame: compute_gregorian itself, or a private helper the correction was moved into
            lfr = [f_ for f_ in st.frames if f_.fn["key"] == key[0]]
            if not lfr:
                problems.append("loop bb%d: frame not found" % key[1])
                continue
            fid = lfr[-1].fid
            names = {d.get("name"): i for i, d in enumerate(lfr[-1].fn["locals"]) if d.get("name")}
            info = hv.loops_seen.get(key, {})
            calls = recs(st, "leap")
            if len(calls) != 1:
                problems.append("loop bb%d: %d is_leap_year calls in one iteration" % (key[1], len(calls)))
                continue
            res = calls[0][1]
            t_ok = bool(eng.assume(st.clone(), res.c))
            f_ok = bool(eng.assume(st.clone(), c_not(res.c)))
            if t_ok == f_ok:
                problems.append("loop bb%d: leap predicate undecided on a path" % key[1])
                continue
            effect = {}
            for nm in info.get("havoced", []):
                l = names.get(nm)
                v = st.store.get((fid, l))
                if isinstance(v, Flt):
                    t = v.t
                    if t[0] == "sym":
                        effect[nm] = 0
                    elif t[0] == "op" and t[1] in ("Add", "Sub") and t[2][0] == "sym" and t[3] == ("c", 1.0):
                        effect[nm] = 1 if t[1] == "Add" else -1
                    else:
                        effect[nm] = "?"
                elif isinstance(v, Int):
                    effect[nm] = 0 if (len(v.lin.c) == 1 and v.lin.k == 0 and list(v.lin.c.values()) == [1]) else "?"
                else:
                    effect[nm] = "?"
            per_loop.setdefault(key, []).append((t_ok, effect))
            loop_names[key] = names
        for key, lst in per_loop.items():
            accs = set()
            ok = True
            delta = None
            for is_leap, eff in lst:
                nz = {k: v for k, v in eff.items() if v != 0}
                if not is_leap and nz:
                    ok = False
                if is_leap:
                    if len(nz) != 1 or list(nz.values())[0] not in (1, -1):
                        ok = False
                    else:
                        accs.add(list(nz)[0])
                        delta = list(nz.values())[0]
            ok = ok and len(accs) == 1 and {x[0] for x in lst} == {True, False}
            chk.ob(RULE, INST, "loop@bb%d-body:acc%s=1-iff-is_leap_year(y),nothing-else-written" % (key[1], "+" if delta == 1 else "-"), ok,
                   "one symbolic iteration (inductive step of the closed form)", detail=None if ok else lst)
            if ok:
                sums[key] = (loop_names[key][list(accs)[0]], delta)
        for p in problems:
            chk.ob(RULE, INST, "loop-body-analysable", False, detail=p)
        chk.floor(RULE, "leap-day loops summarised", len(sums), 2)
        self.summaries = sums
        self.hv = hv
        return sums


# ---------------------------------------------------------------------- step B: cells (run in worker processes)
_W = {}


def _worker_init(facts_path, summaries):
    from ..facts import Facts
    F = Facts(facts_path)
    cx = Ctx(F)
    cx.summaries = summaries
    cx.hv = Havoc(cx.eng, [])
    _W["cx"] = cx


def _bsearch_model(eng, st, c, args, dest_tid, t):
    from ..models import _arr_of
    arr = _arr_of(eng, st, args[0])
    x = eng.deref(st, args[1]) if isinstance(args[1], Ref) else args[1]
    if arr is None or not isinstance(x, Int) or not all(isinstance(e, Int) and e.lin.is_const() for e in arr.els):
        return NotImplemented
    vals = [e.lin.k for e in arr.els]
    if any(vals[i] >= vals[i + 1] for i in range(len(vals) - 1)):
        return NotImplemented
    ok_vi, err_vi = eng.variant_index(dest_tid, "Ok"), eng.variant_index(dest_tid, "Err")
    usz = eng.types[dest_tid]["variants"][ok_vi]["ftys"][0]
    out = []
    for i, v in enumerate(vals):
        for s2 in eng.assume(st.clone(), c_lin("eq", x.lin - v)):
            out.append((s2, Enum(dest_tid, ok_vi, (Int(Lin.const(i), usz),))))
    for i in range(len(vals) + 1):
        cnd = None
        if i > 0:
            cnd = c_lin("gt", x.lin - vals[i - 1])
        if i < len(vals):
            c2 = c_lin("lt", x.lin - vals[i])
            cnd = c2 if cnd is None else c_and(cnd, c2)
        for s2 in eng.assume(st.clone(), cnd):
            out.append((s2, Enum(dest_tid, err_vi, (Int(Lin.const(i), usz),))))
    return out


def run_cell(job):
    """job = (negative: bool, k) -> list of problem strings, number of paths"""
    negative, k = job
    cx = _W["cx"]
    eng, D, F = cx.eng, cx.D, cx.F
    lo, hi = 365 * k, 365 * k + 364
    cx.A.install(duration_algebra=True, opaque_conv=True)
    ndec = {"n": 0}

    def h_dec(e, st, c, a, dest_tid, t):
        d0_ = e.deref(st, a[0]) if isinstance(a[0], Ref) else a[0]
        T0_ = D.total(d0_)
        if (T0_ is not None and T0_.is_const()) or any((f_.fn.get("name") or "") == "gregorian_epoch_offset" for f_ in st.frames):
            return NotImplemented  # e.g. gregorian_epoch_offset -> subdivision -> decompose of a constant: evaluated for real
        n = len(recs(st, "decompose"))
        v = e.fresh(dest_tid, ("decompose", n, tuple(e.term(x) for x in a)))
        fs = list(v.fs)
        if n == 0:
            dd = e.atom("dd", lo, hi)
            fs[1] = Int(Lin.atom(dd), fs[1].tid)
        lims = [None, None, 23, 59, 59, 999, 999, 999]
        cons = []
        for i, lim in enumerate(lims):
            if lim is not None and isinstance(fs[i], Int):
                cons.append((fs[i].lin - lim, "<="))
        e.add_cons(st, cons)
        v2 = Struct(v.tid, fs)
        st.trace.append(("rec", "decompose", list(a), v2))
        return [(st, v2)]

    def h_drf(e, st, c, a, dest_tid, t):
        x, y = a
        lin = e.flt_int(st, x) if isinstance(x, Flt) else None
        if lin is None or not (isinstance(y, Flt) and y.t == ("c", 365.0)):
            # the day count is not an exact integer view of decompose's day field (e.g. it went through to_seconds()): outside the
            # domain in which this rule can decide anything - end the path with an event instead of interpreting float code
            from ..sym import DIVERGE
            st.end = "cut"
            e.event(st, "imprecise", "the day count handed to div_rem_f64 is not an integer-valued double derived from decompose()'s days")
            return [(st, DIVERGE)]
        el = e.types[dest_tid]["elems"]
        q = e.atom("q(%r)" % (lin,), -(1 << 31), (1 << 31) - 1)
        r = e.atom("r(%r)" % (lin,), 0, 364)
        e.add_cons(st, [(Lin({q: 365, r: 1}) - lin, "==")])
        st.trace.append(("days_f64", lin))
        rl = Lin.atom(r)
        qlo, qhi = e.fm_bounds(st, Lin.atom(q))
        out = []
        if qhi - qlo > 3:
            return [(st, Struct(dest_tid, [Int(Lin.atom(q), el[0]), Flt(("i2f", rl.key(), rl))]))]
        for qv in range(int(qlo), int(qhi) + 1):
            for s2 in e.assume(st.clone(), c_lin("eq", Lin.atom(q) - qv)):
                out.append((s2, Struct(dest_tid, [Int(Lin.const(qv), el[0]), Flt(("i2f", rl.key(), rl))])))
        return out

    def h_next(e, st, c, a, dest_tid, t):
        fr = st.frames[-1]
        if not cx.hv.is_driver(fr.fn, fr.bb, t):
            return NotImplemented
        key = (fr.fn["key"], fr.bb)
        if key not in cx.summaries:
            return NotImplemented
        acc, delta = cx.summaries[key]
        it = e.deref(st, a[0])
        if not (isinstance(it, Struct) and len(it.fs) == 2 and all(isinstance(f, Int) for f in it.fs)):
            return NotImplemented
        ca, cb = e.const_of(st, it.fs[0]), e.const_of(st, it.fs[1])
        if ca is None or cb is None:
            return NotImplemented
        v = st.store.get((fr.fid, acc))
        lin = e.flt_int(st, v) if isinstance(v, Flt) else None
        if lin is None:
            return NotImplemented
        new = lin + delta * leap_count(ca, cb)
        st.store[(fr.fid, acc)] = Flt(("i2f", new.key(), new))
        st.trace.append(("loop-summary", key[1], ca, cb, delta * leap_count(ca, cb)))
        return [(st, e.mk_option(dest_tid, None))]
    eng.hooks_by_id[cx.dec["id"]] = h_dec
    eng.hooks_by_id[cx.comp["id"]] = rec_hook(D, "compose")
    eng.hooks_by_id[cx.drf["id"]] = h_drf
    eng.hooks[RANGE_NEXT] = h_next
    eng.models[BSEARCH] = _bsearch_model

    def setup(st, args):
        fix_enum(eng, st, args[1], "TAI")
        c = D.parts(args[0])[0]
        return eng.assume(st, c_lin("lt", c) if negative else c_lin("ge", c))
    try:
        finals, args = D.run(cx.cg, extra=setup, interior=True)
    finally:
        eng.hooks.pop(RANGE_NEXT, None)
        cx.A.uninstall()
    problems = []
    npaths = 0
    dd = eng.atoms.get("dd")
    for st in finals:
        if st.end != "return":
            problems.append("path ends in %s: %s" % (st.end, [e["msg"][:80] for e in st.events][-1:]))
            continue
        bad = [e for e in st.events if e["kind"] in ("panic", "lossy_cast", "limit", "unmodelled", "imprecise", "unreachable", "wrap")]
        dl = [t[1] for t in st.trace if isinstance(t, tuple) and t and t[0] == "days_f64"]
        if dd is None or len(dl) != 1:
            problems.append("no single day count on the path")
            continue
        ddl = Lin.atom(dd)
        a, b = eng.fm_bounds(st, ddl)
        npaths += 1
        r = st.ret
        if not (isinstance(r, Struct) and len(r.fs) == 7 and all(isinstance(x, Int) for x in r.fs[:3])):
            problems.append("unexpected return value")
            continue
        for e_ in sorted({a, b}):
            st2 = st.clone()
            ss = eng.assume(st2, c_lin("eq", ddl - e_))
            if not ss:
                continue
            st2 = ss[0]
            n = eng.fm_bounds(st2, dl[0])
            if n[0] != n[1]:
                problems.append("day count not determined")
                continue
            Y, M, Dm = oracle.civil_from_days(n[0] + BASE_1900)
            if not (1 <= Y <= 9999):
                continue  # outside the statement's span
            if bad:
                problems.append("day %d (%04d-%02d-%02d): %s" % (n[0], Y, M, Dm, bad[0]["msg"][:90]))
                continue
            got = []
            for x in r.fs[:3]:
                g = eng.fm_bounds(st2, x.lin)
                got.append(g[0] if g[0] == g[1] else None)
            if got != [Y, M, Dm]:
                problems.append("day %d is %04d-%02d-%02d, computed %s" % (n[0], Y, M, Dm, got))
    return (negative, k, sorted(set(problems))[:4], npaths)


def cells_for(tier):
    pos_max, neg_max = 8101, 1902
    if tier == "thorough":
        ks_p, ks_n = range(0, pos_max), range(0, neg_max)
    else:
        def sample(mx, spots, stride):
            s = set(range(0, mx, stride))
            for c in spots:
                s.update(x for x in range(c - 3, c + 4) if 0 <= x < mx)
            return sorted(s)
        ks_p = sample(pos_max, [0, 100, 200, 500, 1000, 1505, 1508, 1512, 2100, 3008, 4000, 6000, 8098], 61)
        ks_n = sample(neg_max, [0, 4, 100, 300, 301, 400, 1000, 1500, 1507, 1890, 1899], 37)
    return [(False, k) for k in ks_p] + [(True, k) for k in ks_n]


def run_rule(chk, F, tier):
    cx = Ctx(F)
    sums = cx.loop_summaries(chk)
    # is_leap_year == the 4/100/400 rule on every year (same evaluation as C08.R2, repeated so that this rule stands alone)
    eng, D = cx.eng, cx.D
    from .c08 import leap_pair
    finals, args = D.run(cx.ily)
    okl = True
    for st in finals:
        if st.end != "return" or not isinstance(st.ret, Bool):
            okl = False
            continue
        want, nwant = leap_pair(eng, args[0].lin)
        t_ok = bool(eng.assume(st.clone(), c_and(st.ret.c, nwant)))
        f_ok = bool(eng.assume(st.clone(), c_and(c_not(st.ret.c), want)))
        if t_ok or f_ok:
            okl = False
    chk.ob(RULE, "is_leap_year", "==(y%4==0&&y%100!=0)||y%400==0", okl and len(finals) >= 1, "decision table over symbolic year")
    if len(sums) < 2:
        return
    jobs = cells_for(tier)
    nproc = min(16, os.cpu_count() or 4)
    with Pool(nproc, initializer=_worker_init, initargs=(F.path, sums)) as pool:
        res = pool.map(run_cell, jobs, chunksize=max(1, len(jobs) // (nproc * 8)))
    paths = sum(r[3] for r in res)
    for negative in (False, True):
        sub = [r for r in res if r[0] == negative]
        failing = [r for r in sub if r[2] or r[3] < 1]
        label = "before-1900(sign<0)" if negative else "from-1900(sign>=0)"

        def year_of(k):
            return oracle.civil_from_days((-(365 * k + 364) if negative else 365 * k) + BASE_1900)[0]
        ok = not failing
        chk.ob(RULE, INST, "cells[%s]:(year,month,day)==civil-calendar" % label, ok,
               "per-cell abstract interpretation vs days-from-civil oracle (%d cells, %d paths in all)" % (len(sub), paths),
               detail=None if ok else {"failing_cells": len(failing), "of": len(sub), "years_of_failing_cells": "%d..%d" % (
                   min(year_of(r[1]) for r in failing), max(year_of(r[1]) for r in failing)),
                   "examples": [{"cell_days": [365 * r[1], 365 * r[1] + 364], "problems": r[2]} for r in failing[:3] + failing[-2:]]}, sample=True)
        for r in sub:
            if not (r[2] or r[3] < 1):
                chk.ob(RULE, INST, "cell:(year,month,day)==civil-calendar", True, "per-cell abstract interpretation vs days-from-civil oracle")
    nbad = sum(1 for r in res if r[2] or r[3] < 1)
    chk.floor(RULE, "day-count cells decided", len(res), 150 if tier != "thorough" else 10000)
    chk.extra["c09_year_cells"] = {"cells": len(res), "failing": nbad, "paths": paths, "tier": tier}
