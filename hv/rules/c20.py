"""C20 - GNSS week/time-of-week, ns counters and day-of-year are exact and invertible."""
from ..sym import Engine, Int, Bool, Struct, Enum, SymEnum, Ref, Opq, Flt, St, c_lin
from ..lin import Lin
from ..dur import DurCtx, describe_path, via
from ..epochalg import EpochAlg, same_scale, scale_name
from .. import oracle
from . import c02
from .c02 import ctx, no_bad_events, exact_or_saturated
from .c03 import ordering_name

LEVEL = "other"
EXPLANATION = (
    "Abstract interpretation (linear forms, division axioms) of from_time_of_week / to_time_of_week: the epoch built "
    "is from_total_nanoseconds(ns + week*7*86400e9) in the given scale; for epochs at or after the reference the "
    "decomposition satisfies week*7d + ns == count, 0 <= ns < 7 d with lossless casts (the two are then mutually "
    "inverse by the division identity). The GNSS nanosecond counters build Epoch{from_parts(0, ns), S} for the right "
    "S and read back Ok(n) only under centuries == 0 of the duration in that scale (Err otherwise: negative or more "
    "than a century). day_of_year/from_day_of_year use the same from_gregorian(year,1,1,0,0,0,0,scale) anchor with "
    "paired +1.0/-1.0 (sibling agreement); their float accuracy is not decided.")

WEEK_NS = 7 * 86400 * 10 ** 9


def rec_hook(D, tag, skip_const=False):
    """Uninterpreted callee that records (args, result) on the path's own trace.
    skip_const: calls whose Duration argument is a constant are analysed for real (constant folding)."""
    def h(e, st, c, a, dest_tid, t):
        if skip_const and a:
            d0 = e.deref(st, a[0]) if isinstance(a[0], Ref) else a[0]
            T0 = D.total(d0)
            if T0 is not None and T0.is_const():
                return NotImplemented
            if any(isinstance(x, Flt) and x.t[0] == "c" for x in a):
                return NotImplemented
        v = e.fresh(dest_tid, (tag, tuple(e.term(x) for x in a)))
        for d in D.find_durations(v, st):
            e.add_cons(st, [(D.parts(d)[1] - (D.NPC - 1), "<=")])
        st.trace.append(("rec", tag, list(a), v))
        return [(st, v)]
    return h


def recs(st, tag):
    return [(t[2], t[3]) for t in st.trace if isinstance(t, tuple) and len(t) == 4 and t[0] == "rec" and t[1] == tag]


def time_of_week(chk, F):
    rule = "C20.R1"
    eng, D = ctx(F)
    fn = F.find1(self_ty="Epoch", name="from_time_of_week", trait="")
    finals, args = D.run(fn)
    spec = args[1].lin + args[0].lin.scale(WEEK_NS)
    n = 0
    for st in finals:
        if st.end != "return":
            continue
        r = st.ret
        ok = isinstance(r, Struct) and len(r.fs) == 2 and same_scale(eng, st, r.fs[1], args[2])
        chk.ob(rule, "Epoch::from_time_of_week", "scale=argument", ok, "frame")
        if isinstance(r, Struct):
            st2 = st.clone()
            st2.ret = r.fs[0]
            n += exact_or_saturated(chk, rule, "Epoch::from_time_of_week", D, eng, [st2], lambda s: spec)
    no_bad_events(chk, rule, "Epoch::from_time_of_week", finals, eng)
    chk.floor(rule, "from_time_of_week partitions", n, 1)

    fn = F.find1(self_ty="Epoch", name="to_time_of_week", trait="")

    def nonneg(st, a):
        ep = eng.deref(st, a[0])
        return eng.assume(st, c_lin("ge", D.parts(ep.fs[0])[0]))

    finals, args = D.run(fn, extra=nonneg)
    m = 0
    for st in finals:
        if st.end != "return":
            continue
        ep = eng.deref(st, args[0])
        T = D.total(ep.fs[0])
        r = st.ret
        if not (isinstance(r, Struct) and len(r.fs) == 2 and isinstance(r.fs[0], Int) and isinstance(r.fs[1], Int)):
            chk.ob(rule, "Epoch::to_time_of_week", "result-shape", False, detail=repr(r))
            continue
        w, ns = r.fs[0].lin, r.fs[1].lin
        m += 1
        ok = D.implies(st, w.scale(WEEK_NS) + ns - T, "==")
        chk.ob(rule, "Epoch::to_time_of_week", "week*7d+ns==count", ok, "linear form with division axioms",
               detail=None if ok else {"week": repr(w), "ns": repr(ns), "count": repr(T), "path": describe_path(eng, st)}, sample=True)
        ok2 = D.implies(st, ns - (WEEK_NS - 1), "<=") and D.implies(st, -ns, "<=")
        chk.ob(rule, "Epoch::to_time_of_week", "0<=ns<7d", ok2, "interval from division axioms",
               detail=None if ok2 else {"ns": repr(ns), "bounds": eng.fm_bounds(st, ns)})
    no_bad_events(chk, rule, "Epoch::to_time_of_week", finals, eng)
    chk.floor(rule, "to_time_of_week partitions", m, 1)
    fn = F.find1(self_ty="Epoch", name="from_time_of_week_utc", trait="")
    tow = F.find1(self_ty="Epoch", name="from_time_of_week", trait="")
    eng.hooks_by_id = {tow["id"]: rec_hook(D, "ftow")}
    finals, args = D.run(fn)
    eng.hooks_by_id = {}
    for st in finals:
        rec = recs(st, "ftow")
        ok = st.end == "return" and len(rec) == 1 and rec[0][0][0] is args[0] and rec[0][0][1] is args[1] and \
            scale_name(eng, st, rec[0][0][2]) == "UTC" and st.ret is rec[0][1]
        chk.ob(rule, "Epoch::from_time_of_week_utc", "delegates(week,ns,UTC)", ok, "E5 delegation")


def counters(chk, F):
    rule = "C20.R2"
    eng, D = ctx(F)
    n = 0
    for name, scale in (("from_gpst_nanoseconds", "GPST"), ("from_qzsst_nanoseconds", "QZSST"), ("from_gst_nanoseconds", "GST"),
                        ("from_bdt_nanoseconds", "BDT")):
        fn = F.find1(self_ty="Epoch", name=name, trait="")
        finals, args = D.run(fn)
        n += 1
        for st in finals:
            if st.end != "return":
                continue
            r = st.ret
            ok = isinstance(r, Struct) and scale_name(eng, st, r.fs[1]) == scale
            chk.ob(rule, "Epoch::%s" % name, "scale=%s" % scale, ok, "frame")
            T = D.total(r.fs[0]) if isinstance(r, Struct) else None
            oke = T is not None and D.implies_eq(st, T, args[0].lin) and D.is_canonical(st, r.fs[0])
            chk.ob(rule, "Epoch::%s" % name, "count==ns", oke, "linear form", detail=None if oke else repr(T))
        no_bad_events(chk, rule, "Epoch::%s" % name, finals, eng)
    chk.floor(rule, "from_S_nanoseconds constructors", n, 4)
    A = EpochAlg(F, eng, D)
    fn = F.find1(self_ty="Epoch", name="to_nanoseconds_in_time_scale", trait="")
    A.install(duration_algebra=False, opaque_conv=True)
    finals, args = D.run(fn, interior=True)
    A.uninstall()
    nok = nerr = 0
    for st in finals:
        if st.end != "return":
            continue
        ep = eng.deref(st, args[0])
        convs = [t for t in st.trace if isinstance(t, tuple) and t and t[0] == "conv-call"]
        okc = len(convs) == 1 and convs[0][1] is ep and same_scale(eng, st, convs[0][2], args[1])
        chk.ob(rule, "Epoch::to_nanoseconds_in_time_scale", "reads-duration-in-requested-scale", okc, "E5 operand flow")
        if not okc:
            continue
        c, nn = D.parts(convs[0][3])
        v = st.ret
        nm = ordering_name(eng, v)
        if nm == "Ok":
            nok += 1
            ok = D.implies(st, c, "==") and isinstance(v.fs[0], Int) and D.implies_eq(st, v.fs[0].lin, nn)
            chk.ob(rule, "Epoch::to_nanoseconds_in_time_scale", "Ok(n)=>centuries==0,n==nanoseconds", ok, "dominating guard",
                   detail=None if ok else describe_path(eng, st))
        elif nm == "Err":
            nerr += 1
            ok = not D.feasible(st, [(c, "==")])
            chk.ob(rule, "Epoch::to_nanoseconds_in_time_scale", "Err=>centuries!=0", ok, "dominating guard",
                   detail=None if ok else describe_path(eng, st))
        else:
            chk.ob(rule, "Epoch::to_nanoseconds_in_time_scale", "result-shape", False, detail=repr(v))
    chk.floor(rule, "Ok paths", nok, 1)
    chk.floor(rule, "Err paths", nerr, 1)
    inner = F.find1(self_ty="Epoch", name="to_nanoseconds_in_time_scale", trait="")
    m = 0
    for name, scale in (("to_gpst_nanoseconds", "GPST"), ("to_qzsst_nanoseconds", "QZSST"), ("to_gst_nanoseconds", "GST"),
                        ("to_bdt_nanoseconds", "BDT")):
        fn = F.find1(self_ty="Epoch", name=name, trait="")
        eng.hooks_by_id = {inner["id"]: rec_hook(D, "tnits")}
        finals, args = D.run(fn)
        eng.hooks_by_id = {}
        m += 1
        for st in finals:
            rec = recs(st, "tnits")
            ok = st.end == "return" and len(rec) == 1 and _same_ref(eng, st, rec[0][0][0], args[0]) and \
                scale_name(eng, st, rec[0][0][1]) == scale and st.ret is rec[0][1]
            chk.ob(rule, "Epoch::%s" % name, "delegates(self,%s)" % scale, ok, "E5 delegation")
    chk.floor(rule, "to_S_nanoseconds wrappers", m, 4)


def day_of_year(chk, F, rule="C20.R3"):
    eng, D = ctx(F)
    fg = F.find1(self_ty="Epoch", name="from_gregorian", trait="")
    fy = F.find1(self_ty="Epoch", name="year", trait="")
    tu = F.find1(self_ty="Duration", name="to_unit", trait="")
    um = F.find1(self_ty="Unit", name="mul", trait_ref="Mul<f64>")
    A = EpochAlg(F, eng, D)

    # duration_in_year
    A.install(duration_algebra=True, opaque_conv=True)
    eng.hooks_by_id[fg["id"]] = rec_hook(D, "from_gregorian")
    eng.hooks_by_id[fy["id"]] = rec_hook(D, "year")
    fn = F.find1(self_ty="Epoch", name="duration_in_year", trait="")
    finals, args = D.run(fn, interior=True)
    A.uninstall()
    for st in finals:
        if st.end != "return":
            continue
        ep = eng.deref(st, args[0])
        rec_g, rec_y = recs(st, "from_gregorian"), recs(st, "year")
        ok = len(rec_g) == 1 and len(rec_y) == 1 and _anchor_args(eng, st, rec_g[0][0], rec_y[0][1], ep.fs[1])
        chk.ob(rule, "Epoch::duration_in_year", "anchor=from_gregorian(self.year(),1,1,0,0,0,0,self.time_scale)", ok, "E5 operand flow",
               detail=None if ok else [repr(x) for x in (rec_g[0][0] if rec_g else [])])
        if ok:
            TR = D.total(st.ret)
            st2 = st.clone()
            D.close(st2, [TR])
            oke = D.implies_eq(st2, TR, D.total(ep.fs[0]) - D.total(rec_g[0][1].fs[0]))
            chk.ob(rule, "Epoch::duration_in_year", "self.duration-anchor.duration", oke, "Duration-level linear form")
    # day_of_year = to_unit(duration_in_year, Day) + 1.0
    diy = F.find1(self_ty="Epoch", name="duration_in_year", trait="")
    eng.hooks_by_id = {diy["id"]: rec_hook(D, "duration_in_year"), tu["id"]: rec_hook(D, "to_unit")}
    fn = F.find1(self_ty="Epoch", name="day_of_year", trait="")
    finals, args = D.run(fn)
    eng.hooks_by_id = {}
    for st in finals:
        if st.end != "return":
            continue
        r = st.ret
        rec_d, rec_u = recs(st, "duration_in_year"), recs(st, "to_unit")
        ok = (isinstance(r, Flt) and r.t[0] == "op" and r.t[1] == "Add" and r.t[3] == ("c", 1.0) and len(rec_u) == 1 and
              isinstance(rec_u[0][1], Flt) and r.t[2] == rec_u[0][1].t and scale_name(eng, st, rec_u[0][0][1]) == "Day" and
              len(rec_d) == 1 and eng.deref(st, rec_u[0][0][0]) is rec_d[0][1])
        chk.ob(rule, "Epoch::day_of_year", "duration_in_year().to_unit(Day)+1.0", ok, "float term shape", detail=None if ok else repr(r))
    # from_day_of_year = from_gregorian(year,1,1,0,0,0,0,scale) + (days - 1.0) * Unit::Day
    A.install(duration_algebra=True, opaque_conv=True)
    eng.hooks_by_id[fg["id"]] = rec_hook(D, "from_gregorian")
    eng.hooks_by_id[um["id"]] = rec_hook(D, "unit*f64")
    fn = F.find1(self_ty="Epoch", name="from_day_of_year", trait="")
    finals, args = D.run(fn, interior=True)
    A.uninstall()
    for st in finals:
        if st.end != "return":
            continue
        rec_g, rec_m = recs(st, "from_gregorian"), recs(st, "unit*f64")
        ok = len(rec_g) == 1 and _anchor_args(eng, st, rec_g[0][0], args[0], args[2])
        chk.ob(rule, "Epoch::from_day_of_year", "anchor=from_gregorian(year,1,1,0,0,0,0,scale)", ok, "E5 operand flow")
        okm = len(rec_m) == 1 and scale_name(eng, st, rec_m[0][0][0]) == "Day" and isinstance(rec_m[0][0][1], Flt) and \
            rec_m[0][0][1].t == ("op", "Sub", args[1].t, ("c", 1.0))
        chk.ob(rule, "Epoch::from_day_of_year", "offset=(days-1.0)*Unit::Day", okm, "float term shape",
               detail=None if okm else repr(rec_m[0][0][1]) if rec_m else None)
        r = st.ret
        if ok and okm and isinstance(r, Struct):
            st2 = st.clone()
            TR = D.total(r.fs[0])
            D.close(st2, [TR])
            oke = D.implies_eq(st2, TR, D.total(rec_g[0][1].fs[0]) + D.total(rec_m[0][1])) and same_scale(eng, st, r.fs[1], rec_g[0][1].fs[1])
            chk.ob(rule, "Epoch::from_day_of_year", "anchor+offset", oke, "Duration-level linear form")


def _same_ref(eng, st, a, b):
    if a is b:
        return True
    if isinstance(a, Ref) and isinstance(b, Ref):
        if a.key is not None and a.key == b.key and a.proj == b.proj:
            return True
        return eng.deref(st, a) is eng.deref(st, b)
    return False


def _anchor_args(eng, st, a, year, scale):
    """from_gregorian(year, 1, 1, 0, 0, 0, 0, scale)"""
    if len(a) != 8:
        return False
    if not (a[0] is year or (isinstance(a[0], Int) and isinstance(year, Int) and a[0].lin == year.lin)):
        return False
    want = [1, 1, 0, 0, 0, 0]
    for x, w in zip(a[1:7], want):
        if not (isinstance(x, Int) and x.lin == Lin.const(w)):
            return False
    return same_scale(eng, st, a[7], scale)


def run(chk, F, tier):
    time_of_week(chk, F)
    counters(chk, F)
    day_of_year(chk, F)
    # the year whose start is the day-of-year origin is the year of the epoch in its own scale (same evaluation as C09.R5)
    from .c09 import r5_accessors
    r5_accessors(chk, F, rule="C20.R3", which=(("year", 0),))
    eng, D = ctx(F)
    chk.extra["engine_stats"] = dict(eng.stats)
    chk.assumptions.append("to_time_of_week: epochs at or after the scale's reference (centuries >= 0), as the statement says")
    chk.assumptions.append("'agree to float precision' for day of year is floating-point accuracy: not decided")
