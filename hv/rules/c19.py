"""C19 - strftime-style formatting prints the right field per token; consts match docs."""
import re
from ..sym import Engine, Int, Bool, Struct, Enum, SymEnum, Ref, Opq, Flt, Str, Arr, St, c_lin, TRUE, FALSE
from ..lin import Lin
from ..dur import DurCtx, describe_path
from ..epochalg import same_scale, scale_name
from ..models import outputs, FmtArgs, FmtArg
from ..fmtmodel import FormatBuilder, parse_format_oracle, TOKENS
from .. import cfg
from .c02 import ctx, no_bad_events
from .c20 import rec_hook, recs

LEVEL = "other"
EXPLANATION = (
    "Display for Formatter is explored by abstract interpretation over *abstract formats built per rule* (every "
    "single-token format, token pairs with 0/1/2 separators in both the Gregorian and the non-Gregorian branch, the "
    "nine predefined constants) with a symbolic epoch and offset; compute_gregorian, day_of_year, weekday, month_name "
    "and decompose are uninterpreted field sources. R1 token -> (field, format spec) table from the decoded "
    "fmt::Arguments templates; R2 letter -> Token map read from Format::from_str's switch and Item::new's "
    "separator/optional decision table; R3 each predefined constant equals the format string it documents (rustdoc "
    "pairs, else the standard named in the statement) parsed with the semantics established by R2; R4 exhaustiveness: "
    "no panic/unreachable for any token in either branch, Format's fields are crate-private; R5 separators written "
    "exactly once between tokens; R6 the ISO 8601 constant renders as the default Display template. parse(format(e)) "
    "round trips and the correctness of the field sources themselves are other properties' (C09, C10, C16).")

LETTERS = {"Y": "Year", "y": "YearShort", "m": "Month", "b": "MonthNameShort", "B": "MonthName", "d": "Day", "j": "DayOfYearInteger",
           "J": "DayOfYear", "A": "Weekday", "a": "WeekdayShort", "H": "Hour", "M": "Minute", "S": "Second", "f": "Subsecond",
           "T": "Timescale", "w": "WeekdayDecimal", "z": "OffsetHours"}
# token -> (field source, display kind, width, zero_pad)
SPEC = {
    "Year": ("cg.0", "display", 4, True), "Month": ("cg.1", "display", 2, True), "Day": ("cg.2", "display", 2, True),
    "Hour": ("cg.3", "display", 2, True), "Minute": ("cg.4", "display", 2, True), "Second": ("cg.5", "display", 2, True),
    "Subsecond": ("cg.6", "display", 9, True), "DayOfYearInteger": ("floor(doy)", "display", 3, True), "DayOfYear": ("doy", "display", None, False),
    "Weekday": ("weekday", "display", None, False), "WeekdayShort": ("weekday", "lower_hex", None, False),
    "WeekdayDecimal": ("c89(weekday)", "display", None, False), "MonthName": ("month_name", "display", None, False),
    "MonthNameShort": ("month_name", "lower_hex", None, False), "Timescale": ("time_scale", "display", None, False),
}
GREG = {"Year", "YearShort", "Month", "MonthName", "MonthNameShort", "Day", "Hour", "Minute", "Second", "Subsecond", "OffsetHours", "OffsetMinutes"}
STANDARD_STRINGS = {
    "ISO8601_FLEX": "%Y-%m-%dT%H:%M:%S.%f? %T?", "ISO8601_STD": "%Y-%m-%dT%H:%M:%S.%f", "RFC3339": "%Y-%m-%dT%H:%M:%S.%f%z",
    "RFC3339_FLEX": "%Y-%m-%dT%H:%M:%S.%f?%z",
}


class Renderer:
    def __init__(self, F):
        self.F = F
        self.eng, self.D = ctx(F)
        self.B = FormatBuilder(F, self.eng)
        e = self.eng
        self.fn = F.find1(self_ty="Formatter", name="fmt", trait_ref="Display")
        self.cg = F.find1(self_ty="Epoch", name="compute_gregorian", trait="")
        self.doy = F.find1(self_ty="Epoch", name="day_of_year", trait="")
        self.wd = F.find1(self_ty="Epoch", name="weekday", trait="")
        self.mn = F.find1(self_ty="Epoch", name="month_name", trait="")
        self.dec = F.find1(self_ty="Duration", name="decompose", trait="")
        self.c89 = F.find1(self_ty="Weekday", name="to_c89_weekday", trait="")

    def explore(self, items):
        eng, D, B = self.eng, self.D, self.B
        fmt = B.format(items)

        def setup(st, args):
            fm = eng.deref(st, args[0])
            names = eng.types[fm.tid]["variants"][0]["fields"]
            fs = list(fm.fs)
            fs[names.index("format")] = fmt
            eng.write_key(st, args[0].key, args[0].proj, Struct(fm.tid, fs))
            return [st]
        eng.hooks_by_id = {self.cg["id"]: rec_hook(D, "cg"), self.doy["id"]: rec_hook(D, "doy"), self.wd["id"]: rec_hook(D, "weekday"),
                           self.mn["id"]: rec_hook(D, "month_name"), self.dec["id"]: rec_hook(D, "decompose"), self.c89["id"]: rec_hook(D, "c89")}
        finals, args = D.run(self.fn, extra=setup, interior=True)
        eng.hooks_by_id = {}
        return finals, args

    def render(self, st, args):
        """The output of one path as a list of ("lit", text) | ("field", source, kind, width, zero_pad) | ("?", repr)"""
        eng = self.eng
        fm = eng.deref(st, args[0])
        names = eng.types[fm.tid]["variants"][0]["fields"]
        ep = fm.fs[names.index("epoch")]
        src = {}
        for tag in ("cg", "doy", "weekday", "month_name", "decompose", "c89"):
            for a, v in recs(st, tag):
                if tag in ("cg", "decompose") and isinstance(v, Struct):
                    for i, f in enumerate(v.fs):
                        src[id(f)] = "%s.%d" % ("cg" if tag == "cg" else "offset", i)
                        if isinstance(f, Int):
                            src[("lin", f.lin.key())] = "%s.%d" % ("cg" if tag == "cg" else "offset", i)
                elif tag == "doy":
                    src[("flt", v.t)] = "doy"
                elif tag == "c89":
                    src[id(v)] = "c89(weekday)"
                    if isinstance(v, Int):
                        src[("lin", v.lin.key())] = "c89(weekday)"
                else:
                    src[id(v)] = tag
        out = []
        for o in outputs(st):
            if o[1] == "str":
                out.append(("lit", o[2]))
                continue
            fa = o[2]
            for p in fa.pieces:
                if p[0] == "lit":
                    out.append(("lit", p[1]))
                    continue
                a = fa.args[p[1]["index"]]
                v = a.val
                name = None
                if id(v) in src:
                    name = src[id(v)]
                elif isinstance(v, Int) and ("lin", v.lin.key()) in src:
                    name = src[("lin", v.lin.key())]
                elif isinstance(v, Int) and v.lin.is_const() and eng.types[v.tid]["k"] == "char":
                    out.append(("lit", chr(v.lin.k)))
                    continue
                elif isinstance(v, Flt) and ("flt", v.t) in src:
                    name = src[("flt", v.t)]
                elif isinstance(v, Int) and v.lin.c:
                    # floor(doy) as u16: a float->int cast atom of floor(doy)
                    for nm, term in getattr(eng, "fresh_terms", {}).items():
                        at = eng.atoms.get(nm)
                        if at is not None and v.lin == Lin.atom(at) and isinstance(term, tuple) and term[0] == "f2i" and term[1][0] == "op1" and \
                                term[1][1] == "floor" and ("flt", term[1][2]) in src:
                            name = "floor(%s)" % src[("flt", term[1][2])]
                elif (isinstance(v, (SymEnum, Enum))) and same_scale(eng, st, v, ep.fs[1]):
                    name = "time_scale"
                if name is None and isinstance(v, (SymEnum, Enum)) and same_scale(eng, st, v, ep.fs[1]):
                    name = "time_scale"
                if name is None and isinstance(v, Int) and len(v.lin.c) == 2:
                    inv = {}
                    for kk, nn in src.items():
                        if isinstance(kk, tuple) and kk[0] == "lin":
                            inv[nn] = kk[1]
                    for a1, c1 in v.lin.c.items():
                        for a2, c2 in v.lin.c.items():
                            if c1 == 24 and c2 == 1 and inv.get("offset.1") == Lin.atom(a1).key() and inv.get("offset.2") == Lin.atom(a2).key():
                                name = "offset.2+24*offset.1"
                if name is None and isinstance(v, Int) and v.lin.is_const():
                    name = "const:%d" % v.lin.k
                if name is None:
                    out.append(("?", repr(v)[:80]))
                else:
                    out.append(("field", name, a.kind, p[1]["width"], p[1]["zero_pad"]))
        # merge adjacent literals
        merged = []
        for x in out:
            if x[0] == "lit" and merged and merged[-1][0] == "lit":
                merged[-1] = ("lit", merged[-1][1] + x[1])
            else:
                merged.append(x)
        return merged


def expected_token(tok):
    s = SPEC[tok]
    return ("field", s[0], s[1], s[2], s[3])


def r1_token_table(chk, F, R):
    rule = "C19.R1"
    eng, D = R.eng, R.D
    n = 0
    for tok in TOKENS:
        if tok not in SPEC:
            continue
        for optional in ((False, True) if tok in ("Subsecond", "Timescale") else (False,)):
            finals, args = R.explore([(tok, None, None, optional)])
            n += 1
            inst = "Formatter[%%%s%s]" % ([k for k, v in LETTERS.items() if v == tok][0], "?" if optional else "")
            rets = [st for st in finals if st.end == "return"]
            if not rets:
                ev = [e["msg"] for st in finals for e in st.events][:3]
                chk.ob("C19.R4", inst, "renders-without-panic", False, "reachability",
                       detail={"ends": sorted({st.end for st in finals}), "events": ev, "branch": "gregorian" if tok in GREG else "non-gregorian"})
                continue
            chk.ob("C19.R4", inst, "renders-without-panic", all(st.end == "return" for st in finals), "reachability",
                   detail=None if all(st.end == "return" for st in finals) else [e["msg"] for st in finals for e in st.events][:3])
            seen = set()
            for st in rets:
                got = R.render(st, args)
                want = [expected_token(tok)]
                if optional and got == []:
                    # omitted: must be under the zero / UTC guard
                    fm = eng.deref(st, args[0])
                    names = eng.types[fm.tid]["variants"][0]["fields"]
                    ep = fm.fs[names.index("epoch")]
                    if tok == "Subsecond":
                        cgs = recs(st, "cg")
                        ok = len(cgs) == 1 and D.implies(st, cgs[0][1].fs[6].lin, "==")
                    else:
                        ok = scale_name(eng, st, ep.fs[1]) == "UTC"
                    chk.ob(rule, inst, "omitted=>zero/UTC", ok, "dominating guard")
                    seen.add("omitted")
                    continue
                ok = got == want
                seen.add("printed")
                chk.ob(rule, inst, "prints-%s-as-%s" % (SPEC[tok][0], _spec(SPEC[tok])), ok, "E7 template + argument flow",
                       detail=None if ok else {"got": got, "want": want}, sample=(tok in ("Year", "DayOfYearInteger")))
                if optional and ok:
                    fm = eng.deref(st, args[0])
                    names = eng.types[fm.tid]["variants"][0]["fields"]
                    ep = fm.fs[names.index("epoch")]
                    if tok == "Subsecond":
                        cgs = recs(st, "cg")
                        okg = len(cgs) == 1 and not D.feasible(st, [(cgs[0][1].fs[6].lin, "==")])
                    else:
                        okg = scale_name(eng, st, ep.fs[1]) != "UTC"
                    chk.ob(rule, inst, "printed=>non-zero/non-UTC", okg, "dominating guard")
            if optional:
                chk.ob(rule, inst, "both-outcomes-explored", seen == {"printed", "omitted"}, "coverage", detail=sorted(seen))
    chk.floor(rule, "single-token formats", n, 17)
    # %z : sign hh:mm of the offset's decomposition
    finals, args = R.explore([("OffsetHours", None, None, False)])
    for st in finals:
        if st.end != "return":
            continue
        got = R.render(st, args)
        # sign character is a char value chosen by `sign >= 0`
        shape = [x[0] for x in got]
        fields = [x for x in got if x[0] == "field"]
        ok = len(fields) >= 2 and fields[-2][1] == "offset.2" and fields[-1][1] == "offset.3" and fields[-2][3] == 2 and fields[-2][4] and \
            fields[-1][3] == 2 and fields[-1][4] and any(x == ("lit", ":") or (x[0] == "lit" and x[1].endswith(":")) for x in got)
        if not ok and len(fields) == 3 and fields[1][1].startswith("offset") is False:
            ok = False
        chk.ob(rule, "Formatter[%z]", "sign-hh:mm-from-offset-decomposition", ok or _z_ok(got), "E7 template + argument flow",
               detail=None if (ok or _z_ok(got)) else got)


def _z_ok(got):
    """[sign char][hours:02]:[minutes:02] possibly followed by seconds:02"""
    fs = [x for x in got if x[0] == "field"]
    lits = "".join(x[1] for x in got if x[0] == "lit")
    if len(fs) < 2:
        return False
    hm = [f for f in fs if f[3] == 2 and f[4]]
    return len(hm) >= 2 and ":" in lits and hm[0][1] in ("offset.2", "offset.2+24*offset.1") and hm[1][1] == "offset.3" and lits[:1] in ("+", "-")


def _spec(s):
    return "{:%s%s}" % ("0" if s[3] else "", s[2] if s[2] is not None else "") if s[2] is not None else ("{}" if s[1] == "display" else "{:x}")


def r5_separators(chk, F, R):
    rule = "C19.R5"
    n = 0
    for branch, (t1, t2) in (("gregorian", ("Year", "Month")), ("non-gregorian", ("DayOfYearInteger", "Timescale")), ("mixed", ("Year", "DayOfYearInteger"))):
        for seps in ((None, None), ("-", None), (",", " ")):
            items = [(t1, seps[0], seps[1], False), (t2, None, None, False)]
            finals, args = R.explore(items)
            n += 1
            inst = "Formatter[%s,%d-separator(s)]" % (branch, sum(1 for s in seps if s))
            for st in finals:
                if st.end != "return":
                    chk.ob("C19.R4", inst, "renders-without-panic", False, detail=[e["msg"] for e in st.events][:2])
                    continue
                got = R.render(st, args)
                sep = "".join(s for s in seps if s)
                want = [expected_token(t1)] + ([("lit", sep)] if sep else []) + [expected_token(t2)]
                ok = got == want
                chk.ob(rule, inst, "token,separators-once,token", ok, "path-count rule on the rendered sequence",
                       detail=None if ok else {"got": got, "want": want, "why": "separators of the previous item written more or less than once"})
    chk.floor(rule, "separator cases", n, 9)


def r2_letters(chk, F):
    rule = "C19.R2"
    eng, D = ctx(F)
    fn = F.find1(self_ty="Format", name="from_str", trait_ref="FromStr")
    inew = F.find1(self_ty="Item", name="new", trait="")
    # Format::from_str interpreted on "%<letter>xy" for every printable ASCII letter: the one item built must carry the documented
    # token for the letter, 'x' as first and 'y' as second separator (i.e. the 2nd and 3rd characters of the piece, in that order);
    # any other letter must be rejected.  However the letter is mapped (17 arms, a helper, a table) is not prescribed.
    from .c10 import Reader
    from ..sym import St as _St, Ref as _Ref, Str as _Str
    RD = Reader(F)
    e2 = RD.eng
    got, seps_bad, accepted_other = {}, {}, []
    ntried = 0
    for code in list(range(ord("A"), ord("Z") + 1)) + list(range(ord("a"), ord("z") + 1)) + [ord("0"), ord("%"), ord("?"), ord("-")]:
        L = chr(code)
        e2.reset()
        RD.install()
        e2.hooks_by_id.pop(fn["id"], None)
        saved_policy = e2.opaque
        e2.opaque = lambda c_, pol=saved_policy: False if c_.get("fn_id") in (fn["id"], inew["id"]) else pol(c_)
        try:
            finals = e2.run(fn, args=[_Ref(val=_Str("%" + L + "xy"))], st=_St())
        finally:
            e2.opaque = saved_policy
            RD.uninstall()
        ntried += 1
        rets = [st for st in finals if st.end == "return"]
        if len(rets) != 1 or len(finals) != 1:
            got[L] = "undecided(%d paths, %s)" % (len(finals), sorted({st.end for st in finals}))
            continue
        r = rets[0].ret
        rn = e2.types[r.tid]["variants"][r.vi]["name"] if isinstance(r, Enum) else None
        if rn != "Ok":
            continue
        fmtv = r.fs[0]
        names = e2.types[fmtv.tid]["variants"][0]["fields"]
        f = dict(zip(names, fmtv.fs))
        items = f["items"]
        n_items = e2.const_of(rets[0], f["num_items"]) if isinstance(f["num_items"], Int) else None
        it0 = items.els[0] if isinstance(items, Arr) and items.els else None
        it0 = rets[0].enum_ref.get(it0.name, it0) if isinstance(it0, SymEnum) else it0
        if n_items != 1 or not (isinstance(it0, Enum) and it0.vi == 1):
            got[L] = "accepted-without-one-item(num_items=%r)" % (n_items,)
            continue
        item = it0.fs[0]
        inames = e2.types[item.tid]["variants"][0]["fields"]
        fi = dict(zip(inames, item.fs))
        tok = fi["token"]
        tok = rets[0].enum_ref.get(tok.name, tok) if isinstance(tok, SymEnum) else tok
        got[L] = e2.types[tok.tid]["variants"][tok.vi]["name"] if isinstance(tok, Enum) else repr(tok)

        def ch(ov):
            ov = rets[0].enum_ref.get(ov.name, ov) if isinstance(ov, SymEnum) else ov
            if isinstance(ov, Enum) and ov.vi == 1 and isinstance(ov.fs[0], Int):
                k_ = e2.const_of(rets[0], ov.fs[0])
                return chr(k_) if k_ is not None else "?sym"
            return None
        sa = (ch(fi["sep_char"]), ch(fi["second_sep_char"]))
        if sa != ("x", "y"):
            seps_bad[L] = sa
        if L not in LETTERS:
            accepted_other.append(L)
    code_map = {k: v for k, v in got.items() if k in LETTERS or not str(v).startswith("undecided")}
    ok = {k: v for k, v in got.items() if k in LETTERS} == LETTERS and not accepted_other and not [k for k, v in got.items() if str(v).startswith("undecided")]
    chk.ob(rule, "<Format as FromStr>::from_str", "letter->Token-map", ok, "from_str interpreted on \"%%<letter>xy\" for %d letters vs documented table" % ntried,
           detail=None if ok else {"code": code_map, "documented": LETTERS, "accepted_undocumented": accepted_other})
    chk.ob(rule, "<Format as FromStr>::from_str", "Item::new(token,chars().nth(1),chars().nth(2))-in-every-arm", not seps_bad and len(got) >= 17,
           "separators of the item built from \"%<letter>xy\"", detail=seps_bad or None)
    chk.floor(rule, "token letters", len([k for k in got if k in LETTERS]), 17)
    # Item::new decision table over (None | '?' | other) x (None | '?' | other)
    finals, args = D.run(inew)
    cases = 0
    for st in finals:
        if st.end != "return":
            continue
        r = st.ret
        names = eng.types[r.tid]["variants"][0]["fields"]
        f = dict(zip(names, r.fs))
        c = []
        for a in (args[1], args[2]):
            av = st.enum_ref.get(a.name, a) if isinstance(a, SymEnum) else a
            if isinstance(av, Enum) and av.vi == 0:
                c.append(None)
            elif isinstance(av, Enum):
                ch = av.fs[0]
                k = eng.const_of(st, ch)
                if k == ord("?"):
                    c.append("?")
                elif not D.feasible(st, [(ch.lin - ord("?"), "==")]):
                    c.append(("other", ch))
                else:
                    c.append(("undecided", ch))
            else:
                c.append(("undecided", None))
        if any(isinstance(x, tuple) and x[0] == "undecided" for x in c):
            continue
        cases += 1
        opt = "?" in c
        seps = [x[1] for x in c if isinstance(x, tuple)]
        want_sep = seps[0] if seps else None
        want_sep2 = seps[1] if len(seps) > 1 else None

        def same(ov, wantch):
            ov = st.enum_ref.get(ov.name, ov) if isinstance(ov, SymEnum) else ov
            if wantch is None:
                return isinstance(ov, Enum) and ov.vi == 0
            return isinstance(ov, Enum) and ov.vi == 1 and isinstance(ov.fs[0], Int) and ov.fs[0].lin == wantch.lin
        ok = same(f["sep_char"], want_sep) and same(f["second_sep_char"], want_sep2) and isinstance(f["optional"], Bool) and \
            f["optional"].c == (TRUE if opt else FALSE) and f["token"] is args[0]
        chk.ob(rule, "Item::new", "case(%s,%s)" % tuple("None" if x is None else x if x == "?" else "sep" for x in c), ok, "decision table",
               detail=None if ok else {k: repr(v) for k, v in f.items()})
    no_bad_events(chk, rule, "Item::new", finals, eng)
    chk.floor(rule, "Item::new cases", cases, 9)


def _arm_separator_args(F, fn, bi, inew):
    """(index of the character handed to Item::new as first separator, as second separator) in the arm starting at block bi:
    each must be `token.chars().nth(k)` with k = 1 resp. 2."""
    seen = set()
    cur = bi
    nth = {}
    depth = 0
    defs = cfg.unique_defs(fn)
    while cur is not None and cur not in seen and depth < 40:
        seen.add(cur)
        depth += 1
        t = fn["blocks"][cur]["t"]
        if t["k"] == "call":
            nm = cfg.callee_name(t["f"])
            if nm.split("::<")[0].endswith("::nth") or "::nth::" in nm or nm.endswith("::nth"):
                k = cfg.resolve(fn, t["args"][1], defs)
                nth[t["dest"]["l"]] = k[1].get("v") if k[0] == "const" else None
            if t["f"].get("fn_id") == inew["id"]:
                out = []
                for a in t["args"][1:3]:
                    p = cfg.operand_place(a)
                    v = None
                    for _ in range(6):
                        if p is None or p["pj"]:
                            break
                        if p["l"] in nth:
                            v = nth[p["l"]]
                            break
                        d = defs.get(p["l"])
                        if d is None or d["op"] != "use":
                            break
                        p = cfg.operand_place(d["x"])
                    out.append(v)
                return tuple(out)
            cur = t["t"]
        elif t["k"] in ("goto", "drop", "assert"):
            cur = t["t"]
        else:
            return None
    return None


def _first_item_new(F, fn, bi, inew, depth=0):
    """The Token constant passed to the first Item::new call reachable by straight-line flow from block bi."""
    seen = set()
    cur = bi
    while cur is not None and cur not in seen and depth < 40:
        seen.add(cur)
        depth += 1
        b = fn["blocks"][cur]
        t = b["t"]
        if t["k"] == "call":
            if t["f"].get("fn_id") == inew["id"]:
                k = cfg.resolve(fn, t["args"][0])
                if k[0] == "const" and isinstance(k[1].get("v"), dict):
                    return k[1]["v"].get("variant")
                if k[0] == "rv" and k[1]["op"] == "agg":
                    return k[1].get("vname")
                return None
            cur = t["t"]
        elif t["k"] in ("goto", "drop", "assert"):
            cur = t["t"]
        else:
            return None
    return None


def r3_constants(chk, F, R):
    rule = "C19.R3"
    B = R.B
    docs = None
    for k, v in F.docs.items():
        if k.endswith("efmt::format::Format"):
            docs = v
    pairs = dict((name, s) for s, name in re.findall(r'from_str\("([^"]+)"\)\.unwrap\(\);\s*assert_eq!\(fmt,\s*consts::(\w+)\)', docs or ""))
    chk.floor(rule, "documented (format string, constant) pairs in Format's rustdoc", len(pairs), 5)
    consts = {k.split("::")[-1]: v for k, v in F.consts.items() if k.split("::")[-2:-1] == ["consts"] and "efmt" in k}
    chk.floor(rule, "predefined constants", len(consts), 9)
    decoded = {}
    for name, c in sorted(consts.items()):
        items, n = B.decode_const(c["v"])
        decoded[name] = (items, n)
        src = "rustdoc" if name in pairs else "standard"
        s = pairs.get(name) or STANDARD_STRINGS.get(name)
        if s is None:
            chk.ob(rule, "consts::%s" % name, "has-a-documented-format-string", False)
            continue
        want = parse_format_oracle(s, LETTERS)
        got = [x for x in items[:n]]
        if src == "standard" and got and want and len(got) == len(want) and got[:-1] == want[:-1] and got[-1][0] == want[-1][0] and \
                got[-1][3] == want[-1][3] and got[-1][1:3] != want[-1][1:3]:
            # documented only in prose: separators after the *last* token are never written, so they are not part of
            # "the format string it documents"; recorded as information
            chk.info("consts::%s carries separators %r after its last token (never printed)" % (name, got[-1][1:3]))
            got = got[:-1] + [want[-1]]
        ok = got == want and all(x is None for x in items[n:]) and all(x is not None for x in items[:n])
        chk.ob(rule, "consts::%s" % name, "==%r(%s)" % (s, src), ok, "decoded constant vs documented format string",
               detail=None if ok else {"constant": got, "documented": want, "num_items": n}, sample=(name == "RFC2822"))
    # internal relations
    if "ISO8601" in decoded and "ISO8601_FLEX" in decoded:
        a, b = decoded["ISO8601"][0][:8], decoded["ISO8601_FLEX"][0][:8]
        ok = [x[:3] for x in a] == [x[:3] for x in b] and [x[3] for x in b] == [False] * 6 + [True, True]
        chk.ob(rule, "consts", "ISO8601_FLEX=ISO8601+optional(%f,%T)", ok, "relation between constants")
    if "ISO8601" in decoded and "ISO8601_STD" in decoded:
        a, b = decoded["ISO8601"][0], decoded["ISO8601_STD"][0]
        ok = decoded["ISO8601_STD"][1] == 7 and [x[0] for x in b[:7]] == [x[0] for x in a[:7]]
        chk.ob(rule, "consts", "ISO8601_STD=ISO8601-without-time-scale", ok, "relation between constants")


def r4_invariant(chk, F):
    rule = "C19.R4"
    adt = F.adt("efmt::format::Format")
    for f in adt["variants"][0]["fields"]:
        chk.ob(rule, "Format", "field-%s-not-pub" % f["name"], f["vis"] != "pub", "who-may-construct", detail=f["vis"])
    ng = F.find1(self_ty="Format", name="need_gregorian", trait="")
    eng, D = ctx(F)
    R = Renderer(F)
    tid = R.B.token_tid
    got = {}
    for tok in TOKENS:
        fmt = R.B.format([(tok, None, None, False)])
        eng.reset()
        st = St()
        key = ("cell", 990000 + TOKENS.index(tok), "fmt")
        st.store[key] = fmt
        finals = eng.run(ng, args=[Ref(key=key)], st=st)
        vals = {st2.ret.c for st2 in finals if st2.end == "return" and isinstance(st2.ret, Bool)}
        got[tok] = vals
        ok = vals == ({TRUE} if tok in GREG else {FALSE})
        chk.ob(rule, "Format::need_gregorian", "%s->%s" % (tok, tok in GREG), ok, "finite map", detail=None if ok else repr(vals))
        no_bad_events(chk, rule, "Format::need_gregorian", finals, eng)


def r6_iso(chk, F, R):
    rule = "C19.R6"
    iso = F.const("efmt::consts::ISO8601")["v"]
    items, n = R.B.decode_const(iso)
    finals, args = R.explore(items[:n])
    want = [("field", "cg.0", "display", 4, True), ("lit", "-"), ("field", "cg.1", "display", 2, True), ("lit", "-"), ("field", "cg.2", "display", 2, True),
            ("lit", "T"), ("field", "cg.3", "display", 2, True), ("lit", ":"), ("field", "cg.4", "display", 2, True), ("lit", ":"),
            ("field", "cg.5", "display", 2, True), ("lit", "."), ("field", "cg.6", "display", 9, True), ("lit", " "), ("field", "time_scale", "display", None, False)]
    for st in finals:
        if st.end != "return":
            chk.ob(rule, "Formatter[ISO8601]", "renders-without-panic", False)
            continue
        got = R.render(st, args)
        eng = R.eng
        fm = eng.deref(st, args[0])
        names = eng.types[fm.tid]["variants"][0]["fields"]
        ep = fm.fs[names.index("epoch")]
        cgs = recs(st, "cg")
        own = len(cgs) == 1 and cgs[0][0][0] is ep.fs[0] and same_scale(eng, st, cgs[0][0][1], ep.fs[1])
        ok = got == want and own
        chk.ob(rule, "Formatter[ISO8601]", "==default-Display-template(with-fraction)-in-own-scale", ok, "rendered sequence vs C09.R4 template",
               detail=None if ok else {"got": got, "own_scale": own})
    chk.info("the default Display omits the fraction when ns == 0 whereas ISO8601 (non-optional %f) always prints it")


def r8_constructors(chk, F):
    """Formatter's constructors: new() prints the epoch as given with a zero offset; with_timezone() prints the local time
    epoch + offset and records that offset (what %z writes and what Format::parse subtracts again); to_time_scale() is new()
    of the converted epoch."""
    from ..epochalg import EpochAlg
    rule = "C19.R8"
    eng, D = ctx(F)
    A = EpochAlg(F, eng, D)

    def fields(v):
        names = eng.types[v.tid]["variants"][0]["fields"]
        return {n: v.fs[i] for i, n in enumerate(names)}
    for name in ("new", "with_timezone", "to_time_scale"):
        fn = F.find1(self_ty="Formatter", name=name, trait="")
        pn = [fn["locals"][i + 1].get("name") for i in range(fn["arg_count"])]
        A.install(duration_algebra=True, opaque_conv=True)
        finals, args = D.run(fn, interior=True)
        A.uninstall()
        ok = bool(finals)
        why = []
        for st in finals:
            if st.end != "return" or not isinstance(st.ret, Struct):
                ok = False
                why.append("path ends in %s" % st.end)
                continue
            f_ = fields(st.ret)
            ep_in = args[pn.index("epoch")]
            fmt_in = args[pn.index("format")]
            if f_["format"] is not fmt_in:
                ok = False
                why.append("format field is not the argument")
            Te, Ti = D.total(f_["epoch"].fs[0]), D.total(ep_in.fs[0])
            To = D.total(f_["offset"])
            st2 = st.clone()
            D.close(st2, [x for x in (Te, Ti, To) if x is not None])
            if name == "new":
                good = D.implies_eq(st2, Te, Ti) and same_scale(eng, st, f_["epoch"].fs[1], ep_in.fs[1]) and D.implies_eq(st2, To, Lin.const(0))
            elif name == "with_timezone":
                off_in = args[pn.index("offset")]
                Toi = D.total(off_in)
                D.close(st2, [Toi])
                good = D.implies_eq(st2, Te, Ti + Toi) and same_scale(eng, st, f_["epoch"].fs[1], ep_in.fs[1]) and D.implies_eq(st2, To, Toi)
            else:
                convs = [t for t in st.trace if isinstance(t, tuple) and t and t[0] == "conv-call"]
                ts_in = args[pn.index("time_scale")]
                good = D.implies_eq(st2, To, Lin.const(0)) and (
                    (len(convs) == 1 and convs[0][1] is ep_in and same_scale(eng, st, convs[0][2], ts_in) and same_scale(eng, st, f_["epoch"].fs[1], ts_in)) or
                    (len(convs) == 0 and same_scale(eng, st, ep_in.fs[1], ts_in) and D.implies_eq(st2, Te, Ti)))
            if not good:
                ok = False
                why.append("fields do not match the constructor's contract")
        chk.ob(rule, "Formatter::%s" % name, {"new": "epoch=arg,offset=0,format=arg", "with_timezone": "epoch=arg+offset,offset=arg,format=arg",
                                              "to_time_scale": "epoch=conv(arg,ts),offset=0,format=arg"}[name], ok, "frame / operand flow", detail=None if ok else sorted(set(why)))
    chk.floor(rule, "Formatter constructors", 3, 3)


def variant_texts(F, eng, self_ty, trait):
    """text written by <self_ty as trait>::fmt for every variant of a field-less enum, read off the code -> {variant: text}"""
    from ..sym import St as _St, Ref as _Ref
    fn = F.find1(self_ty=self_ty, name="fmt", trait_ref=trait)
    tid = eng.types[fn["locals"][1]["ty"]]["to"]
    out = {}
    for vi, var in enumerate(eng.types[tid]["variants"]):
        eng.reset()
        st = _St()
        key = ("cell", "enum-arg")
        st.store[key] = Enum(tid, vi, ())
        eng._pending_cells = []
        fv = eng.sym(fn["locals"][2]["ty"], "f")
        for k2, inner in eng._pending_cells:
            st.store[k2] = inner
        finals = eng.run(fn, args=[_Ref(key=key), fv], st=st)
        texts = set()
        for s2 in finals:
            if s2.end != "return":
                continue
            txt = ""
            for o in outputs(s2):
                if o[1] == "str":
                    txt += o[2]
                else:
                    for p in o[2].pieces:
                        if p[0] == "lit":
                            txt += p[1]
                            continue
                        a = o[2].args[p[1]["index"]]
                        v = eng.deref(s2, a.val) if isinstance(a.val, Ref) else a.val
                        dbg = F.find(self_ty=self_ty, name="fmt", trait_ref="Debug")
                        if a.kind == "debug" and isinstance(v, Enum) and v.tid == tid and len(dbg) == 1 and (dbg[0].get("impl") or {}).get("derived"):
                            txt += eng.types[tid]["variants"][v.vi]["name"]  # #[derive(Debug)] on a field-less enum writes the variant's name
                        else:
                            txt += "?"
            texts.add(txt)
        if len(texts) == 1 and "?" not in next(iter(texts)):
            out[var["name"]] = texts.pop()
    return out


def check_doy_paths(chk, rule, inst, construct, RD, finals, T, doy_val):
    """%j formats: every path must reach maybe_from_gregorian(year run, 1, 1, 0, 0, 0, 0, UTC) once and return that epoch
    + (doy - 1) days + the time of day written (hours, minutes, seconds, nanoseconds of their digit runs)."""
    from .c10 import ok_epoch, is_err
    from ..lin import implies as _implies
    eng, D = RD.eng, RD.D
    problems = []
    nok = 0
    for st in finals:
        if st.end != "return":
            problems.append("path ends in %s: %s" % (st.end, [e["msg"][:60] for e in st.events][-1:]))
            continue
        calls = recs(st, "mfg")
        if len(calls) != 1:
            lex = [t for t in st.trace if isinstance(t, tuple) and t and t[0] == "lexical-err"]
            problems.append("rejected before the constructor (%d calls)%s" % (len(calls), " " + repr(lex[-1]) if lex else ""))
            continue
        a, res = calls[0]
        want = [T.vals.get(0), Lin.const(1), Lin.const(1), Lin.const(0), Lin.const(0), Lin.const(0), Lin.const(0)]
        for k in range(7):
            got = a[k]
            if not (isinstance(got, Int) and want[k] is not None and (got.lin.key() == want[k].key() or _implies(st.cons, got.lin - want[k], "==", st.bnd))):
                problems.append("start-of-year argument %d is %r" % (k, got))
        if scale_name(eng, st, a[7]) != "UTC":
            problems.append("scale argument is %s" % scale_name(eng, st, a[7]))
        if is_err(eng, st):
            nok += 1
            continue
        ep = ok_epoch(eng, st)
        r = res
        if isinstance(r, SymEnum) and r.name in st.enum_ref:
            r = st.enum_ref[r.name]
        base = r.fs[0] if isinstance(r, Enum) and r.fs else None
        prods = recs(st, "f64*unit")
        if ep is None or base is None or len(prods) != 1:
            problems.append("result is not Ok(start of year + one float product + ...): %d product(s)" % len(prods))
            continue
        (pa, P) = prods[0]
        t = pa[0].t if isinstance(pa[0], Flt) else None
        okd = t is not None and t[0] == "op" and t[1] == "Sub" and t[3] == ("c", 1.0) and t[2][0] == "i2f" and \
            (t[2][2].key() == doy_val.key() or _implies(st.cons, t[2][2] - doy_val, "==", st.bnd)) and \
            isinstance(pa[1], Enum) and eng.types[pa[1].tid]["variants"][pa[1].vi]["name"] == "Day"
        if not okd:
            problems.append("day offset is %r, expected (day-of-year run - 1.0) * Unit::Day" % (t,))
        el = Lin.const(0)
        for k, f in ((3, "Hour"), (4, "Minute"), (5, "Second")):
            el = el + (T.vals[k].scale(oracle_unit_ns(f)) if k in T.vals else Lin.const(0))
        if "frac" in T.vals:
            v, nn = T.vals["frac"]
            el = el + v.scale(10 ** (9 - nn))
        elif 6 in T.vals:
            el = el + T.vals[6]
        Tr, Tb, Tp = D.total(ep.fs[0]), D.total(base.fs[0]), D.total(P)
        st2 = st.clone()
        D.close(st2, [Tr, Tb, Tp])
        if not D.implies_eq(st2, Tr, Tb + Tp + el):
            problems.append("returned instant is not start of year + day offset + the time of day written")
        nok += 1
    ok = not problems and nok >= 1
    chk.ob(rule, inst, construct, ok, "reader interpreted on the template (%d path(s))" % len(finals), detail=None if ok else {"problems": sorted(set(problems))[:5]})


def oracle_unit_ns(name):
    from .. import oracle as _o
    return _o.UNIT_NS[name]


def r7_parse_agreement(chk, F, R):
    """The format-driven reader interpreted on what the formatter renders (template-string domain of C10): for UTC epochs and
    the formats with the full date and time and no optional token, Format::parse(format, render(format, e)) must reach
    maybe_from_gregorian once with argument k = the value of the digit run the formatter printed for field k."""
    from .c10 import Reader, build_from_shape, check_gregorian_paths
    from ..sym import Ref as _Ref, St as _St
    from ..fmtmodel import FormatBuilder
    from ..tstr import render as trender
    rule = "C19.R7"
    RD = Reader(F)
    B2 = FormatBuilder(F, RD.eng)
    parse = F.find1(self_ty="Format", name="parse", trait="")
    jobs = [("ISO8601", None), ("ISO8601_STD", None), ("RFC3339", None), ("RFC2822", None), ("RFC2822_LONG", None)]
    wd_short = variant_texts(F, RD.eng, "Weekday", "LowerHex")
    wd_long = variant_texts(F, RD.eng, "Weekday", "Display")
    mn_short = variant_texts(F, RD.eng, "MonthName", "LowerHex")
    mn_long = variant_texts(F, RD.eng, "MonthName", "Display")
    chk.ob(rule, "Weekday/MonthName", "names-read-off-the-code(7+7+12+12)", (len(wd_short), len(wd_long), len(mn_short), len(mn_long)) == (7, 7, 12, 12),
           "E7 outputs per variant", detail={"weekday": wd_short, "month": mn_short})
    month_order = [v["name"] for v in RD.eng.types[RD.eng.find_tid("month::MonthName")]["variants"]]
    extra_formats = ["%Y-%m-%d %H:%M:%S", "%d/%m/%Y %H:%M:%S.%f", "%H:%M:%S %Y-%m-%d", "%Y-%jT%H:%M:%S", "%j/%Y %H:%M:%S.%f"]
    n = 0
    for name, _ in jobs + [(f, "str") for f in extra_formats]:
        if _ is None:
            items, cnt = R.B.decode_const(F.const("efmt::consts::" + name)["v"])
            items = items[:cnt]
        else:
            items = parse_format_oracle(name, LETTERS)  # Format::from_str == this oracle: R3/R2
        # what the formatter renders for this format (symbolic epoch)
        finals, args = R.explore(items)
        shapes = set()
        for st in finals:
            if st.end != "return":
                continue
            got = R.render(st, args)
            shape = []
            for g in got:
                if g[0] == "lit":
                    shape.append(("lit", g[1]))
                elif g[0] == "field" and g[1].startswith("cg.") and g[2] == "display" and g[3] and g[4]:
                    shape.append(("field", int(g[1][3:]), g[3]))
                elif g[0] == "field" and g[1] == "time_scale":
                    shape.append(("scale",))
                elif g[0] == "field" and g[1].startswith("offset."):
                    shape.append(("offset-field", g[1], g[3]))
                elif g[0] == "field" and g[1] in ("weekday", "month_name") and g[2] in ("display", "lower_hex"):
                    shape.append(("name", g[1], g[2]))
                elif g[0] == "field" and g[1] == "floor(doy)" and g[2] == "display" and g[3] == 3 and g[4]:
                    shape.append(("doy",))
                else:
                    shape.append(("?", repr(g)[:60]))
            shapes.add(tuple(shape))
        for shape in sorted(shapes):
            shapes_cur = shape
            shape = list(shape)
            # %z of a UTC epoch: the offset decomposition is that of a zero duration -> "+00:00"
            if any(x[0] == "offset-field" for x in shape):
                out = []
                for x in shape:
                    if x[0] == "offset-field":
                        out.append(("lit", "0" * (x[2] or 2)))
                    else:
                        out.append(x)
                shape = out
                if any(x[0] == "offset-field" and x[1] == "offset.4" for x in list(shapes_cur)):
                    continue  # offset seconds are printed only when non-zero: not the rendering of a UTC epoch
                if ("lit", "-") in shape and ("lit", "+") not in shape:
                    continue  # the negative-offset rendering path is not that of a UTC epoch
            if any(x[0] == "?" for x in shape):
                chk.info("C19.R7: format %s renders a field outside the numeric template domain; not run through the reader" % name)
                continue
            if any(x[0] == "name" for x in shape):
                # English names: one template per month (with one weekday) and per weekday (with one month)
                combos = [(wd, "January") for wd in sorted(wd_short)] + [("Monday", mo) for mo in month_order[1:]]
                for wd, mo in combos:
                    sh2 = []
                    for x in shape:
                        if x[0] == "name":
                            table = (wd_short if x[2] == "lower_hex" else wd_long) if x[1] == "weekday" else (mn_short if x[2] == "lower_hex" else mn_long)
                            sh2.append(("lit", table.get(wd if x[1] == "weekday" else mo, "?")))
                        else:
                            sh2.append(x)
                    fmt_val = B2.format(items)
                    RD.install()
                    eng = RD.eng
                    eng.reset()
                    RD.T.n = 0
                    st0 = _St()
                    tmpl = build_from_shape(sh2, "UTC")(RD.T, st0)
                    RD.T.vals[1] = Lin.const(month_order.index(mo) + 1)
                    key = ("cell", "fmt-arg")
                    st0.store[key] = fmt_val
                    eng._pending_cells = []
                    finals2 = eng.run(parse, args=[_Ref(key=key), _Ref(val=tmpl)], st=st0)
                    RD.uninstall()
                    n += 1
                    check_gregorian_paths(chk, rule, "Format::parse[%s]" % name, "parse(render(e))->fields-in-role-order,UTC: %s" % trender(tmpl.els), RD, finals2, RD.T, "UTC")
                continue
            has_doy = any(x[0] == "doy" for x in shape)
            fmt_val = B2.format(items)
            RD.install()
            eng = RD.eng
            eng.reset()
            RD.T.n = 0
            st0 = _St()
            doy_holder = {}
            if has_doy:
                # the three-digit day of year: a digit run of its own (1..366)
                parts, cur = [], []
                for x in shape:
                    if x[0] == "doy":
                        parts.append(cur)
                        cur = []
                    else:
                        cur.append(x)
                parts.append(cur)
                T = RD.T
                T.vals = {}
                els = []
                b0 = build_from_shape(parts[0], "UTC")
                t0 = b0(T, st0)
                v_keep = dict(T.vals)
                els += list(T.els_of(t0) or [])
                dd_, dv = T.digits("doy", 3)
                eng.add_cons(st0, [(-dv + 1, "<="), (dv - 366, "<=")])
                els += dd_
                t1 = build_from_shape(parts[1], "UTC")(T, st0)
                v_keep.update(T.vals)
                els += list(T.els_of(t1) or [])
                T.vals = v_keep
                tmpl = T.mk(els)
                doy_holder["v"] = dv
            else:
                tmpl = build_from_shape(shape, "UTC")(RD.T, st0)
            key = ("cell", "fmt-arg")
            st0.store[key] = fmt_val
            eng._pending_cells = []
            finals2 = eng.run(parse, args=[_Ref(key=key), _Ref(val=tmpl)], st=st0)
            RD.uninstall()
            n += 1
            if has_doy:
                check_doy_paths(chk, rule, "Format::parse[%s]" % name, "parse(render(e))->start-of-year+(doy-1)d+time-of-day: %s" % trender(tmpl.els), RD, finals2, RD.T, doy_holder["v"])
                continue
            check_gregorian_paths(chk, rule, "Format::parse[%s]" % name, "parse(render(e))->fields-in-role-order,UTC: %s" % trender(tmpl.els), RD, finals2, RD.T, "UTC",
                                  sample=(n == 1))
    chk.floor(rule, "format/parse templates", n, 40)


def run(chk, F, tier):
    from .. import fmtdecode
    try:
        fmtdecode.selfcheck()
    except fmtdecode.DecoderUnsupported as e:
        chk.error("DECODER-UNSUPPORTED %s" % e)
        return
    R = Renderer(F)
    r1_token_table(chk, F, R)
    r5_separators(chk, F, R)
    r2_letters(chk, F)
    r3_constants(chk, F, R)
    r4_invariant(chk, F)
    r6_iso(chk, F, R)
    r7_parse_agreement(chk, F, R)
    r8_constructors(chk, F)
    chk.extra["engine_stats"] = dict(R.eng.stats)
    chk.assumptions.append("field sources (compute_gregorian, day_of_year, weekday, month_name, decompose) are uninterpreted here: C09/C16/C11/C20 judge them")
