"""C03 - Duration ordering and equality agree with the signed value."""
from ..sym import Engine, Int, Bool, Struct, Enum, SymEnum, Ref, Opq, St, c_lin, c_not, TRUE, FALSE, dnf
from ..lin import Lin
from ..dur import DurCtx, describe_path
from .. import cfg
from .c02 import ctx, no_bad_events, UNIT_FACTORS, _delegates

LEVEL = "other"
EXPLANATION = (
    "Decision analysis of Duration's comparison code on the monomorphised MIR (derived or hand-written alike): "
    "cmp/partial_cmp/lt/le/gt/ge/min/max/eq and the Unit comparisons are explored over two symbolic canonical "
    "durations; on every path partition the returned Ordering / bool must be the one the signed nanosecond counts "
    "c*NPC+n dictate (Less => count(a) < count(b), ...), and `==` may hold only for equal counts or exact negations "
    "strictly within one century of zero.")

ORD = {0: "Less", 1: "Equal", 2: "Greater"}


def ordering_name(eng, v):
    if isinstance(v, Enum):
        return eng.types[v.tid]["variants"][v.vi]["name"]
    return None


def ord_ok(D, st, name, Ta, Tb):
    d = Ta - Tb
    if name == "Less":
        return D.implies(st, d + 1, "<=")
    if name == "Equal":
        return D.implies(st, d, "==")
    if name == "Greater":
        return D.implies(st, -d + 1, "<=")
    return False


def bool_paths(eng, D, st, v):
    """Split a returned Bool into (sense, extra-constraints) alternatives feasible on the path."""
    out = []
    if not isinstance(v, Bool):
        return None
    for sense, c in ((True, v.c), (False, c_not(v.c))):
        for alt in dnf(c):
            if any(a[0] == "opq" for a in alt):
                return None
            if D.feasible(st, alt):
                out.append((sense, alt))
    return out


def cmp_rules(chk, F):
    rule = "C03.R1"
    eng, D = ctx(F)
    n = 0
    for trait, name, wrap in (("Ord", "cmp", False), ("PartialOrd", "partial_cmp", True)):
        fn = F.find1(self_ty="Duration", name=name, trait_ref=trait)
        finals, args = D.run(fn)
        for st in finals:
            if st.end != "return":
                continue
            a = eng.deref(st, args[0])
            b = eng.deref(st, args[1])
            Ta, Tb = D.total(a), D.total(b)
            v = st.ret
            if wrap:
                if isinstance(v, Enum) and ordering_name(eng, v) == "Some":
                    v = v.fs[0]
                else:
                    chk.ob(rule, "<Duration as %s>::%s" % (trait, name), "returns-Some", False, detail=repr(v))
                    continue
            nm = ordering_name(eng, v)
            n += 1
            ok = ord_ok(D, st, nm, Ta, Tb)
            chk.ob(rule, "<Duration as %s>::%s" % (trait, name), "%s=>counts" % nm, ok, "path condition implies count order",
                   detail=None if ok else {"returned": nm, "path": describe_path(eng, st)}, sample=(n < 3))
        no_bad_events(chk, rule, "<Duration as %s>::%s" % (trait, name), finals, eng)
    chk.floor(rule, "cmp/partial_cmp partitions", n, 6)
    # the provided comparison operators (std default methods instantiated for Duration) and &Duration forms
    ops = {"lt": lambda d: [(d + 1, "<=")], "le": lambda d: [(d, "<=")], "gt": lambda d: [(-d + 1, "<=")], "ge": lambda d: [(-d, "<=")]}
    found = 0
    for f in F.fns:
        if not f or "blocks" not in f or f.get("generic"):
            continue
        k = f["key"]
        for opn in ops:
            if k == "<duration::Duration as std::cmp::PartialOrd>::%s" % opn:
                found += 1
                finals, args = D.run(f)
                for st in finals:
                    if st.end != "return":
                        continue
                    a = eng.deref(st, args[0])
                    b = eng.deref(st, args[1])
                    d = D.total(a) - D.total(b)
                    alts = bool_paths(eng, D, st, st.ret)
                    if alts is None:
                        chk.ob(rule, "Duration::%s" % opn, "decidable-result", False, detail=repr(st.ret))
                        continue
                    for sense, alt in alts:
                        want = ops[opn](d)
                        if sense:
                            ok = all(D.implies(st, l, o, alt) for l, o in want)
                        else:
                            ok = not D.feasible(st, list(alt) + want)
                        chk.ob(rule, "Duration::%s" % opn, "%s<=>counts" % sense, ok, "decision table vs counts",
                               detail=None if ok else describe_path(eng, st))
    chk.floor(rule, "provided comparison operators instantiated for Duration", found, 2)


def eq_rule(chk, F):
    rule = "C03.R2"
    eng, D = ctx(F)
    fn = F.find1(self_ty="Duration", name="eq", trait_ref="PartialEq")
    finals, args = D.run(fn)
    n = 0
    for st in finals:
        if st.end != "return":
            continue
        a = eng.deref(st, args[0])
        b = eng.deref(st, args[1])
        Ta, Tb = D.total(a), D.total(b)
        ca, cb = D.parts(a)[0], D.parts(b)[0]
        alts = bool_paths(eng, D, st, st.ret)
        if alts is None:
            chk.ob(rule, "<Duration as PartialEq>::eq", "decidable-result", False, detail=repr(st.ret))
            continue
        for sense, alt in alts:
            n += 1
            rl = D.region_label(st, [("self.c", ca), ("other.c", cb)], alt)
            if sense:
                same = D.implies(st, Ta - Tb, "==", alt)
                negation = D.implies(st, Ta + Tb, "==", alt) and D.implies(st, Ta - (D.NPC - 1), "<=", alt) and D.implies(
                    st, -Ta - (D.NPC - 1), "<=", alt)
                ok = same or negation
                chk.ob(rule, "<Duration as PartialEq>::eq", "true=>same-count-or-negation-within-a-century[%s]" % rl, ok,
                       "path condition implies equal counts or exact negation below one century",
                       detail=None if ok else {"path": describe_path(eng, st), "extra": [repr(x) for x in alt],
                                               "why": "== holds between durations of different magnitude"})
            else:
                ok = not D.feasible(st, list(alt) + [(Ta - Tb, "==")])
                chk.ob(rule, "<Duration as PartialEq>::eq", "false=>different-count[%s]" % rl, ok,
                       "equal counts infeasible on a false path", detail=None if ok else describe_path(eng, st))
    no_bad_events(chk, rule, "<Duration as PartialEq>::eq", finals, eng)
    chk.floor(rule, "eq partitions", n, 4)


def minmax_unit(chk, F):
    rule = "C03.R3"
    eng, D = ctx(F)
    for name, sgn in (("min", 1), ("max", -1)):
        fn = F.find1(self_ty="Duration", name=name, trait="")
        finals, args = D.run(fn)
        Ta, Tb = D.total(args[0]), D.total(args[1])
        for st in finals:
            if st.end != "return":
                continue
            R = D.total(st.ret)
            ok = R is not None and D.implies(st, (R - Ta).scale(sgn), "<=") and D.implies(st, (R - Tb).scale(sgn), "<=") and (
                _same(D, st, st.ret, args[0]) or _same(D, st, st.ret, args[1]))
            chk.ob(rule, "Duration::%s" % name, "returns-the-%s-operand" % name, ok, "decision table vs counts",
                   detail=None if ok else describe_path(eng, st))
        no_bad_events(chk, rule, "Duration::%s" % name, finals, eng)
    # comparison with a Unit: PartialEq<Unit> delegates to Duration == unit * 1; PartialOrd<Unit> three-way table
    fn = F.find1(self_ty="Duration", name="eq", trait_ref="PartialEq<timeunits::Unit>")
    deq = F.find1(self_ty="Duration", name="eq", trait_ref="PartialEq")
    umul = F.find1(self_ty="Unit", name="mul", trait_ref="Mul<i64>")
    ok = _unit_eq_shape(fn, deq, umul)
    chk.ob(rule, "<Duration as PartialEq<Unit>>::eq", "self==unit*1", ok, "E5 delegation")
    fn = F.find1(self_ty="Duration", name="partial_cmp", trait_ref="PartialOrd<timeunits::Unit>")
    finals, args = D.run(fn)
    seen = set()
    for st in finals:
        if st.end != "return":
            continue
        u = eng.deref(st, args[1])
        if isinstance(u, SymEnum):
            u = st.enum_ref.get(u.name)
        if not isinstance(u, Enum):
            chk.ob(rule, "<Duration as PartialOrd<Unit>>::partial_cmp", "unit-decided", False)
            continue
        uname = eng.types[u.tid]["variants"][u.vi]["name"]
        seen.add(uname)
        a = eng.deref(st, args[0])
        v = st.ret
        if not (isinstance(v, Enum) and ordering_name(eng, v) == "Some"):
            chk.ob(rule, "<Duration as PartialOrd<Unit>>::partial_cmp", "returns-Some[%s]" % uname, False, detail=repr(v))
            continue
        nm = ordering_name(eng, v.fs[0])
        ok = ord_ok(D, st, nm, D.total(a), Lin.const(UNIT_FACTORS.get(uname, 0)))
        chk.ob(rule, "<Duration as PartialOrd<Unit>>::partial_cmp", "%s=>count-vs-%s" % (nm, uname), ok,
               "path condition implies order against the unit's nanoseconds", detail=None if ok else describe_path(eng, st))
    chk.ob(rule, "<Duration as PartialOrd<Unit>>::partial_cmp", "all-nine-units", seen == set(UNIT_FACTORS), "variant coverage",
           detail=sorted(seen))
    no_bad_events(chk, rule, "<Duration as PartialOrd<Unit>>::partial_cmp", finals, eng)


def _same(D, st, v, a):
    pv, pa = D.parts(v), D.parts(a)
    return pv is not None and pa is not None and D.implies(st, pv[0] - pa[0], "==") and D.implies(st, pv[1] - pa[1], "==")


def _unit_eq_shape(fn, deq, umul):
    defs = cfg.unique_defs(fn)
    calls = list(cfg.calls(fn))
    eqs = [t for _, t in calls if t["f"].get("fn_id") == deq["id"]]
    muls = [t for _, t in calls if t["f"].get("fn_id") == umul["id"]]
    if len(eqs) != 1 or len(muls) != 1 or len(calls) != 2:
        return False
    k = cfg.resolve(fn, muls[0]["args"][1], defs)
    if not (k[0] == "const" and k[1].get("v") == 1):
        return False
    if not (eqs[0]["dest"]["l"] == 0):
        return False
    return True


def run(chk, F, tier):
    cmp_rules(chk, F)
    eq_rule(chk, F)
    minmax_unit(chk, F)
    eng, D = ctx(F)
    chk.extra["engine_stats"] = dict(eng.stats)
    chk.assumptions.append("Duration arguments satisfy the canonical-form invariant established by C02.R1")
