"""C12 - Epoch equality and ordering are chronological, whatever the time scales."""
from ..sym import Engine, Int, Bool, Struct, Enum, SymEnum, Ref, Opq, Flt, St, c_not, dnf
from ..lin import Lin
from ..dur import DurCtx, describe_path
from ..epochalg import EpochAlg, same_scale, scale_name
from .c02 import ctx, no_bad_events
from .c03 import ordering_name, ord_ok, bool_paths

LEVEL = "other"
EXPLANATION = (
    "Decision analysis of Epoch's PartialEq/PartialOrd/Ord/min/max on the MIR with Epoch::to_time_scale as an "
    "uninterpreted conversion conv(e, S): on every path the two operands of the underlying Duration comparison "
    "must be elapsed times in the *same* scale (one side converted to the other's scale, or both scales proved "
    "equal), and the returned bool/Ordering must be exactly what the signed counts of those two durations dictate "
    "(true <=> equal counts; Less/Equal/Greater <=> <,==,>), so == and < can never both hold. The value-level "
    "facts behind conv (C05/C06/C07) and the 100 ns ET/TDB clause are not decided here.")


def operand_pair(eng, D, st, me, other):
    """Which same-domain pair of durations does this path compare?  -> (X, Y, how) or (None, None, why)"""
    convs = [t for t in st.trace if isinstance(t, tuple) and t and t[0] == "conv-call"]
    if not convs:
        if same_scale(eng, st, me.fs[1], other.fs[1]):
            return me.fs[0], other.fs[0], "same-scale"
        return None, None, "durations of different scales compared without conversion"
    if len(convs) > 1:
        return None, None, "more than one conversion on the path"
    _, ep, ts, dur, ident = convs[0]
    if ep is other and same_scale(eng, st, ts, me.fs[1]):
        return me.fs[0], dur, "other->self.scale"
    if ep is me and same_scale(eng, st, ts, other.fs[1]):
        return dur, other.fs[0], "self->other.scale"
    return None, None, "conversion target is not the other operand's scale"


def direction_problem(eng, st, me, other, how):
    """UTC is the one scale with leap seconds: UTC -> X is exact (C06) and one-to-one, X -> UTC is neither (two instants a second
    apart share a UTC count at each leap second, and the library's TAI -> UTC is off in the seconds before it: C06.R4).  A
    comparison between a UTC epoch and a leap-free one must therefore be made in the leap-free scale.  -> None or a reason."""
    s1, s2 = scale_name(eng, st, me.fs[1]), scale_name(eng, st, other.fs[1])
    if how == "other->self.scale":
        if s1 in (None, "UTC") and s2 != "UTC":
            return "the right operand (%s) is converted into the left one's scale (%s), which may be UTC" % (s2 or "any scale", s1 or "any scale")
    elif how == "self->other.scale":
        if s2 in (None, "UTC") and s1 != "UTC":
            return "the left operand (%s) is converted into the right one's scale (%s), which may be UTC" % (s1 or "any scale", s2 or "any scale")
    return None


def run(chk, F, tier):
    eng, D = ctx(F)
    A = EpochAlg(F, eng, D)
    eng.max_paths = 60000
    # ---------------- eq
    rule1, rule2 = "C12.R1", "C12.R2"
    fn = F.find1(self_ty="Epoch", name="eq", trait_ref="PartialEq")
    A.install(duration_algebra=False, opaque_conv=True)
    finals, args = D.run(fn, interior=True)
    A.uninstall()
    n = 0
    agg = {}
    for st in finals:
        if st.end != "return":
            continue
        me = eng.deref(st, args[0])
        other = eng.deref(st, args[1])
        X, Y, how = operand_pair(eng, D, st, me, other)
        uls = "leap" if "UTC" in (scale_name(eng, st, me.fs[1]), scale_name(eng, st, other.fs[1])) else "noleap"
        if X is None:
            chk.ob(rule1, "<Epoch as PartialEq>::eq", "same-domain-operands", False, detail={"why": how, "path": describe_path(eng, st)})
            continue
        dp = direction_problem(eng, st, me, other, how)
        chk.ob("C12.R5", "<Epoch as PartialEq>::eq", "compared-in-the-leap-free-scale[%s]" % how, dp is None, "E5 scale-domain (direction of the conversion)", detail=dp)
        key = (rule1, "same-domain-operands[%s]" % how)
        agg.setdefault(key, [0, 0, None])
        agg[key][0] += 1
        agg[key][1] += 1
        alts = bool_paths(eng, D, st, st.ret)
        if alts is None:
            chk.ob(rule2, "<Epoch as PartialEq>::eq", "decidable-result", False, detail=repr(st.ret))
            continue
        TX, TY = D.total(X), D.total(Y)
        for sense, alt in alts:
            n += 1
            if sense:
                ok = D.implies(st, TX - TY, "==", alt)
                k = (rule2, "true=>same-instant-count[%s]" % how)
            else:
                ok = not D.feasible(st, list(alt) + [(TX - TY, "==")])
                k = (rule2, "false=>different-count[%s]" % how)
            a = agg.setdefault(k, [0, 0, None])
            a[0] += 1
            if ok:
                a[1] += 1
            elif a[2] is None:
                a[2] = {"path": describe_path(eng, st), "extra": [repr(x) for x in alt],
                        "why": "== answers differently from the order of the elapsed counts (a == b and a < b can both hold)"}
    for (rule, construct), (tot, okc, det) in sorted(agg.items()):
        chk.ob(rule, "<Epoch as PartialEq>::eq", construct, tot == okc, "path condition implies count relation (%d partitions)" % tot,
               detail=det)
    no_bad_events(chk, rule1, "<Epoch as PartialEq>::eq", finals, eng)
    chk.floor(rule2, "eq partitions", n, 20)

    # ---------------- partial_cmp / cmp
    rule3 = "C12.R3"
    tables = {}
    for trait, name, wrap in (("PartialOrd", "partial_cmp", True), ("Ord", "cmp", False)):
        fn = F.find1(self_ty="Epoch", name=name, trait_ref=trait)
        A.install(duration_algebra=False, opaque_conv=True)
        finals, args = D.run(fn, interior=True)
        A.uninstall()
        inst = "<Epoch as %s>::%s" % (trait, name)
        cnt = 0
        for st in finals:
            if st.end != "return":
                continue
            me = eng.deref(st, args[0])
            other = eng.deref(st, args[1])
            X, Y, how = operand_pair(eng, D, st, me, other)
            if X is None or how == "self->other.scale" and False:
                chk.ob(rule1, inst, "same-domain-operands", False, detail={"why": how, "path": describe_path(eng, st)})
                continue
            chk.ob(rule1, inst, "same-domain-operands[%s]" % how, True, "E5 scale-domain")
            dp = direction_problem(eng, st, me, other, how)
            chk.ob("C12.R5", inst, "compared-in-the-leap-free-scale[%s]" % how, dp is None, "E5 scale-domain (direction of the conversion)", detail=dp)
            v = st.ret
            if wrap:
                if isinstance(v, Enum) and ordering_name(eng, v) == "Some":
                    v = v.fs[0]
                else:
                    chk.ob(rule2, inst, "returns-Some", False, detail=repr(v))
                    continue
            nm = ordering_name(eng, v)
            cnt += 1
            ok = ord_ok(D, st, nm, D.total(X), D.total(Y))
            tables.setdefault(name, set()).add((nm, how))
            chk.ob(rule2, inst, "%s=>counts[%s]" % (nm, how), ok, "path condition implies count order",
                   detail=None if ok else {"returned": nm, "path": describe_path(eng, st)})
        no_bad_events(chk, rule1, inst, finals, eng)
        chk.floor(rule2, "%s partitions" % name, cnt, 3)
    ok = tables.get("partial_cmp") == tables.get("cmp") and {x[0] for x in tables.get("cmp", ())} == {"Less", "Equal", "Greater"}
    chk.ob(rule3, "Epoch", "PartialOrd-and-Ord-agree", ok, "same decision table (both validated against the counts)",
           detail=None if ok else {k: sorted(v) for k, v in tables.items()})

    # ---------------- min / max
    rule4 = "C12.R4"
    for name, sgn in (("min", 1), ("max", -1)):
        fn = F.find1(self_ty="Epoch", name=name, trait="")
        A.install(duration_algebra=False, opaque_conv=True)
        finals, args = D.run(fn, interior=True)
        A.uninstall()
        for st in finals:
            if st.end != "return":
                continue
            me = eng.deref(st, args[0])
            other = args[1]
            X, Y, how = operand_pair(eng, D, st, me, other)
            if X is None:
                chk.ob(rule4, "Epoch::%s" % name, "same-domain-operands", False, detail=how)
                continue
            r = st.ret
            d = (D.total(X) - D.total(Y)).scale(sgn)
            if r is me:
                ok = D.implies(st, d + 1, "<=")  # strictly earlier (min) / later (max)
                what = "returns-self=>self-strictly-%s" % ("earlier" if sgn > 0 else "later")
            elif r is other:
                ok = D.implies(st, -d, "<=")
                what = "returns-other=>self-not-%s" % ("earlier" if sgn > 0 else "later")
            else:
                ok = False
                what = "returns-an-operand"
            chk.ob(rule4, "Epoch::%s" % name, what, ok, "decision table vs counts", detail=None if ok else describe_path(eng, st))
        no_bad_events(chk, rule4, "Epoch::%s" % name, finals, eng)
    eng.max_paths = 20000
    chk.extra["engine_stats"] = dict(eng.stats)
    chk.assumptions.append("conv(e, S) = Epoch::to_time_scale is uninterpreted here; that it denotes the same instant is C05/C06/C07")
