"""C15 - TimeSeries yields exactly start + k*step, in order, up to the end bound."""
from ..sym import Engine, Int, Bool, Struct, Enum, SymEnum, Ref, Opq, Flt, St, c_lin, TRUE, FALSE
from ..lin import Lin
from ..dur import DurCtx, describe_path
from ..epochalg import EpochAlg, same_scale
from .c02 import ctx, no_bad_events
from .c03 import ordering_name

LEVEL = "other"
EXPLANATION = (
    "Frame and decision analysis of <TimeSeries as Iterator>::next and the two constructors on the MIR, explored "
    "over a symbolic series (any start epoch/scale, span, step, counter, inclusive flag): next writes only `cur`; "
    "the yielded epoch is start + cur_before*step computed from the counter (a product, not an accumulated field) in "
    "start's scale; cur increases by exactly 1 on Some and is unchanged on None; None is returned exactly when "
    "cur*step >= span (exclusive) or > span (inclusive), judged on the signed counts; the constructors set "
    "duration = end - start (Epoch subtraction), cur = 0 and the flag of their name. Duration +,-,* are treated as exact "
    "(C01), so drift-freedom is a structural fact.")


def run(chk, F, tier):
    eng, D = ctx(F)
    A = EpochAlg(F, eng, D)
    fn = F.find1(self_ty="TimeSeries", name="next", trait_ref="Iterator")
    dmul = F.find1(self_ty="Duration", name="mul", trait_ref="Mul<i64>")
    prods = []

    def h_mul(e, st, c, args, dest_tid, t):
        d, q = args[0], args[1]
        Td = D.total(d)
        if Td is None or not isinstance(q, Int):
            return NotImplemented
        P = e.product(st, Td, q.lin) if not q.lin.is_const() else Td.scale(q.lin.k)
        nm = "dur[%r]" % (P,)
        ca = e.atom(nm + ".c", -32768, 32767, "dur.c", P)
        na = e.atom(nm + ".n", 0, D.NPC - 1, "dur.n", P)
        e.add_cons(st, [(Lin({ca: D.NPC, na: 1}) - P, "==")])
        st.trace.append(("dur*i64", d, q))
        return [(st, Struct(D.dur_tid, [Int(Lin.atom(ca), d.fs[0].tid), Int(Lin.atom(na), d.fs[1].tid)]))]

    A.install(duration_algebra=True, opaque_conv=True)
    eng.hooks_by_id[dmul["id"]] = h_mul
    finals, args = D.run(fn, interior=True)
    A.uninstall()
    ini = eng.sym_cells0[args[0].key]
    # field order from the type
    names = eng.types[ini.tid]["variants"][0]["fields"]
    ix = {n: i for i, n in enumerate(names)}
    rule1, rule2, rule3 = "C15.R1", "C15.R2", "C15.R3"
    nsome = nnone = 0
    for st in finals:
        if st.end == "panic":
            continue
        if st.end != "return":
            continue
        after = eng.deref(st, args[0])
        # R1: only `cur` may change
        for f in ("start", "duration", "step", "incl"):
            same = after.fs[ix[f]] is ini.fs[ix[f]]
            chk.ob(rule1, "<TimeSeries as Iterator>::next", "field-%s-unchanged" % f, same, "write set of next()",
                   detail=None if same else repr(after.fs[ix[f]]))
        cur0 = ini.fs[ix["cur"]].lin
        cur1 = after.fs[ix["cur"]].lin
        start = ini.fs[ix["start"]]
        step = ini.fs[ix["step"]]
        span = ini.fs[ix["duration"]]
        incl = ini.fs[ix["incl"]]
        off = eng.product(st, D.total(step), cur0)
        v = st.ret
        isnone = isinstance(v, Enum) and ordering_name(eng, v) == "None"
        # which flag value is this path on?  A path that never looked at the flag (offset strictly inside / strictly beyond the span)
        # stands for both values: it is judged under each
        flag_cases = []
        for val in (True, False):
            cons = [(x, o) for x, o in _cond(incl, val)]
            if D.feasible(st, cons):
                flag_cases.append((val, cons))
        if not flag_cases:
            chk.ob(rule3, "<TimeSeries as Iterator>::next", "incl-decided", False, detail=describe_path(eng, st))
            continue
        for inc_true, fcons in flag_cases:
            st2 = st.clone()
            eng.add_cons(st2, fcons)
            D.close(st2, [off])
            d = off - D.total(span)
            if isnone:
                nnone += 1
                ok = D.implies(st2, -d + (1 if inc_true else 0), "<=")  # off >= span  /  off > span
                chk.ob(rule3, "<TimeSeries as Iterator>::next", "None=>offset%sspan[%s]" % (">" if inc_true else ">=", "inclusive" if inc_true else "exclusive"),
                       ok, "decision table vs counts", detail=None if ok else describe_path(eng, st))
                okc = D.implies(st2, cur1 - cur0, "==")
                chk.ob(rule2, "<TimeSeries as Iterator>::next", "None=>cur-unchanged", okc, "linear form")
            elif isinstance(v, Enum):
                nsome += 1
                ok = D.implies(st2, d + (0 if inc_true else 1), "<=")  # off <= span / off < span
                chk.ob(rule3, "<TimeSeries as Iterator>::next", "Some=>offset%sspan[%s]" % ("<=" if inc_true else "<", "inclusive" if inc_true else "exclusive"),
                       ok, "decision table vs counts", detail=None if ok else describe_path(eng, st))
                okc = D.implies(st2, cur1 - cur0 - 1, "==")
                chk.ob(rule2, "<TimeSeries as Iterator>::next", "Some=>cur+1", okc, "linear form", detail=None if okc else repr(cur1))
                ep = v.fs[0]
                oks = isinstance(ep, Struct) and same_scale(eng, st, ep.fs[1], start.fs[1])
                chk.ob(rule2, "<TimeSeries as Iterator>::next", "item-in-start-scale", oks, "frame")
                TR = D.total(ep.fs[0]) if isinstance(ep, Struct) else None
                st3 = st2.clone()
                D.close(st3, [TR, off])
                oke = TR is not None and D.implies_eq(st3, TR, D.total(start.fs[0]) + off)
                chk.ob(rule2, "<TimeSeries as Iterator>::next", "item==start+cur*step", oke, "Duration-level linear form (product from the counter)",
                       detail=None if oke else {"result": repr(TR), "expected": repr(D.total(start.fs[0]) + off), "path": describe_path(eng, st)}, sample=True)
            else:
                chk.ob(rule2, "<TimeSeries as Iterator>::next", "result-shape", False, detail=repr(v))
    # panics other than the counter overflow after 2^63 items are not allowed
    for st in finals:
        for e in st.events:
            if e["kind"] == "panic" and e["msg"].startswith("Overflow(Add)") and (e.get("fn", "").endswith("::next") or "::next::{closure" in e.get("fn", "")):
                # only feasible when cur == i64::MAX
                cur0 = ini.fs[ix["cur"]].lin
                ok = D.implies(st, cur0 - ((1 << 63) - 1), "==")
                chk.ob(rule2, "<TimeSeries as Iterator>::next", "counter-overflow-only-at-i64::MAX", ok, "interval",
                       detail=None if ok else describe_path(eng, st))
                e["kind"] = "info"
    no_bad_events(chk, rule2, "<TimeSeries as Iterator>::next", finals, eng)
    chk.floor(rule3, "Some paths", nsome, 2)
    chk.floor(rule3, "None paths", nnone, 2)

    # R4 constructors
    rule4 = "C15.R4"
    esub = F.find1(self_ty="Epoch", name="sub", trait_ref="Sub")
    for name, flag in (("exclusive", False), ("inclusive", True)):
        fn = F.find1(self_ty="TimeSeries", name=name, trait="")
        subs = []

        def h_sub(e, st, c, a, dest_tid, t):
            v = e.fresh(dest_tid, ("epoch-sub", e.term(a[0]), e.term(a[1])))
            subs.append((a[0], a[1], v))
            return [(st, v)]

        # (scale conversions are kept uninterpreted here: a constructor has no business converting, and one that does is judged by
        # the operand-flow obligations below, not by exploring every arm of to_time_scale)
        A.install(duration_algebra=True, opaque_conv=True)
        eng.hooks_by_id[esub["id"]] = h_sub
        try:
            finals, args = D.run(fn, interior=True)
        finally:
            A.uninstall()
            eng.hooks_by_id = {}
        for st in finals:
            if st.end != "return":
                continue
            r = st.ret
            ok = isinstance(r, Struct) and r.fs[ix["start"]] is args[0] and r.fs[ix["step"]] is args[2]
            chk.ob(rule4, "TimeSeries::%s" % name, "start,step=arguments", ok, "frame")
            okd = len(subs) >= 1 and subs[-1][0] is args[1] and subs[-1][1] is args[0] and r.fs[ix["duration"]] is subs[-1][2]
            chk.ob(rule4, "TimeSeries::%s" % name, "duration=end-start", okd, "E5 operand flow")
            okc = isinstance(r.fs[ix["cur"]], Int) and r.fs[ix["cur"]].lin == Lin.const(0)
            chk.ob(rule4, "TimeSeries::%s" % name, "cur=0", okc, "constant")
            okf = isinstance(r.fs[ix["incl"]], Bool) and r.fs[ix["incl"]].c == (TRUE if flag else FALSE)
            chk.ob(rule4, "TimeSeries::%s" % name, "incl=%s" % flag, okf, "constant")
    chk.extra["engine_stats"] = dict(eng.stats)
    chk.assumptions.append("Duration +, - and * i64 are exact on nanosecond counts away from the bounds (C01)")
    chk.assumptions.append("len()/size_hint (float) and the scale of end - start for mixed scales (C04.R2) are not decided here")


def _cond(b, sense):
    from ..sym import dnf, c_not
    c = b.c if sense else c_not(b.c)
    alts = dnf(c)
    return alts[0] if alts else [(Lin.const(1), "<=")]
