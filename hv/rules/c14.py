"""C14 - floor / ceil / round snap to multiples of the step, on the correct side."""
from ..sym import Engine, Int, Bool, Struct, Enum, SymEnum, Ref, Opq, Flt, St, c_lin, c_and
from ..lin import Lin
from ..dur import DurCtx, describe_path, via
from ..epochalg import EpochAlg, same_scale
from . import c02
from .c02 import ctx, no_bad_events

LEVEL = "other"
EXPLANATION = (
    "Abstract interpretation of Duration::floor/ceil/round on the MIR with linear forms and the Euclid / "
    "truncating-remainder axioms: for floor the integer F handed to from_total_nanoseconds must satisfy F <= x, "
    "x - F < |s| and F = x - (x mod s) for a remainder atom whose operands are provably the exact count x of self "
    "and +/-the exact count s of the step (hence a multiple of |s|); zero step => 0. ceil must be floor + |s| "
    "(MAX on i128 overflow); round must return floor iff x - floor < ceil - x (ties up). Epoch::floor/ceil/round "
    "must be from_duration(self.duration.op(step), self.time_scale). total_nanoseconds is analysed in place, so its "
    "known defect for centuries <= -2 is re-derived here under its own key.")


def alg_from_total(D, captured):
    def h(e, st, c, args, dest_tid, t):
        x = args[0]
        if not isinstance(x, Int):
            return NotImplemented
        captured.append((st, x.lin))
        k = e.const_of(st, x)
        if k is not None and D.MIN_T <= k <= D.MAX_T:
            cc, nn = (D.MAX if k == D.MAX_T else (k // D.NPC, k % D.NPC))
            st.trace.append(("from_total", x.lin))
            return [(st, Struct(D.dur_tid, [Int(Lin.const(cc), e.find_tid("i16")), Int(Lin.const(nn), e.find_tid("u64"))]))]
        nm = "dur[%r]" % (x.lin,)
        ca = e.atom(nm + ".c", -32768, 32767, "dur.c", x.lin)
        na = e.atom(nm + ".n", 0, D.NPC - 1, "dur.n", x.lin)
        e.add_cons(st, [(Lin({ca: D.NPC, na: 1}) - x.lin, "==")])
        st.trace.append(("from_total", x.lin))
        return [(st, Struct(D.dur_tid, [Int(Lin.atom(ca), e.find_tid("i16")), Int(Lin.atom(na), e.find_tid("u64"))]))]

    return h


def floor_rule(chk, F):
    rule = "C14.R1"
    eng, D = ctx(F)
    bad = c02.all_bad_arms(F)
    fn = F.find1(self_ty="Duration", name="floor", trait="")
    ft = F.find1(self_ty="Duration", name="from_total_nanoseconds", trait="")
    cap = []
    eng.hooks_by_id = {ft["id"]: alg_from_total(D, cap)}
    finals, args = D.run(fn, interior=True)
    eng.hooks_by_id = {}
    me = eng.deref(finals[0], args[0]) if finals else None
    n = 0
    agg = {}
    for st in finals:
        if st.end != "return":
            continue
        me = eng.deref(st, args[0])
        x = D.total(me)
        s = D.total(args[1])
        Fs = [t[1] for t in st.trace if isinstance(t, tuple) and t and t[0] == "from_total"]
        if len(Fs) == 0 and getattr(st, "ret", None) is not None and _try_total(D, st.ret) is not None:
            # a path that returns a duration built without the constructor (e.g. an early `return Self::ZERO`): the obligations
            # below are stated on the signed count of what is returned, so take it from the returned value itself
            Fs = [_try_total(D, st.ret)]
        if len(Fs) != 1:
            chk.ob(rule, "Duration::floor", "result=from_total_nanoseconds(F)", False, detail="%d calls" % len(Fs))
            continue
        Fv = Fs[0]
        vias = via(st, bad)
        rl = D.region_label(st, [("self.c", D.parts(me)[0])])
        tag = ("via:" + "+".join(vias)) if vias else rl
        st2 = st.clone()
        D.close(st2, [Fv, x, s])
        n += 1
        if D.implies(st2, s, "=="):
            ok = D.implies(st2, Fv, "==")
            _agg(agg, (rule, "zero-step=>zero[%s]" % tag), ok, st, eng)
            continue
        for sgn, cons, abs_s in (("s>0", [(-s + 1, "<=")], s), ("s<0", [(s + 1, "<=")], -s)):
            if not D.feasible(st2, cons):
                continue
            ok1 = D.implies(st2, Fv - x, "<=", cons)
            _agg(agg, (rule, "floor<=x[%s]" % tag), ok1, st, eng,
                 {"F": repr(Fv), "x": repr(x), "why": "the remainder used can be negative (truncating %) so floor lands above the value"})
            ok2 = D.implies(st2, x - Fv - abs_s + 1, "<=", cons)
            _agg(agg, (rule, "x-floor<|s|[%s]" % tag), ok2, st, eng, {"F": repr(Fv), "x": repr(x)})
            ok3 = _multiple(eng, D, st2, Fv, x, s, cons)
            _agg(agg, (rule, "floor-is-multiple-of-step[%s]" % tag), ok3, st, eng, {"F": repr(Fv), "x": repr(x), "s": repr(s)})
    for (r, construct), (tot, okc, det) in sorted(agg.items()):
        chk.ob(r, "Duration::floor", construct, tot == okc, "linear forms + remainder axioms (%d partitions)" % tot, detail=det)
    no_bad_events(chk, rule, "Duration::floor", finals, eng)
    chk.floor(rule, "floor partitions", n, 4)


def _agg(agg, key, ok, st, eng, extra=None):
    a = agg.setdefault(key, [0, 0, None])
    a[0] += 1
    if ok:
        a[1] += 1
    elif a[2] is None:
        d = {"path": describe_path(eng, st)}
        if extra:
            d.update(extra)
        a[2] = d


def _try_total(D, v):
    try:
        return D.total(v)
    except Exception:
        return None


def _multiple(eng, D, st, Fv, x, s, cons):
    """F == num - R for a remainder atom R = num mod den with num == x and den == +/-s."""
    if D.implies(st, Fv, "==", cons):
        return True
    for a in list(eng.atoms.values()):
        if a.kind in ("erems", "trems", "erem", "trem"):
            num, den = a.defn
            den_l = den if isinstance(den, Lin) else Lin.const(den)
            R = Lin.atom(a)
            # num - (num rem den) is a multiple of den for the truncating and the Euclidean remainder alike, and stays one when a
            # whole den is added or taken away (the "one step down when negative" form); which side it lands on is the business of
            # floor<=x and x-floor<|s| above
            if not any(D.implies(st, f, "==", cons) for f in (Fv - num + R, Fv - num + R + den_l, Fv - num + R - den_l)):
                continue
            if not D.implies(st, num - x, "==", cons):
                continue
            if D.implies(st, den_l - s, "==", cons) or D.implies(st, den_l + s, "==", cons):
                return True
    return False


def ceil_round_rules(chk, F):
    rule = "C14.R2"
    eng, D = ctx(F)
    bad = c02.all_bad_arms(F)
    A = EpochAlg(F, eng, D)
    ffloor = F.find1(self_ty="Duration", name="floor", trait="")
    fceil = F.find1(self_ty="Duration", name="ceil", trait="")
    fround = F.find1(self_ty="Duration", name="round", trait="")
    ft = F.find1(self_ty="Duration", name="from_total_nanoseconds", trait="")
    fabs = F.find1(self_ty="Duration", name="abs", trait="")

    def opaque_dur(tag, rec):
        def h(e, st, c, args, dest_tid, t):
            v = e.fresh(dest_tid, (tag, tuple(e.term(a) for a in args)))
            c2, n2 = D.parts(v)
            e.add_cons(st, [(n2 - (D.NPC - 1), "<=")])
            rec.append((st, args, v))
            st.trace.append((tag, tuple(args), v))
            return [(st, v)]
        return h

    def h_abs(e, st, c, args, dest_tid, t):
        d = e.deref(st, args[0])
        T = D.total(d)
        out = []
        for s2 in e.assume(st.clone(), c_lin("ge", T)):
            out.append((s2, d))
        for s2 in e.assume(st.clone(), c_lin("lt", T)):
            nm = "dur[%r]" % (-T,)
            ca = e.atom(nm + ".c", -32768, 32767, "dur.c", -T)
            na = e.atom(nm + ".n", 0, D.NPC - 1, "dur.n", -T)
            e.add_cons(s2, [(Lin({ca: D.NPC, na: 1}) + T, "==")])
            out.append((s2, Struct(D.dur_tid, [Int(Lin.atom(ca), d.fs[0].tid), Int(Lin.atom(na), d.fs[1].tid)])))
        return out

    # ---- ceil
    rec, cap = [], []
    eng.hooks_by_id = {ffloor["id"]: opaque_dur("floor", rec), ft["id"]: alg_from_total(D, cap), fabs["id"]: h_abs}
    finals, args = D.run(fceil, interior=True)
    eng.hooks_by_id = {}
    n = 0
    agg = {}
    for st in finals:
        if st.end != "return":
            continue
        fl = [t for t in st.trace if isinstance(t, tuple) and t and t[0] == "floor"]
        me = eng.deref(st, args[0])
        okf = len(fl) == 1 and eng.deref(st, fl[0][1][0]) is me and fl[0][1][1] is args[1]
        _agg(agg, (rule, "ceil:floor(self,step)-called"), okf, st, eng)
        if not okf:
            continue
        Fl = fl[0][2]
        s = D.total(args[1])
        vias = via(st, bad)
        rl = D.region_label(st, [("floor.c", D.parts(Fl)[0])])
        tag = ("via:" + "+".join(vias)) if vias else rl
        TR = D.total(st.ret)
        n += 1
        st2 = st.clone()
        D.close(st2, [TR, D.total(Fl), s])
        for sgn, cons, abs_s in (("s>=0", [(-s, "<=")], s), ("s<0", [(s + 1, "<=")], -s)):
            if not D.feasible(st2, cons):
                continue
            ok = TR is not None and (D.implies(st2, TR - D.total(Fl) - abs_s, "==", cons) or D.is_const_dur(st2, st.ret, D.MAX, cons))
            _agg(agg, (rule, "ceil==floor+|step|[%s]" % tag), ok, st, eng, {"result": repr(TR), "floor": repr(D.total(Fl)), "step": repr(s)})
    for (r, construct), (tot, okc, det) in sorted(agg.items()):
        chk.ob(r, "Duration::ceil", construct, tot == okc, "Duration-level linear form (%d partitions)" % tot, detail=det)
    no_bad_events(chk, rule, "Duration::ceil", finals, eng)
    chk.floor(rule, "ceil partitions", n, 3)

    # ---- round: floor(self, step) is taken as established above (uninterpreted, floor <= x < floor + |step|); how the other
    # candidate is obtained - ceil(self, step), or floor + |step| through a helper - is interpreted, not prescribed: the value
    # returned must be the floor when x is strictly nearer to it, and floor + |step| (MAX when that saturates) otherwise
    recf = []
    A.install(duration_algebra=True, opaque_conv=False)
    eng.hooks_by_id[ffloor["id"]] = opaque_dur("floor", recf)
    eng.hooks_by_id[fabs["id"]] = h_abs
    eng.hooks_by_id[ft["id"]] = alg_from_total(D, [])
    finals, args = D.run(fround, interior=True)
    eng.hooks_by_id = {}
    A.uninstall()
    n = 0
    agg = {}
    for st in finals:
        if st.end != "return":
            continue
        me = eng.deref(st, args[0])
        fl = [t for t in st.trace if isinstance(t, tuple) and t and t[0] == "floor"]
        okf = len(fl) >= 1 and all(eng.deref(st, f_[1][0]) is me and f_[1][1] is args[1] for f_ in fl) and all(f_[2] is fl[0][2] for f_ in fl)
        _agg(agg, (rule, "round:floor-of(self,step)"), okf, st, eng)
        if not okf:
            continue
        Fl = fl[0][2]
        x = D.total(me)
        tf = D.total(Fl)
        s = D.total(args[1])
        r = st.ret
        TR = D.total(r)
        vias = via(st, bad)
        for sgn, scons, abs_s in (("s>0", [(-s + 1, "<=")], s), ("s<0", [(s + 1, "<=")], -s)):
            tc = tf + abs_s
            # premises established by the floor rule: floor <= x < floor + |step|
            prem = scons + [(tf - x, "<="), (x - tc + 1, "<=")]
            if not D.feasible(st, prem):
                continue
            n += 1
            st2 = st.clone()
            D.close(st2, [x, tf, tc] + ([TR] if TR is not None else []), prem)
            tag = ("[via:" + "+".join(vias) + "]") if vias else ""
            if r is Fl or (TR is not None and D.implies(st2, TR - tf, "==", prem)):
                ok = D.implies(st2, (x - tf) - (tc - x) + 1, "<=", prem)  # strictly nearer to floor
                _agg(agg, (rule, "round:returns-floor=>strictly-nearer-floor" + tag), ok, st, eng)
            else:
                fits = prem + [(tc - D.MAX_T, "<=")]
                sat = prem + [(Lin.const(D.MAX_T + 1) - tc, "<=")]
                okv = TR is not None
                if okv and D.feasible(st2, fits):
                    okv = D.implies(st2, TR - tc, "==", fits)
                if okv and D.feasible(st2, sat):
                    okv = D.is_const_dur(st2, r, D.MAX, sat)
                _agg(agg, (rule, "round:returns-floor-or-floor+|step|" + tag), okv, st, eng, {"ret": repr(TR)[:200], "floor": repr(tf)[:120]})
                if okv:
                    ok = D.implies(st2, (tc - x) - (x - tf), "<=", prem)  # nearer to ceil or tie
                    _agg(agg, (rule, "round:returns-ceil=>nearer-ceil-or-tie" + tag), ok, st, eng)
    for (r, construct), (tot, okc, det) in sorted(agg.items()):
        chk.ob(r, "Duration::round", construct, tot == okc, "decision table vs counts (%d partitions)" % tot, detail=det)
    no_bad_events(chk, rule, "Duration::round", finals, eng)
    chk.floor(rule, "round partitions", n, 2)

    # ---- Epoch::floor/ceil/round
    rule3 = "C14.R3"
    for name, dfn in (("floor", ffloor), ("ceil", fceil), ("round", fround)):
        fn = F.find1(self_ty="Epoch", name=name, trait="")
        rec = []
        eng.hooks_by_id = {dfn["id"]: opaque_dur(name, rec)}
        finals, args = D.run(fn, interior=True)
        eng.hooks_by_id = {}
        for st in finals:
            if st.end != "return":
                continue
            ep = eng.deref(st, args[0])
            calls = [t for t in st.trace if isinstance(t, tuple) and t and t[0] == name]
            r = st.ret
            ok = len(calls) == 1 and isinstance(r, Struct) and r.fs[0] is calls[0][2] and same_scale(eng, st, r.fs[1], ep.fs[1]) and \
                _is(eng, st, calls[0][1][0], ep.fs[0]) and calls[0][1][1] is args[1]
            chk.ob(rule3, "Epoch::%s" % name, "from_duration(self.duration.%s(step),self.time_scale)" % name, ok, "E5 frame rule",
                   detail=None if ok else repr(r))
        no_bad_events(chk, rule3, "Epoch::%s" % name, finals, eng)


def _is(eng, st, a, b):
    if a is b:
        return True
    if isinstance(a, Ref):
        return eng.deref(st, a) is b
    return False


def approx_rule(chk, F):
    """approx() = self.round(one unit of the largest non-zero component of decompose()): decision table over the decomposition
    (the components keep the roles decompose() assigns: days, hours, minutes, seconds, milliseconds, microseconds, else ns)."""
    from .c10 import Reader
    from .c20 import rec_hook, recs
    from .c02 import UNIT_FACTORS
    from ..sym import St as _St
    rule = "C14.R4"
    R = Reader(F)
    eng, D = R.eng, R.D
    fn = F.find1(self_ty="Duration", name="approx", trait="")
    dec = F.find1(self_ty="Duration", name="decompose", trait="")
    rnd = F.find1(self_ty="Duration", name="round", trait="")
    order = [(1, "Day"), (2, "Hour"), (3, "Minute"), (4, "Second"), (5, "Millisecond"), (6, "Microsecond")]
    eng.reset()
    R.install()

    def h_dec(e, st_, c, a, dest_tid, t):
        v = e.fresh(dest_tid, ("decompose", tuple(e.term(x) for x in a)))
        lims = [None, 32768 * 36525 + 1, 23, 59, 59, 999, 999, 999]
        e.add_cons(st_, [(v.fs[i].lin - lim, "<=") for i, lim in enumerate(lims) if lim is not None and isinstance(v.fs[i], Int)])
        st_.trace.append(("rec", "decompose", list(a), v))
        return [(st_, v)]
    eng.hooks_by_id[dec["id"]] = h_dec
    eng.hooks_by_id[rnd["id"]] = rec_hook(D, "round")
    st = _St()
    eng._pending_cells = []
    dv = eng.sym(fn["locals"][1]["ty"], "self")
    for k2, inner in eng._pending_cells:
        st.store[k2] = inner
    finals = eng.run(fn, args=[dv], st=st)
    R.uninstall()
    seen = set()
    for s2 in finals:
        if s2.end != "return":
            chk.ob(rule, "Duration::approx", "returns", False, detail=s2.end)
            continue
        dc, rc = recs(s2, "decompose"), recs(s2, "round")
        if len(dc) != 1 or len(rc) != 1:
            chk.ob(rule, "Duration::approx", "one-decomposition-one-round", False, detail={"decompose": len(dc), "round": len(rc)})
            continue
        comps = dc[0][1].fs
        step = rc[0][0][1]
        T = D.total(step)
        lo, hi = eng.fm_bounds(s2, T) if T is not None else (None, None)
        # which unit the path's condition selects: the first component that is provably > 0, all earlier ones provably 0
        sel = "Nanosecond"
        for k, nm in order:
            if D.implies(s2, -comps[k].lin + 1, "<="):
                sel = nm
                break
            if not D.implies(s2, comps[k].lin, "=="):
                sel = None
                break
        ok = sel is not None and lo == hi == UNIT_FACTORS[sel] and st_is(s2.ret, rc[0][1])
        seen.add(sel)
        chk.ob(rule, "Duration::approx", "largest-non-zero-component=%s=>round(1 %s)" % (sel, sel), ok, "decision table over decompose()'s outputs",
               detail=None if ok else {"step_ns": [lo, hi]})
    chk.ob(rule, "Duration::approx", "all-seven-units-reached", seen == {"Day", "Hour", "Minute", "Second", "Millisecond", "Microsecond", "Nanosecond"}, "coverage",
           detail=sorted(map(str, seen)))


def st_is(a, b):
    return a is b or (isinstance(a, Struct) and isinstance(b, Struct) and len(a.fs) == len(b.fs) and all(
        isinstance(x, Int) and isinstance(y, Int) and x.lin.key() == y.lin.key() for x, y in zip(a.fs, b.fs)))


def run(chk, F, tier):
    floor_rule(chk, F)
    approx_rule(chk, F)
    ceil_round_rules(chk, F)
    eng, D = ctx(F)
    chk.extra["engine_stats"] = dict(eng.stats)
    chk.assumptions.append("from_total_nanoseconds is exact/saturating (C02.R3); Duration +/- exact away from the bounds (C01)")
    chk.assumptions.append("round: the premises floor <= x < ceil are the conclusions of the floor/ceil rules")
