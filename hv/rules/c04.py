"""C04 - Epoch +/- Duration is exact in the epoch's own time scale; differences invert it."""
from ..sym import Engine, Int, Bool, Struct, Enum, SymEnum, Ref, Opq, Flt, St
from ..lin import Lin
from ..dur import DurCtx, describe_path
from ..epochalg import EpochAlg, same_scale
from .c02 import ctx, no_bad_events, UNIT_FACTORS

LEVEL = "other"
EXPLANATION = (
    "Frame rule on the MIR of the ten Epoch operator impls (Add/Sub<Duration>, Add/Sub<Unit>, Add<f64>, the four "
    "assign forms, Sub for Epoch), explored symbolically over any epoch in any scale: on every path the result's "
    "time_scale is self's, its duration is exactly Duration(self.duration) +/- r with r the argument / unit*1 / "
    "seconds*Unit::Second, nothing else flows in, assign forms write that value back; Epoch - Epoch is "
    "self.duration - conv(other, self.time_scale).duration. Duration +/- Duration is treated as exact addition of "
    "nanosecond counts (C01's obligation); the algebraic identities (e+d)-e=d etc. follow from the frame rule, C01 "
    "and C05's identity conversion.")

FORMS = [
    ("Add<duration::Duration>", "add", "dur", +1, False),
    ("Sub<duration::Duration>", "sub", "dur", -1, False),
    ("Add<timeunits::Unit>", "add", "unit", +1, False),
    ("Sub<timeunits::Unit>", "sub", "unit", -1, False),
    ("Add<f64>", "add", "f64", +1, False),
    ("AddAssign<duration::Duration>", "add_assign", "dur", +1, True),
    ("SubAssign<duration::Duration>", "sub_assign", "dur", -1, True),
    ("AddAssign<timeunits::Unit>", "add_assign", "unit", +1, True),
    ("SubAssign<timeunits::Unit>", "sub_assign", "unit", -1, True),
]


def run(chk, F, tier):
    eng, D = ctx(F)
    A = EpochAlg(F, eng, D)
    rule = "C04.R1"
    n = 0
    unit_f64 = F.find1(self_ty="Unit", name="mul", trait_ref="Mul<f64>")
    for tr, name, kind, sign, assign in FORMS:
        fn = F.find1(self_ty="Epoch", name=name, trait_ref=tr)
        inst = "<Epoch as %s>::%s" % (tr.replace("duration::", "").replace("timeunits::", ""), name)
        A.install(duration_algebra=True, opaque_conv=True)
        f64_calls = []
        if kind == "f64":
            def h(e, st, c, args, dest_tid, t):
                v = e.fresh(dest_tid, ("unit*f64", e.term(args[0]), e.term(args[1])))
                c2, n2 = D.parts(v)
                e.add_cons(st, [(n2 - (D.NPC - 1), "<=")])
                f64_calls.append((args[0], args[1], v))
                return [(st, v)]
            eng.hooks_by_id[unit_f64["id"]] = h
        finals, args = D.run(fn, interior=True)
        A.uninstall()
        n += 1
        npaths = 0
        for st in finals:
            if st.end != "return":
                continue
            npaths += 1
            if assign:
                self_before = None
                res = eng.deref(st, args[0])  # *self after the call
            else:
                res = st.ret
            # `self` before the call: the symbolic input (for assign forms the initial cell content)
            if assign:
                # the entry value of *self is the symbolic struct created by DurCtx.entry: rebuild it
                ini = _initial_self(eng, fn, args)
            else:
                ini = args[0]
            if not (isinstance(res, Struct) and len(res.fs) == 2 and isinstance(ini, Struct)):
                chk.ob(rule, inst, "result-shape", False, detail=repr(res))
                continue
            ok_scale = same_scale(eng, st, res.fs[1], ini.fs[1])
            chk.ob(rule, inst, "time_scale-preserved", ok_scale, "result.time_scale is a copy of self.time_scale",
                   detail=None if ok_scale else {"result_scale": repr(res.fs[1]), "self_scale": repr(ini.fs[1])})
            T0 = D.total(ini.fs[0])
            TR = D.total(res.fs[0])
            if kind == "dur":
                r = D.total(args[1])
                what = "self.duration%s=arg" % ("+" if sign > 0 else "-")
            elif kind == "unit":
                u = args[1]
                un = st.enum_ref.get(u.name) if isinstance(u, SymEnum) else u
                uname = eng.types[un.tid]["variants"][un.vi]["name"] if isinstance(un, Enum) else None
                if uname not in UNIT_FACTORS:
                    chk.ob(rule, inst, "unit-decided", False, detail=repr(u))
                    continue
                r = Lin.const(UNIT_FACTORS[uname])
                what = "self.duration%s=Unit::%s*1" % ("+" if sign > 0 else "-", uname)
            else:
                # seconds * Unit::Second (float -> Duration conversion itself is C18's business)
                ok_call = len(f64_calls) >= 1 and isinstance(f64_calls[-1][0], Enum) and eng.types[f64_calls[-1][0].tid][
                    "variants"][f64_calls[-1][0].vi]["name"] == "Second" and f64_calls[-1][1] is args[1]
                chk.ob(rule, inst, "rhs-is-seconds*Unit::Second", ok_call, "E5 operand flow")
                r = D.total(f64_calls[-1][2]) if f64_calls else None
                what = "self.duration+=seconds*Unit::Second"
            if TR is None or T0 is None or r is None:
                chk.ob(rule, inst, what, False, detail="duration not tracked")
                continue
            st2 = st.clone()
            D.close(st2, [TR, T0, r])
            ok = D.implies_eq(st2, TR, T0 + r.scale(sign))
            chk.ob(rule, inst, what, ok, "Duration-level linear form", detail=None if ok else {
                "result": repr(TR), "expected": repr(T0 + r.scale(sign)), "path": describe_path(eng, st)}, sample=(npaths == 1))
            # the count is right - and it is stored in the canonical representation (nanoseconds < one century), without which the
            # epoch built does not compare equal to the epoch it must equal
            okc = D.is_canonical(st2, res.fs[0])
            chk.ob(rule, inst, "result-duration-canonical", okc, "representation invariant of the stored duration",
                   detail=None if okc else {"result": repr(res.fs[0])[:200], "path": describe_path(eng, st)})
            if not assign:
                pass
        no_bad_events(chk, rule, inst, finals, eng)
        chk.ob(rule, inst, "explored", npaths >= 1, "paths", detail=npaths)
    chk.floor(rule, "Epoch +/- forms", n, 9)

    # R2: Epoch - Epoch
    rule = "C04.R2"
    fn = F.find1(self_ty="Epoch", name="sub", trait_ref="Sub")
    A = EpochAlg(F, eng, D)
    A.install(duration_algebra=True, opaque_conv=True)
    finals, args = D.run(fn, interior=True)
    A.uninstall()
    np_ = 0
    for st in finals:
        if st.end != "return":
            continue
        np_ += 1
        me, other = args[0], args[1]
        convs = [(ep, ts) for (s, ep, ts) in A.conv_calls if s is st or True]
        # the right operand must be conv(other, self.time_scale)
        okc = any(ep is other and same_scale(eng, st, ts, me.fs[1]) for ep, ts in convs)
        chk.ob(rule, "<Epoch as Sub>::sub", "rhs=other.to_time_scale(self.time_scale)", okc, "E5 operand flow",
               detail=None if okc else "to_time_scale is not applied to `other` with self's scale")
        if same_scale(eng, st, other.fs[1], me.fs[1]):
            X = other.fs[0]
        else:
            X = A.conv_duration(other.fs[0], st.enum_ref.get(other.fs[1].name, other.fs[1]) if isinstance(other.fs[1], SymEnum) else other.fs[1],
                                st.enum_ref.get(me.fs[1].name, me.fs[1]) if isinstance(me.fs[1], SymEnum) else me.fs[1])
        TR = D.total(st.ret)
        exp = D.total(me.fs[0]) - D.total(X)
        st2 = st.clone()
        D.close(st2, [TR, exp])
        ok = TR is not None and D.implies_eq(st2, TR, exp)
        chk.ob(rule, "<Epoch as Sub>::sub", "self.duration-conv(other,self.time_scale).duration", ok,
               "Duration-level linear form", detail=None if ok else {"result": repr(TR), "expected": repr(exp), "path": describe_path(eng, st)})
    no_bad_events(chk, rule, "<Epoch as Sub>::sub", finals, eng)
    chk.floor(rule, "Epoch - Epoch paths", np_, 1)
    chk.extra["engine_stats"] = dict(eng.stats)
    chk.assumptions.append("Duration +/- Duration is exact addition of nanosecond counts away from the bounds (C01)")
    chk.assumptions.append("Epoch + f64: only the operand flow is decided; the float->Duration conversion is C18's")


def _initial_self(eng, fn, args):
    """Symbolic value *self had on entry for `&mut self` methods (cells are created by Engine.sym)."""
    ref = args[0]
    return eng.sym_cells0.get(ref.key) if hasattr(eng, "sym_cells0") else None
