"""C13 - Parsers are total: any string yields a value or an error, never a panic."""
from ..sym import Engine, Int, Bool, Struct, Enum, SymEnum, Ref, Opq, Flt, Str, Arr, St, c_lin, c_and, norm_path
from ..lin import Lin
from ..dur import DurCtx, describe_path
from ..havoc import Havoc, m_char_indices, m_len_utf8, NEXT_PATHS
from .. import cfg, strmodels
from .c02 import ctx
from .c03 import ordering_name

LEVEL = "other"
EXPLANATION = (
    "PANIC-FREE over the cone of the ten parsing entry points by abstract interpretation of the MIR with the input "
    "as an arbitrary UTF-8 string (only its length, known character boundaries and first character are tracked), "
    "lexical_core::parse returning any value of the target type (NaN/inf included) and every other external callee an "
    "arbitrary total function. Panic-capable constructs (Assert terminators for overflow / bounds / division, "
    "diverging calls from panic!/todo!/unreachable!/assert!, unwrap/expect, str and slice indexing, pow/abs) are "
    "inventoried from the cone; a site is discharged when no explored path reaches it. Input-driven loops are "
    "abstracted by one arbitrary iteration from an arbitrary state, strengthened by inferred inductive invariants "
    "(Houdini over 0 <= v, v <= c, v <= len(s) candidates), plus the loop exit from an arbitrary state. Termination: "
    "every CFG cycle in the cone is driven by a finite iterator's next(). Functions judged by other properties "
    "(Duration/Unit arithmetic C01/C02/C18, Epoch +/- C04, maybe_from_gregorian C08.R4, to_time_scale cells "
    "C05-C07) are assumed panic-free here and listed. Out-of-range fields end in Err through Token::value_ok and "
    "is_gregorian_valid (C08.R1).")

# local functions whose panic-freedom is another property's obligation (modular assumption, printed in evidence)
MODULAR = {
    "C01/C02/C18 (Duration and Unit arithmetic)": [
        ("Duration", "add", "Add"), ("Duration", "sub", "Sub"), ("Duration", "neg", "Neg"), ("Duration", "mul", "Mul<i64>"),
        ("Unit", "mul", "Mul<i64>"), ("Unit", "mul", "Mul<f64>"), ("i64", "mul", "Mul<timeunits::Unit>"), ("f64", "mul", "Mul<timeunits::Unit>"),
        ("Duration", "add_assign", "AddAssign"), ("Duration", "sub_assign", "SubAssign"), ("Duration", "compose_f64", ""), ("Duration", "eq", "PartialEq"),
    ],
    "C04 (Epoch +/- Duration)": [("Epoch", "add", "Add<duration::Duration>"), ("Epoch", "sub", "Sub<duration::Duration>")],
    "C08.R4 (maybe_from_gregorian)": [("Epoch", "maybe_from_gregorian", "")],
    "C05-C07 (to_time_scale cells), C16 (weekday)": [("Epoch", "to_time_scale", ""), ("Epoch", "weekday", "")],
}

INLINE_EXT_PREFIXES = (
    "core::option::", "core::result::", "<core::result::Result", "<core::option::Option", "core::ops::", "<core::ops::", "core::convert::",
    "<T as core::convert", "<I as core::iter::IntoIterator", "core::cmp::", "<core::cmp", "core::mem::", "core::clone::", "core::hint::",
    "core::iter::Iterator::rev", "core::iter::Iterator::enumerate", "core::iter::Iterator::zip", "core::iter::Iterator::take",
    "core::slice::iter::<impl core::iter::IntoIterator", "core::array::", "<T as core::array", "core::default::", "<usize as core::default",
    "<bool as core::default", "<core::option::Option<T> as core::default",
)


def entries(F):
    return [
        ("Epoch::from_str", F.find1(self_ty="Epoch", name="from_str", trait_ref="FromStr")),
        ("Epoch::from_gregorian_str", F.find1(self_ty="Epoch", name="from_gregorian_str", trait="")),
        ("Epoch::from_format_str", F.find1(self_ty="Epoch", name="from_format_str", trait="")),
        ("Epoch::from_str_with_format", F.find1(self_ty="Epoch", name="from_str_with_format", trait="")),
        ("Format::from_str", F.find1(self_ty="Format", name="from_str", trait_ref="FromStr")),
        ("Format::parse", F.find1(self_ty="Format", name="parse", trait="")),
        ("Duration::from_str", F.find1(self_ty="Duration", name="from_str", trait_ref="FromStr")),
        ("TimeScale::from_str", F.find1(self_ty="TimeScale", name="from_str", trait_ref="FromStr")),
        ("Weekday::from_str", F.find1(self_ty="Weekday", name="from_str", trait_ref="FromStr")),
        ("MonthName::from_str", F.find1(self_ty="MonthName", name="from_str", trait_ref="FromStr")),
    ]


def modular_ids(F):
    ids = {}
    for why, lst in MODULAR.items():
        for self_ty, name, tr in lst:
            try:
                f = F.find1(self_ty=self_ty, name=name, trait="") if tr == "" else F.find1(self_ty=self_ty, name=name, trait_ref=tr)
            except Exception:
                continue
            ids[f["id"]] = (why, f["key"])
    return ids


def _ints_in(v, out, depth=0):
    if isinstance(v, bool) or depth > 6:
        return
    if isinstance(v, int):
        out.add(v)
    elif isinstance(v, dict):
        if "fbits" in v or "str" in v or "char" in v:
            return
        for x in v.values():
            _ints_in(x, out, depth + 1)
    elif isinstance(v, list):
        for x in v[:64]:
            _ints_in(x, out, depth + 1)


def harvest_constants(F, fns):
    out = set()
    for f in fns:
        for bi, si, s in cfg.stmts(f):
            if s["k"] == "a":
                for o in cfg.operands_of_rvalue(s["r"]):
                    k = cfg.operand_const(o)
                    if k is not None:
                        _ints_in(k.get("v"), out)
        for bi, t in cfg.calls(f):
            for a in t["args"]:
                k = cfg.operand_const(a)
                if k is not None:
                    _ints_in(k.get("v"), out)
    return out


def _harvest_constants_old(F, fns):
    out = set()
    for f in fns:
        for bi, si, s in cfg.stmts(f):
            if s["k"] != "a":
                continue
            for o in cfg.operands_of_rvalue(s["r"]):
                k = cfg.operand_const(o)
                if k is not None and isinstance(k.get("v"), int) and not isinstance(k["v"], bool):
                    out.add(k["v"])
        for bi, t in cfg.calls(f):
            for a in t["args"]:
                k = cfg.operand_const(a)
                if k is not None and isinstance(k.get("v"), int) and not isinstance(k["v"], bool):
                    out.add(k["v"])
    return out


def site_inventory(F, fns):
    """Panic-capable constructs in the cone: {(fn key, description): span}"""
    sites = {}
    for f in fns:
        for bi, b in enumerate(f["blocks"]):
            if b.get("cleanup"):
                continue
            t = b["t"]
            if t["k"] == "assert":
                sites[(f["key"], "assert:%s@bb%d" % (t["msg"], bi))] = F.span(t.get("sp"))
            elif t["k"] == "call":
                nm = cfg.callee_name(t["f"])
                if t["t"] is None:
                    sites[(f["key"], "diverge:%s%s@bb%d" % (nm.split("::")[-1], "(" + t["macro"] + ")" if t.get("macro") else "", bi))] = F.span(t.get("sp"))
                elif not t["f"].get("local") and any(nm.endswith(x) or ("::" + x.strip(":") + "::<") in nm for x in ("::unwrap", "::expect", ">::index", "::pow", "::abs")):
                    sites[(f["key"], "may-panic:%s@bb%d" % (nm.split("::")[-1], bi))] = F.span(t.get("sp"))
    return sites


def make_engine(F, mod_ids):
    eng = Engine(F, max_paths=40000, max_steps=40000)
    eng.lazy_enums = True
    eng.group_switch = True
    eng.sym_select = True
    strmodels.install(eng)
    eng.models["core::str::<impl str>::char_indices"] = m_char_indices
    eng.models["core::char::methods::<impl char>::len_utf8"] = m_len_utf8

    def opaque(c):
        fid = c.get("fn_id")
        if fid is not None and fid in mod_ids:
            return True
        if c.get("local"):
            return False
        path = norm_path(c.get("path") or c.get("decl_path") or "")
        if path.startswith("core::panicking") or path.startswith("core::option::unwrap_failed") or path.startswith("core::result::unwrap_failed") or \
                path.startswith("core::option::expect_failed"):
            return False
        inst = c.get("inst") or ""
        if ("[u8]" in inst or "&str" in inst) and inst.endswith("::eq"):
            return True  # byte-wise / string equality: a total function of its operands
        if c.get("fn_id") is not None and any(path.startswith(p) for p in INLINE_EXT_PREFIXES):
            return False
        return True

    eng.opaque = opaque
    return eng


def contract_cmp_chars(F, eng, reports):
    """cmp_chars_to_str(s, start_idx, cmp_str) is analysed on its own under `start_idx <= s.len()`; at every call site that
    precondition must be implied by the caller's state (assume/guarantee), and the result is an arbitrary bool."""
    fn = F.free_fn("parse::cmp_chars_to_str")

    def h(e, st, c, a, dest_tid, t):
        from ..models import _str_of
        from ..lin import implies
        s = _str_of(e, st, a[0])
        idx = a[1]
        ok = s is not None and isinstance(idx, Int) and implies(st.cons, idx.lin - s.len, "<=", st.bnd)
        if not ok:
            reports.append((st, "call of cmp_chars_to_str without start_idx <= s.len()"))
            e.event(st, "panic", "precondition start_idx <= s.len() of cmp_chars_to_str not established", callee="cmp_chars_to_str")
        return [(st, e.fresh(dest_tid, ("cmp_chars_to_str", e.term(a[0]), e.term(a[1]), e.term(a[2]))))]
    eng.hooks_by_id[fn["id"]] = h
    return fn


def explore_entry(F, eng, D, fn, K, chk, name):
    """Houdini inference then the final exploration.  -> (finals, havoc)"""
    hv = Havoc(eng, K)
    hv.install()
    rounds = 0
    finals = []
    while True:
        rounds += 1
        before = len(hv.failed)
        hv.phase = "infer"
        hv.n_havoc = 0
        finals, args = D.run(fn, canonical=True, extra=lambda st, a: _entry_assumptions(eng, D, st, a))
        if len(hv.failed) == before:
            break
        if rounds >= 80:
            if chk is not None:
                chk.error("invariant inference did not converge for %s" % name)
            break
    hv.phase = "check"
    hv.n_havoc = 0
    finals, args = D.run(fn, canonical=True, extra=lambda st, a: _entry_assumptions(eng, D, st, a))
    hv.uninstall()
    return finals, hv, rounds


def _entry_assumptions(eng, D, st, args):
    """Type invariants of the arguments: Format::num_items <= 16 (C19.R4)."""
    out = [st]
    for a in args:
        v = eng.deref(st, a) if isinstance(a, Ref) else a
        if isinstance(v, Struct) and v.tid is not None and eng.types[v.tid].get("path", "").endswith("efmt::format::Format"):
            names = eng.types[v.tid]["variants"][0]["fields"]
            n = v.fs[names.index("num_items")]
            nxt = []
            for s in out:
                nxt.extend(eng.assume(s, c_and(c_lin("le", n.lin - 16), c_lin("ge", n.lin))))
            out = nxt
    return out


def termination(chk, F, fns):
    rule = "C13.R2"
    n = 0
    for f in fns:
        # strongly connected components (Tarjan, iterative enough for these sizes)
        nblocks = len(f["blocks"])
        succ = {i: [s for s in cfg.succs(f, i) if not f["blocks"][s].get("cleanup")] for i in range(nblocks) if not f["blocks"][i].get("cleanup")}
        index = {}
        low = {}
        stack = []
        on = set()
        sccs = []
        counter = [0]

        def strong(v):
            work = [(v, 0)]
            while work:
                node, i = work.pop()
                if i == 0:
                    index[node] = low[node] = counter[0]
                    counter[0] += 1
                    stack.append(node)
                    on.add(node)
                recurse = False
                ss = succ.get(node, [])
                while i < len(ss):
                    w = ss[i]
                    i += 1
                    if w not in index:
                        work.append((node, i))
                        work.append((w, 0))
                        recurse = True
                        break
                    elif w in on:
                        low[node] = min(low[node], index[w])
                if recurse:
                    continue
                if low[node] == index[node]:
                    comp = []
                    while True:
                        w = stack.pop()
                        on.discard(w)
                        comp.append(w)
                        if w == node:
                            break
                    sccs.append(comp)
                if work:
                    parent = work[-1][0]
                    low[parent] = min(low[parent], low[node])
        for v in succ:
            if v not in index:
                strong(v)
        for comp in sccs:
            if len(comp) == 1 and comp[0] not in succ.get(comp[0], []):
                continue
            n += 1
            drivers = []
            for bi in comp:
                t = f["blocks"][bi]["t"]
                if t["k"] == "call":
                    nm = cfg.callee_name(t["f"])
                    if nm.endswith("::next") or nm.endswith("::next_back"):
                        # the None edge must leave the cycle: the switch on the result has a target outside comp
                        drivers.append(nm)
            ok = bool(drivers) and _has_exit(f, comp)
            chk.ob(rule, _short(f["key"]), "cycle-driven-by-finite-iterator#bb%d" % min(comp), ok, "CFG: every cycle contains an Iterator::next call and an exit",
                   detail=None if ok else {"blocks": sorted(comp)[:12], "why": "loop without a finite-iterator driver (no static bound)"})
    chk.floor(rule, "cycles in the cone", n, 4)


def _has_exit(f, comp):
    cs = set(comp)
    for bi in comp:
        for s in cfg.succs(f, bi):
            if s not in cs:
                return True
    return False


def _short(k):
    return k.replace("epoch::gregorian::<impl epoch::Epoch>::", "Epoch::").replace("epoch::initializers::<impl epoch::Epoch>::", "Epoch::") \
        .replace("duration::parse::", "").replace("efmt::format::", "").replace("<impl std::str::FromStr for ", "<").replace("epoch::", "")


def value_ok_table(chk, F, eng, D):
    rule = "C13.R3"
    fn = F.find1(self_ty="Token", name="value_ok", trait="")
    finals, args = D.run(fn)
    want = {"Month": (0, 13), "Day": (0, 31), "Hour": (0, 23), "OffsetHours": (0, 23), "Minute": (0, 59), "OffsetMinutes": (0, 59), "Second": (0, 60),
            "DayOfYearInteger": (0, 366)}
    got = {}
    for st in finals:
        if st.end != "return":
            continue
        tk = eng.deref(st, args[0])
        tk = st.enum_ref.get(tk.name, tk) if isinstance(tk, SymEnum) else tk
        if not isinstance(tk, Enum):
            continue
        tn = eng.types[tk.tid]["variants"][tk.vi]["name"]
        v = args[1].lin
        if ordering_name(eng, st.ret) == "Ok":
            lo, hi = eng.fm_bounds(st, v)
            g = got.setdefault(tn, [lo, hi])
            g[0] = min(g[0], lo)
            g[1] = max(g[1], hi)
    for tn, (lo, hi) in want.items():
        g = got.get(tn)
        ok = g is not None and g[0] >= lo and g[1] <= hi
        chk.ob(rule, "Token::value_ok", "%s-accepted-only-in-%d..=%d" % (tn, lo, hi), ok, "decision table (interval of the accepting paths)",
               detail=None if ok else {"accepted": g})
    # the string parsers construct epochs only through the fallible constructor
    for name, fn2 in (("Epoch::from_gregorian_str", F.find1(self_ty="Epoch", name="from_gregorian_str", trait="")),
                      ("Format::parse", F.find1(self_ty="Format", name="parse", trait=""))):
        names = [cfg.callee_name(t["f"]).split("::")[-1] for bi, t in cfg.calls(fn2)]
        ok = "maybe_from_gregorian" in names and not any(n in ("from_gregorian", "from_gregorian_utc", "from_gregorian_tai", "from_day_of_year") for n in names)
        chk.ob(rule, name, "dates-built-only-through-maybe_from_gregorian", ok, "call sites (is_gregorian_valid rejects month 13, hour 25, minute 60: C08.R1)",
               detail=None if ok else [n for n in names if "gregorian" in n or "day_of_year" in n])


def _collect(name, finals, hv, rounds, reached, stats, chk, eng):
    ends = {}
    for st in finals:
        ends[st.end] = ends.get(st.end, 0) + 1
        for e in st.events:
            if e["kind"] in ("panic", "limit", "unreachable", "unmodelled", "imprecise"):
                key = (e.get("fn") or "?", e["kind"], e["msg"].split(" (")[0])
                reached.setdefault(key, []).append((name, st, e))
    inv = hv.surviving()
    stats[name] = {"paths": len(finals), "ends": ends, "houdini_rounds": rounds,
                   "loops": {"%s@bb%d" % (_short(k[0]), k[1]): dict(v, invariants=len(inv.get(k, []))) for k, v in hv.loops_seen.items()}}
    ok = ends.get("return", 0) >= 1 and ends.get("limit", 0) == 0
    chk.ob("C13.R1", name, "explored-to-completion", ok, "all paths end in return / loop-back / a reported event", detail=stats[name], sample=True)


CCS_NAME = "cmp_chars_to_str[start_idx<=s.len()]"
_WK = {}


def _w_init(facts_path):
    from ..facts import Facts
    F = Facts(facts_path)
    ents = entries(F)
    mod = modular_ids(F)
    cone = cfg.cone(F, [f for _, f in ents], stop=lambda f: f["id"] in mod)
    fns = [F.fns[i] for i in cone if F.fns[i] is not None and F.fns[i]["local"] and "blocks" in F.fns[i] and i not in mod]
    _WK.update(F=F, ents=dict(ents), mod=mod, K=harvest_constants(F, fns))


def _w_entry(name):
    """Explore one entry point. -> (name, stats, [(event key, paths, detail)], error)"""
    import traceback
    F, mod, K = _WK["F"], _WK["mod"], _WK["K"]
    try:
        eng = make_engine(F, mod)
        D = DurCtx(F, eng)
        ccs = contract_cmp_chars(F, eng, [])
        if name == CCS_NAME:
            def pre(st, a):
                from ..models import _str_of
                s_ = _str_of(eng, st, a[0])
                return eng.assume(st, c_lin("le", a[1].lin - s_.len))
            del eng.hooks_by_id[ccs["id"]]
            hv = Havoc(eng, K)
            finals, args = D.run(ccs, extra=pre)
            rounds = 1
        else:
            finals, hv, rounds = explore_entry(F, eng, D, _WK["ents"][name], K, None, name)
            if rounds >= 80:
                return (name, {}, [], "invariant inference did not converge")
        ends = {}
        evs = {}
        for st in finals:
            ends[st.end] = ends.get(st.end, 0) + 1
            for e in st.events:
                if e["kind"] in ("panic", "limit", "unreachable", "unmodelled", "imprecise"):
                    key = (e.get("fn") or "?", e["kind"], e["msg"].split(" (")[0])
                    if key not in evs:
                        evs[key] = [0, {"span": e.get("span"), "stack": [_short(x) for x in e.get("stack", [])][-4:], "path": describe_path(eng, st, 10)}]
                    evs[key][0] += 1
        inv = hv.surviving()
        from ..sym import COVERED
        stats = {"paths": len(finals), "ends": ends, "houdini_rounds": rounds, "engine": dict(eng.stats), "_covered": sorted(COVERED),
                 "loops": {"%s@bb%d" % (_short(k[0]), k[1]): dict(v, invariants=len(inv.get(k, []))) for k, v in hv.loops_seen.items()}}
        return (name, stats, [(list(k), v[0], v[1]) for k, v in evs.items()], None)
    except Exception:
        return (name, {}, [], traceback.format_exc().strip().splitlines()[-1])


def run(chk, F, tier):
    ents = entries(F)
    mod = modular_ids(F)
    cone = cfg.cone(F, [f for _, f in ents], stop=lambda f: f["id"] in mod)
    fns = [F.fns[i] for i in cone if F.fns[i] is not None and F.fns[i]["local"] and "blocks" in F.fns[i] and i not in mod]
    chk.floor("C13.R1", "entry points", len(ents), 10)
    chk.floor("C13.R1", "local functions in the cone", len(fns), 40)
    sites = site_inventory(F, fns)
    chk.floor("C13.R1", "panic-capable sites inventoried", len(sites), 60)
    K = harvest_constants(F, fns)
    eng = make_engine(F, mod)
    D = DurCtx(F, eng)
    reached = {}
    stats = {}
    # every entry point is explored in a process of its own (independent engines; the slowest, Format::parse, bounds the wall time)
    names = [n for n, _ in ents] + [CCS_NAME]
    import os
    from multiprocessing import Pool
    with Pool(min(len(names), os.cpu_count() or 4), initializer=_w_init, initargs=(F.path,)) as pool:
        results = pool.map(_w_entry, names, chunksize=1)
    for name, st_, evs, err in results:
        chk.extra.setdefault("_covered_in_workers", []).extend(st_.pop("_covered", []))
        stats[name] = st_
        if err:
            chk.error("entry %s: %s" % (name, err))
        ends = st_.get("ends", {})
        ok = ends.get("return", 0) >= 1 and ends.get("limit", 0) == 0
        chk.ob("C13.R1", name, "explored-to-completion", ok, "all paths end in return / loop-back / a reported event", detail=st_, sample=True)
        for key, npaths, detail in evs:
            reached.setdefault(tuple(key), []).append((name, npaths, detail))
    # one obligation per inventoried site: not reached by any path
    nreached = 0
    hit_sites = set()
    for (fnk, kind, msg), lst in sorted(reached.items()):
        ename, npaths, detail = lst[0]
        construct = "%s:%s" % (kind, msg)
        nreached += 1
        chk.ob("C13.R1", _short(fnk), construct, False, detail=dict(detail, entry=ename, paths=sum(x[1] for x in lst)))
        hit_sites.add(fnk)
    for (fnk, desc), span in sorted(sites.items()):
        # discharged unless an event was reported in that function at that construct kind (conservative grouping per function)
        dis = not any(k[0] == fnk for k in reached)
        if dis:
            chk.ob("C13.R1", _short(fnk), desc, True, "no explored path reaches the site")
    chk.extra["cone_functions"] = sorted(_short(f["key"]) for f in fns)
    chk.extra["modular_assumptions"] = {why: [k for (w, k) in mod.values() if w == why] for why in MODULAR}
    chk.extra["entry_stats"] = stats
    chk.extra["sites_inventoried"] = len(sites)
    termination(chk, F, fns)
    # the one modular assumption every date parser leans on for 'any numeric magnitude' is discharged here as well, over every i32
    # year (C08's own cells stop at +/-30 000 years): maybe_from_gregorian has no panic, wrap or lossy cast on any path
    from .c08 import r4_every_year
    r4_every_year(chk, F, "C13.R1")
    eng.lazy_enums = False  # the decision table is keyed by the concrete variant
    value_ok_table(chk, F, eng, D)
    chk.extra["engine_stats"] = dict(eng.stats)
    chk.assumptions.append("external callees other than the modelled may-panic primitives are total (lexical_core::parse returns any value incl. NaN/inf); allocation failure ignored")
    chk.assumptions.append("functions listed under modular_assumptions are panic-free (judged by the named properties)")
