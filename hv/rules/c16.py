"""C16 - Epoch weekday is the civil weekday of its date; weekday arithmetic is mod 7."""
from ..sym import Engine, Int, Bool, Struct, Enum, SymEnum, Ref, Opq, Flt, St, c_lin
from ..lin import Lin
from ..dur import DurCtx, describe_path
from ..epochalg import EpochAlg, same_scale, scale_name
from ..models import outputs, FmtArgs, FmtArg
from .. import oracle, cfg
from .c02 import ctx, no_bad_events
from .c20 import rec_hook, recs, _same_ref

LEVEL = "other"
EXPLANATION = (
    "Finite-map extraction and decision analysis on the MIR. Weekday conversions (From<u8>, From<i8>, Into<u8>), "
    "Add/Sub with weekdays and with any u8, the 49-cell Weekday - Weekday table, to_c89_weekday and the name tables "
    "(FromStr vs Display/LowerHex) are evaluated as finite maps over symbolic inputs and compared with arithmetic "
    "modulo 7 (including no reachable panic/lossy cast for every u8/i8). weekday_in_time_scale must derive the day "
    "index from the *integer* nanosecond count of the duration in the requested scale (no float on the way), reduce it "
    "mod 7 with Euclidean semantics and map index 0 to Monday - and the calendar oracle says 1900-01-01 was a "
    "Monday. next/previous must move by delta = (target - today) mod 7 days, 7 when 0. That UTC weekdays are civil "
    "across leap seconds inherits C06.")

DAYS = ["Monday", "Tuesday", "Wednesday", "Thursday", "Friday", "Saturday", "Sunday"]
DAY_NS = oracle.DAY_NS


def vname(eng, st, v):
    if isinstance(v, SymEnum):
        v = st.enum_ref.get(v.name, v)
    if isinstance(v, Enum):
        return eng.types[v.tid]["variants"][v.vi]["name"]
    return None


def vidx(eng, st, v):
    n = vname(eng, st, v)
    return DAYS.index(n) if n in DAYS else None


def mod7_eq(D, st, idx, lin):
    """idx == lin mod 7 under the path condition: exists integer k with lin == 7k + idx -- decided by
    bounding (lin - idx) / 7 to a single integer k and checking the identity."""
    from ..lin import bounds, Infeasible
    try:
        lo, hi = bounds(lin - idx, st.cons, st.bnd)
    except Infeasible:
        return True
    if lo in (float("-inf"),) or hi in (float("inf"),) or hi - lo > 7 * 64:
        return False
    # every feasible value of lin must be congruent to idx: enumerate the (few) multiples of 7 in range
    ks = range(-((-lo) // 7), hi // 7 + 1)
    # lin - idx must equal one of 7k: check that all non-multiples are infeasible
    for v in range(int(lo), int(hi) + 1):
        if v % 7 != 0 and D.feasible(st, [(lin - idx - v, "==")]):
            return False
    return True


def conversions(chk, F):
    rule = "C16.R1"
    eng, D = ctx(F)
    # From<u8>, From<i8>
    for src in ("u8", "i8"):
        fn = F.find1(self_ty="Weekday", name="from", trait_ref="From<%s>" % src)
        finals, args = D.run(fn)
        seen = set()
        for st in finals:
            if st.end != "return":
                continue
            i = vidx(eng, st, st.ret)
            ok = i is not None and mod7_eq(D, st, i, args[0].lin)
            seen.add(i)
            chk.ob(rule, "<Weekday as From<%s>>::from" % src, "variant==value mod 7[%s]" % (DAYS[i] if i is not None else "?"), ok,
                   "finite map vs arithmetic mod 7", detail=None if ok else describe_path(eng, st), sample=True)
        chk.ob(rule, "<Weekday as From<%s>>::from" % src, "all-seven-variants", seen == set(range(7)), "coverage", detail=sorted(x for x in seen if x is not None))
        no_bad_events(chk, "C16.R2", "<Weekday as From<%s>>::from" % src, finals, eng)
    fn = F.find1(self_ty="u8", name="from", trait_ref="From<weekday::Weekday>")
    finals, args = D.run(fn)
    for st in finals:
        if st.end != "return":
            continue
        i = vidx(eng, st, args[0])
        ok = i is not None and isinstance(st.ret, Int) and st.ret.lin == Lin.const(i)
        chk.ob(rule, "<u8 as From<Weekday>>::from", "%s->%s" % (vname(eng, st, args[0]), i), ok, "finite map (inverse of From<u8>)")
    # Add<u8>, Sub<u8>: (self +/- n) mod 7 and no panic for any u8
    for tr, name, sgn in (("Add<u8>", "add", 1), ("Sub<u8>", "sub", -1)):
        fn = F.find1(self_ty="Weekday", name=name, trait_ref=tr)
        finals, args = D.run(fn)
        for st in finals:
            if st.end != "return":
                continue
            a = vidx(eng, st, args[0])
            r = vidx(eng, st, st.ret)
            ok = a is not None and r is not None and mod7_eq(D, st, r, args[1].lin.scale(sgn) + a)
            chk.ob(rule, "<Weekday as %s>::%s" % (tr, name), "result==(self%srhs) mod 7[%s]" % ("+" if sgn > 0 else "-", DAYS[a] if a is not None else "?"),
                   ok, "finite map vs arithmetic mod 7", detail=None if ok else describe_path(eng, st))
        no_bad_events(chk, "C16.R2", "<Weekday as %s>::%s" % (tr, name), finals, eng,
                      region=lambda st: "self=%s" % vname(eng, st, args[0]))
    # Weekday + Weekday
    fn = F.find1(self_ty="Weekday", name="add", trait_ref="Add")
    finals, args = D.run(fn)
    cells = 0
    for st in finals:
        if st.end != "return":
            continue
        a, b, r = vidx(eng, st, args[0]), vidx(eng, st, args[1]), vidx(eng, st, st.ret)
        cells += 1
        ok = None not in (a, b, r) and r == (a + b) % 7
        chk.ob(rule, "<Weekday as Add>::add", "%s+%s" % (a, b), ok, "49-cell table")
    no_bad_events(chk, "C16.R2", "<Weekday as Add>::add", finals, eng)
    chk.floor(rule, "Weekday+Weekday cells", cells, 49)
    # Weekday - Weekday = days from self to the next occurrence of rhs
    fn = F.find1(self_ty="Weekday", name="sub", trait_ref="Sub")
    finals, args = D.run(fn)
    cells = 0
    for st in finals:
        if st.end != "return":
            continue
        a, b = vidx(eng, st, args[0]), vidx(eng, st, args[1])
        T = D.total(st.ret)
        cells += 1
        ok = None not in (a, b) and T is not None and D.implies(st, T - ((b - a) % 7) * DAY_NS, "==")
        chk.ob(rule, "<Weekday as Sub>::sub", "%s-%s=%d days" % (DAYS[a], DAYS[b], (b - a) % 7), ok, "49-cell table",
               detail=None if ok else repr(T))
    no_bad_events(chk, "C16.R2", "<Weekday as Sub>::sub", finals, eng)
    chk.floor(rule, "Weekday-Weekday cells", cells, 49)
    # to_c89_weekday: Sunday = 0
    fn = F.find1(self_ty="Weekday", name="to_c89_weekday", trait="")
    finals, args = D.run(fn)
    for st in finals:
        if st.end != "return":
            continue
        a = vidx(eng, st, args[0])
        ok = a is not None and isinstance(st.ret, Int) and st.ret.lin == Lin.const((a + 1) % 7)
        chk.ob(rule, "Weekday::to_c89_weekday", "%s->%d" % (DAYS[a] if a is not None else "?", (a + 1) % 7 if a is not None else -1), ok, "finite map")
    no_bad_events(chk, "C16.R2", "Weekday::to_c89_weekday", finals, eng)
    # names: Debug/Display/LowerHex tables parse back with FromStr
    names = {}
    for tr in ("Debug", "LowerHex"):
        fn = F.find1(self_ty="Weekday", name="fmt", trait_ref=tr)
        finals, args = D.run(fn)
        for st in finals:
            if st.end != "return":
                continue
            a = vname(eng, st, eng.deref(st, args[0]))
            outs = outputs(st)
            s = None
            if len(outs) == 1 and outs[0][1] == "str":
                s = outs[0][2]
            elif len(outs) == 1 and isinstance(outs[0][2], FmtArgs) and len(outs[0][2].pieces) == 1 and outs[0][2].pieces[0][0] == "lit":
                s = outs[0][2].pieces[0][1]
            names.setdefault(tr, {})[a] = s
    fn = F.find1(self_ty="Weekday", name="fmt", trait_ref="Display")
    finals, args = D.run(fn)
    disp_ok = False
    for st in finals:
        outs = outputs(st)
        if len(outs) == 1 and isinstance(outs[0][2], FmtArgs) and len(outs[0][2].pieces) == 1 and outs[0][2].pieces[0][0] == "arg" and \
                len(outs[0][2].args) == 1 and outs[0][2].args[0].kind == "debug" and outs[0][2].args[0].val is eng.deref(st, args[0]):
            disp_ok = True
    chk.ob(rule, "<Weekday as Display>::fmt", "prints-Debug-name-of-self", disp_ok, "E7 template")
    fn = F.find1(self_ty="Weekday", name="from_str", trait_ref="FromStr")
    finals, args = D.run(fn)
    parse = {}
    for st in finals:
        if st.end != "return":
            continue
        lit = [t[3] for t in st.trace if isinstance(t, tuple) and len(t) == 4 and t[0] == "str" and t[2] == "=="]
        v = st.ret
        if isinstance(v, Enum) and eng.types[v.tid]["variants"][v.vi]["name"] == "Ok" and lit:
            parse[lit[-1]] = vname(eng, st, v.fs[0])
    for tr, tab in names.items():
        for day in DAYS:
            s = tab.get(day)
            ok = s is not None and parse.get(s) == day
            chk.ob(rule, "Weekday names", "%s(%s)=%r parses back" % (tr, day, s), ok, "writer/reader table agreement")
    chk.floor(rule, "FromStr spellings", len(parse), 14)


def weekday_of_epoch(chk, F):
    rule = "C16.R3"
    eng, D = ctx(F)
    A = EpochAlg(F, eng, D)
    fn = F.find1(self_ty="Epoch", name="weekday_in_time_scale", trait="")
    # E6: no float on the way from the duration to the index
    floaty = []
    for bi, t in cfg.calls(fn):
        nm = cfg.callee_name(t["f"])
        if any(x in nm for x in ("to_unit", "to_seconds", "rem_euclid_f64", "f64>::floor", "div_euclid_f64")):
            floaty.append(nm)
    for bi, si, s in cfg.stmts(fn):
        if s["k"] == "a" and s["r"]["op"] == "cast" and s["r"]["ck"] in ("FloatToInt", "IntToFloat"):
            floaty.append("cast %s at %s" % (s["r"]["ck"], F.span(s.get("sp"))))
    ok = not floaty
    chk.ob(rule, "Epoch::weekday_in_time_scale", "day-index-from-integer-count", ok, "E6: no lossy f64 view of the duration",
           detail=None if ok else {"float_steps": floaty, "why": "to_unit(Day) rounds: in the last ~240 ns of a day the f64 day count is already the next integer"})
    if ok:
        A.install(duration_algebra=False, opaque_conv=True)
        finals, args = D.run(fn, interior=True)
        A.uninstall()
        seen = set()
        for st in finals:
            if st.end != "return":
                continue
            ep = eng.deref(st, args[0])
            convs = [t for t in st.trace if isinstance(t, tuple) and t and t[0] == "conv-call"]
            okc = len(convs) == 1 and convs[0][1] is ep and same_scale(eng, st, convs[0][2], args[1])
            chk.ob(rule, "Epoch::weekday_in_time_scale", "uses-duration-in-requested-scale", okc, "E5 operand flow")
            if not okc:
                continue
            T = D.total(convs[0][3])
            i = vidx(eng, st, st.ret)
            seen.add(i)
            # exists day count d: d*DAY <= T < (d+1)*DAY and d mod 7 == i.  d = (T - r)/DAY with r the ns into the day
            ok2 = i is not None and _weekday_index_ok(eng, D, st, T, i)
            chk.ob(rule, "Epoch::weekday_in_time_scale", "index==floor(count/1d) mod 7[%s]" % (DAYS[i] if i is not None else "?"), ok2,
                   "linear form with Euclid axioms", detail=None if ok2 else describe_path(eng, st), sample=True)
        chk.ob(rule, "Epoch::weekday_in_time_scale", "all-seven-variants", seen == set(range(7)), "coverage", detail=sorted(x for x in seen if x is not None))
        no_bad_events(chk, rule, "Epoch::weekday_in_time_scale", finals, eng)
    # index 0 is Monday and the oracle says 1900-01-01 is a Monday
    d0 = oracle.days_from_civil(1900, 1, 1)
    monday = (d0 + 3) % 7 == 0  # 1970-01-01 was a Thursday (index 3, Monday-based)
    chk.ob(rule, "oracle", "1900-01-01-is-Monday", monday and DAYS[0] == "Monday", "calendar oracle")
    wd = F.find1(self_ty="Epoch", name="weekday_in_time_scale", trait="")
    for name, scale in (("weekday", "TAI"), ("weekday_utc", "UTC")):
        fn2 = F.find1(self_ty="Epoch", name=name, trait="")
        A_ = EpochAlg(F, eng, D)
        A_.install(duration_algebra=False, opaque_conv=True)  # a conversion, if any, stays uninterpreted
        eng.hooks_by_id[wd["id"]] = rec_hook(D, "wits")
        finals, args = D.run(fn2)
        A_.uninstall()
        chk.ob(rule, "Epoch::%s" % name, "explored", any(st.end == "return" for st in finals), "paths", detail=len(finals))
        for st in finals:
            r = recs(st, "wits")
            ok = st.end == "return" and len(r) == 1 and _same_ref(eng, st, r[0][0][0], args[0]) and scale_name(eng, st, r[0][0][1]) == scale and st.ret is r[0][1]
            chk.ob(rule, "Epoch::%s" % name, "delegates(self,%s)" % scale, ok, "E5 delegation")


def _weekday_index_ok(eng, D, st, T, i):
    """There is an Euclid pair (d, r) on the path with T == d*DAY + r, 0 <= r < DAY and d mod 7 == i."""
    cons = st.cons
    # candidate day counts: every linear form L over path atoms such that T - L*DAY lies in [0, DAY): search among
    # atoms of kind erem with divisor 7 (the index itself) and their numerators
    for a in list(eng.atoms.values()):
        if a.kind == "erem" and a.defn[1] == 7:
            num = a.defn[0]
            r = T - num.scale(DAY_NS)
            if D.implies(st, -r, "<=") and D.implies(st, r - (DAY_NS - 1), "<=") and D.implies(st, Lin.atom(a) - i, "=="):
                return True
    return False


def next_previous(chk, F):
    rule = "C16.R4"
    eng, D = ctx(F)
    A = EpochAlg(F, eng, D)
    wd = F.find1(self_ty="Epoch", name="weekday", trait="")
    for name, sgn in (("next", 1), ("previous", -1)):
        fn = F.find1(self_ty="Epoch", name=name, trait="")
        A.install(duration_algebra=True, opaque_conv=True)
        eng.hooks_by_id[wd["id"]] = rec_hook(D, "weekday")
        finals, args = D.run(fn, interior=True)
        A.uninstall()
        cells = 0
        for st in finals:
            if st.end != "return":
                continue
            ep = eng.deref(st, args[0])
            r = recs(st, "weekday")
            if not (len(r) >= 1 and all(_same_ref(eng, st, x[0][0], args[0]) for x in r)):
                chk.ob(rule, "Epoch::%s" % name, "today=self.weekday()", False)
                continue
            today = vidx(eng, st, r[0][1])
            target = vidx(eng, st, args[1])
            res = st.ret
            if today is None or target is None or not isinstance(res, Struct):
                chk.ob(rule, "Epoch::%s" % name, "decided", False, detail=repr(res))
                continue
            cells += 1
            k = ((target - today) * sgn) % 7
            k = 7 if k == 0 else k
            st2 = st.clone()
            TR = D.total(res.fs[0])
            D.close(st2, [TR])
            ok = D.implies_eq(st2, TR, D.total(ep.fs[0]) + sgn * k * DAY_NS) and same_scale(eng, st, res.fs[1], ep.fs[1])
            chk.ob(rule, "Epoch::%s" % name, "today=%s,target=%s=>%+d days" % (DAYS[today], DAYS[target], sgn * k), ok,
                   "49-cell decision table; Duration-level linear form", detail=None if ok else repr(TR)[:300])
        no_bad_events(chk, rule, "Epoch::%s" % name, finals, eng)
        chk.floor(rule, "%s cells" % name, cells, 49)
    hms = F.find1(self_ty="Epoch", name="with_hms_strict", trait="")
    for name, inner, h in (("next_weekday_at_midnight", "next", 0), ("next_weekday_at_noon", "next", 12),
                           ("previous_weekday_at_midnight", "previous", 0), ("previous_weekday_at_noon", "previous", 12)):
        fn = F.find1(self_ty="Epoch", name=name, trait="")
        inn = F.find1(self_ty="Epoch", name=inner, trait="")
        eng.hooks_by_id = {inn["id"]: rec_hook(D, "inner"), hms["id"]: rec_hook(D, "hms")}
        finals, args = D.run(fn)
        eng.hooks_by_id = {}
        for st in finals:
            ri, rh = recs(st, "inner"), recs(st, "hms")
            ok = st.end == "return" and len(ri) == 1 and len(rh) == 1 and _same_ref(eng, st, ri[0][0][0], args[0]) and ri[0][0][1] is args[1] and \
                eng.deref(st, rh[0][0][0]) is ri[0][1] and [x.lin for x in rh[0][0][1:4]] == [Lin.const(h), Lin.const(0), Lin.const(0)] and \
                st.ret is rh[0][1]
            chk.ob(rule, "Epoch::%s" % name, "%s(weekday).with_hms_strict(%d,0,0)" % (inner, h), ok, "E5 delegation")


def run(chk, F, tier):
    conversions(chk, F)
    weekday_of_epoch(chk, F)
    next_previous(chk, F)
    eng, D = ctx(F)
    chk.extra["engine_stats"] = dict(eng.stats)
    chk.assumptions.append("conv(e, S) = Epoch::to_time_scale is uninterpreted (C05/C06); Duration +/- exact (C01)")
