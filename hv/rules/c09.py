"""C09 - Epoch -> Gregorian fields exactly inverts construction; Display prints them."""
from ..sym import Engine, Int, Bool, Struct, Enum, SymEnum, Ref, Opq, Flt, Str, St, c_lin
from ..lin import Lin
from ..dur import DurCtx, describe_path
from ..epochalg import EpochAlg, same_scale, scale_name
from ..models import outputs, FmtArgs, FmtArg
from .. import oracle, cfg
from .c02 import ctx, no_bad_events
from .c20 import rec_hook, recs, _same_ref

LEVEL = "other"
EXPLANATION = (
    "R1 exactness (E6): in compute_gregorian and what it reaches (decompose, compose) no lossy f64 view of the "
    "duration (to_unit/to_seconds) exists and every integer->float cast has an operand bounded below 2^53 (decompose's "
    "day count, by C11.R1's range) so the float day arithmetic starts from exact integers. R2 inverse-shape agreement "
    "with maybe_from_gregorian: same reference year constant, same leap predicate over year ranges built from the "
    "same bounds, the same two cumulative-day tables selected by the same predicate on the year, and the same "
    "gregorian_epoch_offset added here / subtracted there. R3 field ranges: the fields returned are decompose's "
    "hours/minutes/seconds (< 24/60/60) and ns + 1000 us + 10^6 ms < 10^9 by interval evaluation, so the final casts "
    "are lossless. R4: the eight Gregorian writers print {:04}-{:02}-{:02}T{:02}:{:02}:{:02}, then .{:09} iff ns != 0, "
    "then ' {}' (+00:00 for RFC 3339) with arguments flowing in order from fields 0..6 of compute_gregorian of the "
    "right duration/scale (own scale for Display). R5: year/month_name/day_of_year are built from the same "
    "compute_gregorian(self.duration, self.time_scale). NOT decided: that the float year estimate + loop correction + "
    "month search invert the day count for every day (inductive numeric fact; R2 is its structural necessary condition).")

MONTHS = ["January", "February", "March", "April", "May", "June", "July", "August", "September", "October", "November", "December"]
MAX_DAYS = 32768 * 36525 + 1


_cache = {}


def cone_fns(F, root, stop_names=()):
    out = cfg.cone(F, [root])
    return [F.fns[i] for i in out if F.fns[i] is not None and F.fns[i]["local"] and "blocks" in F.fns[i]]


def r1_exactness(chk, F):
    rule = "C09.R1"
    cg = F.find1(self_ty="Epoch", name="compute_gregorian", trait="")
    dec = F.find1(self_ty="Duration", name="decompose", trait="")
    fns = cone_fns(F, cg)
    names = sorted(f["key"].split("::")[-1] for f in fns)
    lossy = []
    for f in fns:
        for bi, t in cfg.calls(f):
            nm = cfg.callee_name(t["f"])
            if nm.endswith("Duration::to_unit") or nm.endswith("Duration::to_seconds"):
                lossy.append("%s calls %s" % (f["key"].split("::")[-1], nm.split("::")[-1]))
    ok = not lossy
    chk.ob(rule, "Epoch::compute_gregorian", "no-f64-view-of-the-duration-in-cone", ok, "E6 over %d functions" % len(fns),
           detail=None if ok else {"lossy_sources": lossy[:12], "why": "to_unit()/to_seconds() round above 2^53 ns; floor()/casts on them shift fields near day ends"})
    # integer -> float casts in compute_gregorian: operands must be bounded below 2^53
    n = 0
    # (over compute_gregorian and the private helpers / closures only it uses; a cast whose operand the provenance argument cannot
    # bound inside one body - e.g. a day count handed to a helper as a parameter - is judged by the operand ranges observed on the
    # interpreted paths of R6, where the helpers are inlined and decompose's outputs carry C11.R1's ranges)
    seen = _cache.get("r6_i2f", [])
    for g in [f for f in fns if f is cg or _private_to(F, f, cg, fns)]:
        defs = cfg.unique_defs(g)
        for bi, si, s in cfg.stmts(g):
            if s["k"] == "a" and s["r"]["op"] == "cast" and s["r"]["ck"] == "IntToFloat":
                n += 1
                tid = cfg.place_types(F, g, cfg.operand_place(s["r"]["x"]))[-1] if cfg.operand_place(s["r"]["x"]) else s["r"]["x"]["k"]["ty"]
                t = F.types[tid]
                bound = None
                how = "interval via provenance (decompose day count)"
                if t["k"] == "int" and t["bits"] <= 32:
                    bound = 2 ** t["bits"]
                else:
                    bound = _bound(F, g, s["r"]["x"], defs, dec)
                if bound is None or bound >= 2 ** 53:
                    obs = [(lo_, hi_) for k_, lo_, hi_ in seen if k_ == g["key"]]
                    if obs and all(lo_ is not None and -(2 ** 53) < lo_ and hi_ < 2 ** 53 for lo_, hi_ in obs):
                        bound, how = max(max(abs(lo_), abs(hi_)) for lo_, hi_ in obs), "operand ranges on the interpreted paths (R6)"
                ok = bound is not None and bound < 2 ** 53
                chk.ob(rule, "Epoch::compute_gregorian", "int->f64-operand<2^53#%d" % n, ok, how,
                       detail={"operand_type": F.ty_s(tid), "bound": bound, "at": F.span(s.get("sp"))})
    chk.floor(rule, "int->float casts in compute_gregorian's own cone", n, 2)


def _private_to(F, f, root, fns):
    """f is a closure of root's cone or a private helper called only from inside that cone (so it belongs to root's implementation)"""
    if f.get("kind") == "closure":
        return True
    if f.get("vis") == "pub":
        return False
    ids = {g["id"] for g in fns}
    callers = set()
    for g in F.local_fns(False) + F.local_fns(True):
        for bi, t in cfg.calls(g):
            if t["f"].get("fn_id") == f["id"]:
                callers.add(g["id"])
    return bool(callers) and callers <= ids and f["path"].split("::")[-1] not in ("decompose", "compose", "div_rem_f64", "is_leap_year", "normalize", "from_parts")


def _bound(F, fn, o, defs, dec, depth=0):
    """Upper bound of a non-negative integer operand by provenance: decompose outputs and + constants."""
    r = cfg.resolve(fn, o, defs)
    if r[0] == "const" and isinstance(r[1].get("v"), int):
        return abs(r[1]["v"])
    if depth > 8:
        return None
    if r[0] == "place":
        p = r[1]
        # field k of a tuple local defined by a call
        if len(p["pj"]) == 1 and isinstance(p["pj"][0], dict) and "f" in p["pj"][0]:
            base = defs.get(p["l"])
            k = p["pj"][0]["f"]
            if base is not None and base["op"] == "call" and base["t"]["f"].get("fn_id") == dec["id"]:
                return [1, MAX_DAYS, 23, 59, 59, 999, 999, 999][k]
            if base is not None and base["op"] == "bin" and k == 0:
                a = _bound(F, fn, base["l"], defs, dec, depth + 1)
                b = _bound(F, fn, base["r"], defs, dec, depth + 1)
                if a is None or b is None:
                    return None
                if base["b"].startswith("Add"):
                    return a + b
                if base["b"].startswith("Mul"):
                    return a * b
    if r[0] == "rv" and r[1]["op"] == "bin":
        a = _bound(F, fn, r[1]["l"], defs, dec, depth + 1)
        b = _bound(F, fn, r[1]["r"], defs, dec, depth + 1)
        if a is None or b is None:
            return None
        if r[1]["b"].startswith("Add"):
            return a + b
        if r[1]["b"].startswith("Mul"):
            return a * b
    return None


def _local_cone(F, fn, depth=3):
    """fn plus the bodies of the crate's own closures and private helpers it calls (the refactoring-invariant unit: extracting a
    helper or moving a call into a closure must not change what is found)"""
    out, seen, todo = [], set(), [(fn, 0)]
    clos = [g for g in F.fns if g and g.get("def_kind") == "Closure" and "blocks" in g]
    while todo:
        f, d = todo.pop()
        if id(f) in seen:
            continue
        seen.add(id(f))
        out.append(f)
        if d >= depth:
            continue
        for g in clos:
            if g.get("path", "").startswith(f.get("path", "\0") + "::{closure"):
                todo.append((g, d + 1))
        for bi, t in cfg.calls(f):
            fid = t["f"].get("fn_id")
            g = F.fns[fid] if fid is not None else None
            if g is not None and g.get("local") and "blocks" in g and g.get("vis") not in ("pub", "public") and \
                    cfg.callee_name(t["f"]).split("::")[-1] not in ("is_leap_year", "gregorian_epoch_offset", "decompose", "maybe_from_gregorian",
                                                                      "compute_gregorian", "is_gregorian_valid", "from_duration"):
                todo.append((g, d + 1))
    return out


def features(F, fn0):
    """Structural features shared by the forward and inverse Gregorian computations (collected over the function's local cone)."""
    out = {"ranges": [], "leap_calls": 0, "tables": set(), "offset_calls": 0}
    for fn in _local_cone(F, fn0):
        f1 = _features1(F, fn)
        out["ranges"] += f1["ranges"]
        out["leap_calls"] += f1["leap_calls"]
        out["tables"] |= f1["tables"]
        out["offset_calls"] += f1["offset_calls"]
    return out


def _features1(F, fn):
    defs = cfg.unique_defs(fn)
    ranges = []
    for bi, si, s in cfg.stmts(fn):
        if s["k"] == "a" and s["r"]["op"] == "agg" and s["r"].get("adt", "").endswith("ops::Range"):
            ends = []
            for x in s["r"]["xs"]:
                r = cfg.resolve(fn, x, defs)
                if r[0] == "const":
                    ends.append(("const", r[1].get("v"), (r[1].get("src") or "").split("::")[-1]))
                elif r[0] == "arg":
                    ends.append(("var", fn["locals"][r[1]].get("name")))
                elif r[0] == "place":
                    ends.append(("var", fn["locals"][r[1]["l"]].get("name")))
                else:
                    p = cfg.operand_place(x)
                    ends.append(("var", fn["locals"][p["l"]].get("name") if p else None))
            ranges.append(tuple(ends))
    leap_calls = []
    for bi, t in cfg.calls(fn):
        if cfg.callee_name(t["f"]).endswith("is_leap_year"):
            r = cfg.resolve(fn, t["args"][0], defs)
            leap_calls.append(r[0])
    tables = set()
    for bi, si, s in cfg.stmts(fn):
        if s["k"] == "a":
            for o in cfg.operands_of_rvalue(s["r"]):
                k = cfg.operand_const(o)
                if k is not None and "CUMULATIVE" in (k.get("src") or ""):
                    tables.add((k["src"].split("::")[-1], tuple(k["v"]["arr"]) if isinstance(k.get("v"), dict) and "arr" in k["v"] else None))
    offs = [cfg.callee_name(t["f"]).split("::")[-1] for bi, t in cfg.calls(fn) if cfg.callee_name(t["f"]).endswith("gregorian_epoch_offset")]
    return {"ranges": ranges, "leap_calls": len(leap_calls), "tables": tables, "offset_calls": len(offs)}


def r2_siblings(chk, F):
    rule = "C09.R2"
    cg = F.find1(self_ty="Epoch", name="compute_gregorian", trait="")
    mf = F.find1(self_ty="Epoch", name="maybe_from_gregorian", trait="")
    a, b = features(F, cg), features(F, mf)
    ra = sorted({tuple((e[0], e[1]) if e[0] == "const" else ("var", "year") for e in r) for r in a["ranges"]})
    rb = sorted({tuple((e[0], e[1]) if e[0] == "const" else ("var", "year") for e in r) for r in b["ranges"]})
    want = sorted({(("const", 1900), ("var", "year")), (("var", "year"), ("const", 1900))})
    # (a side without any year loop - a closed-form leap-day count - has no range to agree on: its day count is decided exactly, against
    # the independent calendar oracle, by C08.R3 for the constructor and by R7 below for the decomposition)
    rng_ok = all(r in (want, []) for r in (ra, rb)) and (ra == rb or not ra or not rb)
    chk.ob(rule, "compute_gregorian~maybe_from_gregorian", "same-year-ranges(1900..year,year..1900)", rng_ok, "sibling agreement (Range aggregates)",
           detail=None if rng_ok else {"decompose": ra, "construct": rb})
    refs = {e[2] for r in a["ranges"] + b["ranges"] for e in r if e[0] == "const"}
    chk.ob(rule, "compute_gregorian~maybe_from_gregorian", "same-reference-year-constant", len(refs) == 1, "constant provenance", detail=sorted(refs))
    chk.ob(rule, "compute_gregorian~maybe_from_gregorian", "same-cumulative-day-tables", a["tables"] == b["tables"] and len(a["tables"]) == 2,
           "constant provenance + value", detail=None if a["tables"] == b["tables"] else {"decompose": sorted(x[0] for x in a["tables"]), "construct": sorted(x[0] for x in b["tables"])})
    chk.ob(rule, "compute_gregorian~maybe_from_gregorian", "leap-predicate-used-in-both", a["leap_calls"] >= 1 and b["leap_calls"] >= 1, "call sites in the local cone (both directions use is_leap_year, not a private copy)",
           detail={"decompose": a["leap_calls"], "construct": b["leap_calls"]})
    # the offset is added in compute_gregorian and subtracted in maybe_from_gregorian: run both with the offset uninterpreted
    eng, D = ctx(F)
    A = EpochAlg(F, eng, D)
    geo = F.find1(self_ty="TimeScale", name="gregorian_epoch_offset", trait="")
    dec = F.find1(self_ty="Duration", name="decompose", trait="")
    sig = F.find1(self_ty="Duration", name="signum", trait="")
    A.install(duration_algebra=True, opaque_conv=False)
    eng.hooks_by_id[geo["id"]] = rec_hook(D, "greg_offset")

    def h_stop(e, st, c, a_, dest_tid, t):
        st.trace.append(("rec", "signum", list(a_), None))
        st.end = "stopped"
        return [(st, Int(Lin.const(0), dest_tid))]
    eng.hooks_by_id[sig["id"]] = h_stop
    finals, args = D.run(cg, interior=True)
    A.uninstall()
    okadd = False
    for st in finals:
        g = recs(st, "greg_offset")
        sg = recs(st, "signum")
        if len(g) == 1 and len(sg) == 1 and same_scale(eng, st, g[0][0][0], args[1]):
            d = eng.deref(st, sg[0][0][0])
            T = D.total(d)
            st2 = st.clone()
            D.close(st2, [T])
            okadd = T is not None and D.implies_eq(st2, T, D.total(args[0]) + D.total(g[0][1]))
    chk.ob(rule, "Epoch::compute_gregorian", "duration+scale.gregorian_epoch_offset()-is-decomposed", okadd, "Duration-level linear form (C08.R3 subtracts the same offset)")


def r3_field_ranges(chk, F):
    rule = "C09.R3"
    cg = F.find1(self_ty="Epoch", name="compute_gregorian", trait="")
    dec = F.find1(self_ty="Duration", name="decompose", trait="")
    defs = cfg.unique_defs(cg)
    # the returned tuple
    aggs = [s for bi, si, s in cfg.stmts(cg) if s["k"] == "a" and s["p"]["l"] == 0 and not s["p"]["pj"] and s["r"]["op"] == "agg" and s["r"]["ak"] == "tuple"]
    ok = len(aggs) == 1 and len(aggs[0]["r"]["xs"]) == 7
    if not ok:
        # the tuple is not assembled in compute_gregorian's own body (helpers): judged on the interpreted return paths of R6
        for i, (nm, lim) in {3: ("hours", 24), 4: ("minutes", 60), 5: ("seconds", 60), 6: ("nanoseconds", 10 ** 9)}.items():
            ok2, b, how = _interp_range(i, lim)
            chk.ob(rule, "Epoch::compute_gregorian", "%s<%d-and-cast-lossless" % (nm, lim), ok2, how, detail={"bound": b})
        return
    chk.ob(rule, "Epoch::compute_gregorian", "returns-one-7-tuple", ok, "MIR aggregate")
    xs = aggs[0]["r"]["xs"]
    limits = {3: ("hours", 24), 4: ("minutes", 60), 5: ("seconds", 60), 6: ("nanoseconds", 10 ** 9)}
    for i, (nm, lim) in limits.items():
        r = cfg.resolve(cg, xs[i], defs)
        b = None
        if r[0] == "rv" and r[1]["op"] == "cast" and r[1]["ck"] == "IntToInt":
            b = _bound_multi(F, cg, r[1]["x"], defs, dec)
            tt = F.types[r[1]["ty"]]
            fits = b is not None and b < 2 ** tt["bits"]
        else:
            fits = False
        ok = b is not None and b < lim and fits
        how = "interval evaluation from decompose's ranges (C11.R1)"
        if not ok:
            ok, b, how = _interp_range(i, lim)
        chk.ob(rule, "Epoch::compute_gregorian", "%s<%d-and-cast-lossless" % (nm, lim), ok, how, detail={"bound": b})


def _interp_range(i, lim):
    """range of returned field i over every interpreted return path of compute_gregorian (collected by R6, which runs first): the
    decomposition's outputs carry C11.R1's ranges, casts that may lose the value are events"""
    rr = _cache.get("r6_ranges", {}).get(i)
    if rr is None or rr[0] is None or _cache.get("r6_lossy"):
        return False, None, "interpreted return paths (R6): field not bounded or a lossy cast on a path"
    return (0 <= rr[0] and rr[1] < lim), rr[1], "bounds over the interpreted return paths (R6), decompose's ranges from C11.R1"


def r6_time_of_day_flow(chk, F):
    """Flow of the time of day through compute_gregorian, decided on the interpreted paths (helpers inlined; decompose / compose /
    div_rem_f64 / is_leap_year uninterpreted and recorded, loops abstracted): the fields decompose() hands out keep their roles.
    Wherever the time is rebuilt with Duration::compose, it is compose(0, 0, h, min, s, ms, us, ns) of ONE decomposition, argument
    k from output k, and that decomposition is of the value whose decomposition gives the day count; the sub-second fields of the
    decomposition that is returned are recombined with weights ns + 10^3 us + 10^6 ms, hours/minutes/seconds are its outputs
    2, 3, 4."""
    from .c09_year import make as _make
    from ..havoc import Havoc
    from .c05 import fix_enum
    from ..epochalg import EpochAlg
    rule = "C09.R6"
    inst = "Epoch::compute_gregorian"
    eng, D = _make(F)
    cg = F.find1(self_ty="Epoch", name="compute_gregorian", trait="")
    dec = F.find1(self_ty="Duration", name="decompose", trait="")
    comp = F.find1(self_ty="Duration", name="compose", trait="")
    drf = F.free_fn("epoch::div_rem_f64")
    ily = F.free_fn("gregorian::is_leap_year")
    A = EpochAlg(F, eng, D)
    hv = Havoc(eng, [])
    A.install(duration_algebra=True, opaque_conv=True)
    hv.install()
    eng.int_floats = False

    def h_dec(e, st, c, a, dest_tid, t):
        d0 = e.deref(st, a[0]) if isinstance(a[0], Ref) else a[0]
        T0 = D.total(d0)
        if T0 is not None and T0.is_const():
            if any((fr_.fn.get("name") or "") == "gregorian_epoch_offset" for fr_ in st.frames):
                return NotImplemented  # decompose of a constant inside gregorian_epoch_offset: evaluated for real, not part of the flow
            # a decomposition of a constant on this path (24 h - time when time == 0): evaluated for real, and recorded
            returned, ended = e.subcall(st, dec, list(a))
            out = [(s2, None) for s2 in ended]
            for s2, v in returned:
                s2.trace.append(("rec", "decompose", [d0], v))
                out.append((s2, v))
            return out
        n = len(recs(st, "decompose"))
        v = e.fresh(dest_tid, ("decompose", n, tuple(e.term(x) for x in a)))
        # the ranges decompose guarantees for its outputs (C11.R1): they make the `as u8` / `as u32` casts of the fields lossless
        cons = []
        for i_, lim in enumerate([None, MAX_DAYS, 23, 59, 59, 999, 999, 999]):
            if lim is not None and isinstance(v.fs[i_], Int):
                cons += [(v.fs[i_].lin - lim, "<="), (-v.fs[i_].lin, "<=")]
        e.add_cons(st, cons)
        st.trace.append(("rec", "decompose", [d0], v))
        return [(st, v)]
    eng.hooks_by_id[dec["id"]] = h_dec
    eng.hooks_by_id[comp["id"]] = rec_hook(D, "compose")
    eng.hooks_by_id[drf["id"]] = rec_hook(D, "div_rem")
    eng.hooks_by_id[ily["id"]] = rec_hook(D, "leap")
    # the leap-day loops over the years in between cannot touch the time of day (C09.R7's loop summaries establish that their bodies
    # write one day accumulator and nothing else): they are skipped here; the table search is left uninterpreted
    from .c09_year import RANGE_NEXT, BSEARCH
    eng.hooks[RANGE_NEXT] = lambda e, st, c, a, dest_tid, t: [(st, e.mk_option(dest_tid, None))]
    saved_bs = eng.models.get(BSEARCH)
    eng.models[BSEARCH] = rec_hook(D, "bsearch")
    eng.max_paths = 20000

    def setup(st, args):
        fix_enum(eng, st, args[1], "TAI")
        return [st]
    eng.max_block_visits = 3
    i2f_seen = _cache.setdefault("r6_i2f", [])

    def _obs(st_, x_):
        lo_, hi_ = eng.fm_bounds(st_, x_.lin)
        i2f_seen.append((st_.frames[-1].fn["key"] if st_.frames else "?", lo_, hi_))
    eng.i2f_observer = _obs
    try:
        finals, args = D.run(cg, extra=setup, interior=True)
    finally:
        eng.i2f_observer = None
        eng.max_block_visits = None
        hv.uninstall()
        A.uninstall()
        eng.hooks_by_id = {}
        eng.hooks.pop(RANGE_NEXT, None)
        if saved_bs is not None:
            eng.models[BSEARCH] = saved_bs
        else:
            eng.models.pop(BSEARCH, None)
    nret = ncomp = 0
    agg = {}
    import os as _os
    if _os.environ.get("HV_DEBUG_R6"):
        import collections as _c
        print(_c.Counter((st.end, len(recs(st, "compose")), len(recs(st, "decompose"))) for st in finals))
        print(_c.Counter((len(recs(st, "compose")), len(recs(st, "decompose")), repr(st.ret.fs[3])[:30]) for st in finals if st.end == "return"))
        for st in finals:
            if st.end not in ("return",) and len(recs(st, "compose")) == 0:
                print(st.end, [e["msg"][:100] for e in st.events][-2:], st.frames[-1].fn["path"], st.frames[-1].bb)
                break

    def note(construct, ok, detail=None):
        a = agg.setdefault(construct, [0, 0, None])
        a[0] += 1
        if ok:
            a[1] += 1
        elif a[2] is None:
            a[2] = detail

    def same_val(x, y):
        return x is y or (isinstance(x, Int) and isinstance(y, Int) and x.lin.key() == y.lin.key())

    def same_dur(x, y):
        tx, ty = D.total(x), D.total(y)
        return x is y or (tx is not None and ty is not None and tx.key() == ty.key())
    for st in finals:
        if st.end != "return" or not (isinstance(st.ret, Struct) and len(st.ret.fs) == 7):
            continue
        decs = recs(st, "decompose")
        comps = recs(st, "compose")
        if not decs:
            continue
        nret += 1
        for a, res in comps:
            ncomp += 1
            ok0 = len(a) == 8 and all(isinstance(x, Int) and x.lin.is_const() and x.lin.k == 0 for x in a[:2])
            srcs = [i for i, (da, dv) in enumerate(decs) if isinstance(dv, Struct) and all(same_val(a[k], dv.fs[k]) for k in range(2, 8))]
            ok = ok0 and len(srcs) >= 1
            note("compose(0,0,d.2,d.3,d.4,d.5,d.6,d.7)-of-one-decomposition", ok,
                 None if ok else {"compose_args": [repr(x)[:60] for x in a], "decompositions": [repr(dv)[:160] for da, dv in decs]})
            if ok:
                ok2 = same_dur(decs[srcs[0]][0][0], decs[0][0][0])
                note("recomposed-decomposition-is-of-the-value-that-gives-the-day-count", ok2,
                     None if ok2 else {"recomposed": repr(decs[srcs[0]][0][0])[:160], "first": repr(decs[0][0][0])[:160]})
        # the decomposition whose hours/minutes/seconds are returned
        r = st.ret
        # interpreted ranges of the returned time-of-day fields (R3's semantic fallback)
        rr = _cache.setdefault("r6_ranges", {})
        for i_ in (3, 4, 5, 6):
            if isinstance(r.fs[i_], Int):
                lo_, hi_ = eng.fm_bounds(st, r.fs[i_].lin)
            else:
                lo_, hi_ = None, None
            cur = rr.get(i_)
            if lo_ is None or (cur is not None and cur[0] is None):
                rr[i_] = (None, None)
            else:
                rr[i_] = (lo_, hi_) if cur is None else (min(cur[0], lo_), max(cur[1], hi_))
        if any(e_["kind"] == "lossy_cast" for e_ in st.events):
            _cache["r6_lossy"] = True
        cand = [dv for da, dv in decs if isinstance(dv, Struct) and all(isinstance(r.fs[i], Int) and _cast_of(r.fs[i], dv.fs[w]) for i, w in ((3, 2), (4, 3), (5, 4)))]
        note("hours,minutes,seconds=outputs-2,3,4-of-one-decomposition", bool(cand),
             None if cand else {"ret": [repr(x)[:80] for x in r.fs[3:6]], "decompositions": [(repr(da[0])[:100], repr(dv)[:200]) for da, dv in decs]})
        if cand:
            dv = cand[-1]
            want = dv.fs[7].lin + dv.fs[6].lin.scale(1000) + dv.fs[5].lin.scale(10 ** 6)
            got = r.fs[6].lin if isinstance(r.fs[6], Int) else None
            okn = got is not None and (got.key() == want.key() or _wrapped_cast_of(eng, st, r.fs[6], want))
            note("nanoseconds=ns+10^3*us+10^6*ms-of-that-decomposition", okn, None if okn else {"got": repr(got)[:200], "want": repr(want)[:200]})
    for construct, (tot, okc, det) in sorted(agg.items()):
        chk.ob(rule, inst, construct, tot == okc, "operand flow on the interpreted paths (%d path instances)" % tot, detail=det)
    chk.floor(rule, "return paths of compute_gregorian with a decomposition", nret, 2)
    chk.floor(rule, "recompositions of the time of day examined", ncomp, 1)


def _cast_of(v, src):
    """v is src or an integer cast of it that kept the value (same linear form)"""
    return isinstance(v, Int) and isinstance(src, Int) and v.lin.key() == src.lin.key()


def _wrapped_cast_of(eng, st, v, want):
    """the u64 -> u32 cast of the sum: the engine keeps the linear form when it fits the target type under the path condition"""
    from ..lin import implies
    return isinstance(v, Int) and implies(st.cons, v.lin - want, "==", st.bnd)


def _all_defs(fn):
    out = {}
    for bi, si, s in cfg.stmts(fn):
        if s["k"] == "a" and not s["p"]["pj"]:
            out.setdefault(s["p"]["l"], []).append(s["r"])
    for bi, t in cfg.calls(fn):
        if not t["dest"]["pj"]:
            out.setdefault(t["dest"]["l"], []).append({"op": "call", "t": t})
    return out


DEC_BOUNDS = [1, MAX_DAYS, 23, 59, 59, 999, 999, 999]


def _bound_multi(F, fn, o, defs, dec, depth=0, alld=None):
    """Upper bound of a non-negative integer operand by interval evaluation over *all* definitions of the locals
    involved (max over branches); leaves are constants and decompose's outputs (ranges proved by C11.R1)."""
    if alld is None:
        alld = _all_defs(fn)
    if depth > 14:
        return None
    k = cfg.operand_const(o)
    if k is not None:
        return abs(k["v"]) if isinstance(k.get("v"), int) else None
    p = cfg.operand_place(o)
    if p is None:
        return None
    fld = None
    if len(p["pj"]) == 1 and isinstance(p["pj"][0], dict) and "f" in p["pj"][0]:
        fld = p["pj"][0]["f"]
    elif p["pj"]:
        return None
    ds = alld.get(p["l"])
    if not ds:
        return None
    res = []
    for r in ds:
        b = None
        if fld is None:
            if r["op"] == "use":
                b = _bound_multi(F, fn, r["x"], defs, dec, depth + 1, alld)
            elif r["op"] == "cast" and r["ck"] == "IntToInt":
                b = _bound_multi(F, fn, r["x"], defs, dec, depth + 1, alld)
            elif r["op"] == "bin" and not r["b"].endswith("WithOverflow"):
                b = _comb(r["b"], _bound_multi(F, fn, r["l"], defs, dec, depth + 1, alld), _bound_multi(F, fn, r["r"], defs, dec, depth + 1, alld))
        else:
            if r["op"] == "agg" and r["ak"] == "tuple" and fld < len(r["xs"]):
                b = _bound_multi(F, fn, r["xs"][fld], defs, dec, depth + 1, alld)
            elif r["op"] == "call" and r["t"]["f"].get("fn_id") == dec["id"]:
                b = DEC_BOUNDS[fld]
            elif r["op"] == "bin" and r["b"].endswith("WithOverflow") and fld == 0:
                b = _comb(r["b"], _bound_multi(F, fn, r["l"], defs, dec, depth + 1, alld), _bound_multi(F, fn, r["r"], defs, dec, depth + 1, alld))
            elif r["op"] == "use":
                pp = cfg.operand_place(r["x"])
                if pp is not None and not pp["pj"]:
                    b = _bound_multi(F, fn, {"cp": {"l": pp["l"], "pj": [{"f": fld, "ty": p["pj"][0].get("ty")}]}}, defs, dec, depth + 1, alld)
        if b is None:
            return None
        res.append(b)
    return max(res)


def _comb(op, a, b):
    if a is None or b is None:
        return None
    if op.startswith("Add"):
        return a + b
    if op.startswith("Mul"):
        return a * b
    return None


TEMPLATE = [("arg", 4), ("lit", "-"), ("arg", 2), ("lit", "-"), ("arg", 2), ("lit", "T"), ("arg", 2), ("lit", ":"), ("arg", 2), ("lit", ":"), ("arg", 2)]


def check_pieces(fa, tup, scale_val, eng, st, tail_lit):
    """-> (ok, has_fraction)"""
    pcs = fa.pieces
    if len(pcs) < len(TEMPLATE):
        return False, None
    for i, (k, v) in enumerate(TEMPLATE):
        p = pcs[i]
        if k == "lit":
            if p != ("lit", v):
                return False, None
        else:
            if p[0] != "arg" or p[1]["width"] != v or not p[1]["zero_pad"]:
                return False, None
    rest = pcs[len(TEMPLATE):]
    frac = False
    if rest and rest[0] == ("lit", "."):
        if len(rest) < 2 or rest[1][0] != "arg" or rest[1][1]["width"] != 9 or not rest[1][1]["zero_pad"]:
            return False, None
        frac = True
        rest = rest[2:]
    if tail_lit is not None:
        if rest != [("lit", tail_lit)]:
            return False, None
        nargs = 6 + (1 if frac else 0)
    else:
        if len(rest) != 2 or rest[0] != ("lit", " ") or rest[1][0] != "arg" or rest[1][1]["width"] is not None:
            return False, None
        nargs = 7 + (1 if frac else 0)
    # arguments: placeholders in order refer to args 0..; each arg k is field k of the tuple
    idx = [p[1]["index"] for p in pcs if p[0] == "arg"]
    if idx != list(range(nargs)) or len(fa.args) != nargs:
        return False, None
    for k in range(6 + (1 if frac else 0)):
        a = fa.args[k]
        if a.kind != "display" or a.val is not tup.fs[k]:
            return False, None
    if tail_lit is None:
        a = fa.args[-1]
        if a.kind != "display" or not same_scale(eng, st, a.val, scale_val):
            return False, None
    return True, frac


def r4_writers(chk, F):
    rule = "C09.R4"
    eng, D = ctx(F)
    A = EpochAlg(F, eng, D)
    cg = F.find1(self_ty="Epoch", name="compute_gregorian", trait="")
    writers = [("Display", None), ("Debug", "UTC"), ("LowerHex", "TAI"), ("UpperHex", "TT"), ("LowerExp", "TDB"), ("UpperExp", "ET")]
    n = 0
    jobs = []
    for tr, scale in writers:
        jobs.append(("<Epoch as %s>::fmt" % tr, F.find1(self_ty="Epoch", name="fmt", trait_ref=tr), scale, None, "fmt"))
    jobs.append(("Epoch::to_gregorian_str", F.find1(self_ty="Epoch", name="to_gregorian_str", trait=""), "arg", None, "string"))
    jobs.append(("Epoch::to_rfc3339", F.find1(self_ty="Epoch", name="to_rfc3339", trait=""), "UTC", "+00:00", "string"))
    for inst, fn, scale, tail, how in jobs:
        A.install(duration_algebra=False, opaque_conv=True)
        eng.hooks_by_id[cg["id"]] = rec_hook(D, "compute_gregorian")
        finals, args = D.run(fn, interior=True)
        A.uninstall()
        n += 1
        forms = set()
        for st in finals:
            if st.end != "return":
                continue
            ep = eng.deref(st, args[0])
            cgs = recs(st, "compute_gregorian")
            if len(cgs) != 1:
                chk.ob(rule, inst, "one-compute_gregorian-call", False, detail=len(cgs))
                continue
            (cargs, tup) = cgs[0]
            # which duration / scale is decomposed
            if scale is None:
                okd = cargs[0] is ep.fs[0] and same_scale(eng, st, cargs[1], ep.fs[1])
                what = "compute_gregorian(self.duration,self.time_scale)"
                sv = ep.fs[1]
            else:
                convs = [t for t in st.trace if isinstance(t, tuple) and t and t[0] == "conv-call"]
                tgt = args[1] if scale == "arg" else None
                okd = len(convs) == 1 and convs[0][1] is ep and cargs[0] is convs[0][3] and same_scale(eng, st, cargs[1], convs[0][2]) and \
                    (same_scale(eng, st, convs[0][2], tgt) if tgt is not None else scale_name(eng, st, convs[0][2]) == scale)
                what = "compute_gregorian(to_duration_in_time_scale(%s),%s)" % (scale, scale)
                sv = convs[0][2] if convs else None
            chk.ob(rule, inst, what, okd, "E5 operand flow")
            if how == "fmt":
                outs = outputs(st)
                fa = outs[0][2] if len(outs) == 1 else None
            else:
                r = st.ret
                fa = r.term[1] if isinstance(r, Opq) and isinstance(r.term, tuple) and r.term[0] == "string" else None
            if not isinstance(fa, FmtArgs) or sv is None:
                chk.ob(rule, inst, "single-format-call", False, detail=repr(st.ret)[:200])
                continue
            ok, frac = check_pieces(fa, tup, sv, eng, st, tail)
            chk.ob(rule, inst, "template{:04}-{:02}-{:02}T{:02}:{:02}:{:02}[.{:09}]%s" % (tail or " {}"), ok, "E7 template + argument flow",
                   detail=None if ok else {"pieces": repr(fa.pieces)[:400]}, sample=(n == 1))
            if ok:
                nanos = tup.fs[6].lin
                if frac:
                    okn = not D.feasible(st, [(nanos, "==")])
                    chk.ob(rule, inst, "fraction-printed=>ns!=0", okn, "dominating guard")
                else:
                    okn = D.implies(st, nanos, "==")
                    chk.ob(rule, inst, "fraction-omitted=>ns==0", okn, "dominating guard")
                forms.add(frac)
        chk.ob(rule, inst, "both-forms-explored", forms == {True, False}, "coverage", detail=sorted(forms))
    chk.floor(rule, "Gregorian writers", n, 8)


def r5_accessors(chk, F, rule="C09.R5", which=(("year", 0), ("month_name", 1))):
    eng, D = ctx(F)
    cg = F.find1(self_ty="Epoch", name="compute_gregorian", trait="")
    for name, field in which:
        fn = F.find1(self_ty="Epoch", name=name, trait="")
        A = EpochAlg(F, eng, D)
        A.install(duration_algebra=False, opaque_conv=True)
        eng.hooks_by_id[cg["id"]] = rec_hook(D, "compute_gregorian")
        finals, args = D.run(fn, interior=True)
        A.uninstall()
        nret = sum(1 for st in finals if st.end == "return")
        chk.ob(rule, "Epoch::%s" % name, "explored", nret >= 1, "paths", detail={"returns": nret, "paths": len(finals)})
        for st in finals:
            if st.end != "return":
                continue
            ep = eng.deref(st, args[0])
            cgs = recs(st, "compute_gregorian")
            ok = len(cgs) == 1 and cgs[0][0][0] is ep.fs[0] and same_scale(eng, st, cgs[0][0][1], ep.fs[1])
            chk.ob(rule, "Epoch::%s" % name, "from-compute_gregorian(self.duration,self.time_scale)", ok, "E5 operand flow")
            if not ok:
                continue
            tup = cgs[0][1]
            if name == "year":
                okv = st.ret is tup.fs[0]
                chk.ob(rule, "Epoch::year", "field-0", okv, "E5")
            else:
                # month k -> k-th month name (From<u8> for MonthName)
                m = tup.fs[1]
                k = eng.const_of(st, m)
                v = st.ret
                nm = eng.types[v.tid]["variants"][v.vi]["name"] if isinstance(v, Enum) else None
                if k is not None and 1 <= k <= 12:
                    chk.ob(rule, "Epoch::month_name", "month-%d->%s" % (k, MONTHS[k - 1]), nm == MONTHS[k - 1], "finite map", detail=nm)
    # day_of_year / duration_in_year: elapsed time in the epoch's own scale since from_gregorian(self.year(), 1, 1, .., own scale), i.e. the
    # day-of-year accessors agree with the fields (the obligations are C20.R3's, decided here under this property's clause as well)
    from .c20 import day_of_year
    day_of_year(chk, F, rule="C09.R5")


def run(chk, F, tier):
    for k_ in ("r6_ranges", "r6_lossy", "r6_i2f"):
        _cache.pop(k_, None)
    r6_time_of_day_flow(chk, F)  # first: R1 and R3 fall back on what its interpreted paths observed
    r1_exactness(chk, F)
    r2_siblings(chk, F)
    r3_field_ranges(chk, F)
    r4_writers(chk, F)
    r5_accessors(chk, F)
    from . import c09_year
    c09_year.run_rule(chk, F, tier)
    eng, D = ctx(F)
    chk.extra["engine_stats"] = dict(eng.stats)
    chk.assumptions.append("decompose's output ranges are C11.R1's; conv(e,S) uninterpreted")
    chk.assumptions.append("exact inversion of the day count by the year/month search is an inductive numeric fact: NOT decided")
