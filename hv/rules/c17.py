"""C17 - Julian Date, Modified Julian Date and UNIX views are exact affine re-expressions."""
from ..sym import Engine, Int, Bool, Struct, Enum, SymEnum, Ref, Opq, Flt, St, c_lin
from ..lin import Lin
from ..dur import DurCtx, describe_path
from ..epochalg import EpochAlg, same_scale, scale_name
from .. import oracle
from .c02 import ctx, no_bad_events
from .c20 import rec_hook, recs, _same_ref

LEVEL = "other"
EXPLANATION = (
    "Abstract interpretation of the JD/MJD/UNIX accessors with Epoch::to_time_scale uninterpreted (conv) and "
    "Duration +/- exact: every Duration-valued view must be conv(self, S).duration + K with S the view's scale and "
    "K a constant folded by the analysis from the code's own constants (Unit::Day * MJD_J1900 etc. are folded "
    "with IEEE double semantics and the float->int cast, so an inexact product would show) and compared with the "
    "constants of the statement (15 020 d, 2 400 000.5 d, 3 155 716 800 s, 1970-01-01 via the calendar oracle). Every "
    "float-valued accessor must be to_unit(u)/to_seconds() of such an exact duration with the right unit, and the "
    "from_mjd/from_jde/from_unix constructors must use the mirrored constants (sibling agreement). R6: the 'few ulps' "
    "accuracy of the float-valued accessors = the rounding-error bound of Duration::to_seconds / to_unit (C18.R6's static "
    "error analysis, re-run here: |result - exact| <= 8u*max(|exact|, 1 s)) applied to those exact durations. The float "
    "round trip (value -> epoch -> value) is not decided.")

DAY = oracle.DAY_NS
K_MJD = oracle.MJD_1900 * DAY
K_JD = K_MJD + oracle.JD_MINUS_MJD_HALF_DAYS * (DAY // 2)
K_J2000 = oracle.J2000_S_AFTER_1900 * oracle.NS
K_UNIX = oracle.UNIX_ZERO_DAYS * DAY

# accessor -> (scale(s) allowed, K, float view: None | "seconds" | unit name | "unit-arg")
DUR_VIEWS = {
    "to_jde_tai_duration": (("TAI",), K_JD),
    "to_jde_utc_duration": (("UTC",), K_JD),
    "to_jde_tt_duration": (("TT",), K_JD),
    "to_jde_et_duration": (("ET",), K_JD + K_J2000),
    "to_jde_tdb_duration": (("TDB",), K_JD + K_J2000),
    "to_mjd_tt_duration": (("TT",), K_MJD),
    "to_tt_since_j2k": (("TT",), -K_J2000),
    "to_unix_duration": (("UTC",), -K_UNIX),
}
FLOAT_VIEWS = {
    "to_tai_seconds": (("TAI",), 0, "seconds"), "to_tai": (("TAI",), 0, "arg"), "to_tai_days": (("TAI",), 0, "Day"),
    "to_utc_seconds": (("UTC",), 0, "Second"), "to_utc": (("UTC",), 0, "arg"), "to_utc_days": (("UTC",), 0, "Day"),
    "to_mjd_tai_days": (("TAI",), K_MJD, "Day"), "to_mjd_tai_seconds": (("TAI",), K_MJD, "Second"), "to_mjd_tai": (("TAI",), K_MJD, "arg"),
    "to_mjd_utc_days": (("UTC",), K_MJD, "Day"), "to_mjd_utc_seconds": (("UTC",), K_MJD, "Second"), "to_mjd_utc": (("UTC",), K_MJD, "arg"),
    "to_jde_tai_days": (("TAI",), K_JD, "Day"), "to_jde_tai": (("TAI",), K_JD, "arg"), "to_jde_tai_seconds": (("TAI",), K_JD, "Second"),
    "to_jde_utc_days": (("UTC",), K_JD, "Day"), "to_jde_utc_seconds": (("UTC",), K_JD, "seconds"),
    "to_tt_seconds": (("TT",), 0, "seconds"), "to_tt_days": (("TT",), 0, "Day"), "to_tt_centuries_j2k": (("TT",), -K_J2000, "Century"),
    "to_jde_tt_days": (("TT",), K_JD, "Day"), "to_mjd_tt_days": (("TT",), K_MJD, "Day"),
    "to_gpst_seconds": (("GPST",), 0, "seconds"), "to_gpst_days": (("GPST",), 0, "Day"),
    "to_qzsst_seconds": (("QZSST",), 0, "seconds"), "to_qzsst_days": (("QZSST", "GPST"), 0, "Day"),
    "to_gst_seconds": (("GST",), 0, "seconds"), "to_gst_days": (("GST",), 0, "Day"),
    "to_bdt_seconds": (("BDT",), 0, "seconds"), "to_bdt_days": (("BDT",), 0, "Day"),
    "to_unix": (("UTC",), -K_UNIX, "arg"), "to_unix_seconds": (("UTC",), -K_UNIX, "Second"),
    "to_unix_milliseconds": (("UTC",), -K_UNIX, "Millisecond"), "to_unix_days": (("UTC",), -K_UNIX, "Day"),
    "to_et_seconds": (("ET",), 0, "seconds"), "to_tdb_seconds": (("TDB",), 0, "seconds"),
    "to_jde_et_days": (("ET",), K_JD + K_J2000, "Day"), "to_jde_et": (("ET",), K_JD + K_J2000, "arg"),
    "to_jde_tdb_days": (("TDB",), K_JD + K_J2000, "Day"),
    "to_tdb_days_since_j2000": (("TDB",), 0, "Day"), "to_tdb_centuries_since_j2000": (("TDB",), 0, "Century"),
    "to_et_days_since_j2000": (("ET",), 0, "Day"), "to_et_centuries_since_j2000": (("ET",), 0, "Century"),
}


def view_of(eng, D, A, st, ep, T, scales, K):
    """T == T(conv(self, S).duration) + K for one of the allowed S (or self.duration when already in S)."""
    src = ep.fs[1]
    srcv = st.enum_ref.get(src.name, src) if isinstance(src, SymEnum) else src
    st2 = st.clone()
    D.close(st2, [T])
    for S in scales:
        if scale_name(eng, st, srcv) == S:
            base = D.total(ep.fs[0])
        else:
            tgt = Enum(src.tid, eng.variant_index(src.tid, S), ())
            base = D.total(A.conv_duration(ep.fs[0], srcv, tgt))
        if D.implies_eq(st2, T, base + K):
            return True, S
        # BDT view is written as conv(self,TAI) - A(BDT)
        if S == "BDT" and scale_name(eng, st, srcv) != "BDT":
            tai = Enum(src.tid, eng.variant_index(src.tid, "TAI"), ())
            b2 = D.total(ep.fs[0]) if scale_name(eng, st, srcv) == "TAI" else D.total(A.conv_duration(ep.fs[0], srcv, tai))
            if D.implies_eq(st2, T, b2 - oracle.tai_offset_ns("BDT") + K):
                return True, S
    return False, None


def r5_reference_constants(chk, F):
    """The public reference-epoch constants denote the instants the statement fixes: J2000 is 3 155 716 800 s after 1900-01-01
    00:00 (2000-01-01 12:00), the UNIX origin is 1970-01-01 00:00."""
    rule = "C17.R5"
    NPC = F.const("duration::NANOSECONDS_PER_CENTURY")["v"]
    for name, want_ns, what in (("timescale::J2000_REF_EPOCH", K_J2000, "2000-01-01T12:00:00=1900-01-01T00:00:00+3155716800s"),
                                ("timescale::UNIX_REF_EPOCH", K_UNIX, "1970-01-01T00:00:00")):
        try:
            v = F.const(name)["v"]
        except Exception:
            chk.anchor_missing(name)
            continue
        f = dict(v["fields"])
        d = dict(f["duration"]["fields"])
        tot = d["centuries"] * NPC + d["nanoseconds"]
        ok = tot == want_ns and f["time_scale"]["variant"] in ("TAI", "UTC", "TT")
        chk.ob(rule, name.split("::")[-1], "==" + what, ok, "decoded constant vs statement",
               detail=None if ok else {"constant_ns_after_1900": tot, "statement_ns": want_ns, "difference_days": (tot - want_ns) / 86400e9})


def run(chk, F, tier):
    r5_reference_constants(chk, F)
    from . import c18_out
    c18_out.run_rule(chk, F, R=("C17.R6", None, None))
    eng, D = ctx(F)
    A = EpochAlg(F, eng, D)
    eng.max_steps = 40000
    rule = "C17.R1"
    n = 0
    for name, (scales, K) in DUR_VIEWS.items():
        fn = F.find1(self_ty="Epoch", name=name, trait="")
        A.install(duration_algebra=True, opaque_conv=True)
        finals, args = D.run(fn, interior=True)
        A.uninstall()
        n += 1
        cnt = 0
        for st in finals:
            if st.end != "return":
                continue
            cnt += 1
            ep = eng.deref(st, args[0])
            T = D.total(st.ret)
            ok, S = (False, None) if T is None else view_of(eng, D, A, st, ep, T, scales, K)
            got = None
            if not ok and T is not None:
                got = repr(T)[:300]
            chk.ob(rule, "Epoch::%s" % name, "==to_%s_duration()+%d ns" % (scales[0].lower(), K), ok,
                   "Duration-level linear form; constant vs statement", detail=None if ok else {"result": got, "path": describe_path(eng, st)},
                   sample=(n <= 2))
        no_bad_events(chk, rule, "Epoch::%s" % name, finals, eng)
        chk.ob(rule, "Epoch::%s" % name, "returns", cnt >= 1, "paths", detail=cnt)
    chk.floor(rule, "duration-valued views", n, 8)

    rule = "C17.R2"
    tu = F.find1(self_ty="Duration", name="to_unit", trait="")
    ts_ = F.find1(self_ty="Duration", name="to_seconds", trait="")
    m = 0
    for name, (scales, K, view) in FLOAT_VIEWS.items():
        fn = F.find1(self_ty="Epoch", name=name, trait="")
        A.install(duration_algebra=True, opaque_conv=True)
        eng.hooks_by_id[tu["id"]] = rec_hook(D, "to_unit", skip_const=True)
        eng.hooks_by_id[ts_["id"]] = rec_hook(D, "to_seconds", skip_const=True)
        finals, args = D.run(fn, interior=True)
        A.uninstall()
        m += 1
        for st in finals:
            if st.end != "return":
                continue
            ep = eng.deref(st, args[0])
            ru, rs = recs(st, "to_unit"), recs(st, "to_seconds")
            r = st.ret
            if view == "seconds":
                ok = len(rs) == 1 and not ru and isinstance(r, Flt) and r.t == rs[0][1].t
                d = eng.deref(st, rs[0][0][0]) if ok else None
            else:
                ok = len(ru) == 1 and not rs and isinstance(r, Flt) and r.t == ru[0][1].t
                d = eng.deref(st, ru[0][0][0]) if ok else None
                if ok:
                    u = ru[0][0][1]
                    if view == "arg":
                        ok = u is args[1]
                    else:
                        ok = scale_name(eng, st, u) == view
            chk.ob(rule, "Epoch::%s" % name, "float-view=%s-of-one-duration" % view, ok, "E5: result is to_unit/to_seconds of a Duration",
                   detail=None if ok else repr(r))
            if not ok or d is None:
                continue
            T = D.total(d)
            ok2, S = (False, None) if T is None else view_of(eng, D, A, st, ep, T, scales, K)
            chk.ob(rule, "Epoch::%s" % name, "duration==to_%s_duration()+%d ns" % (scales[0].lower(), K), ok2,
                   "Duration-level linear form; constant vs statement", detail=None if ok2 else {"result": repr(T)[:300]})
        no_bad_events(chk, rule, "Epoch::%s" % name, finals, eng)
    chk.floor(rule, "float-valued views", m, 40)

    # constructors mirror the constants
    rule = "C17.R3"
    um = F.find1(self_ty="Unit", name="mul", trait_ref="Mul<f64>")
    # per scale: duration = (days - K) * Unit::Day - (reading of the scale's clock at its reference epoch, since 1900); the same
    # evaluation as C10.R6 (an MJD/JD count is relative to 1900, an epoch's duration to its scale's own reference epoch)
    from .c10 import Reader, r6_constructors
    r6_constructors(chk, F, Reader(F), rule=rule)
    wrappers = [("from_mjd_tai", "from_mjd_in_time_scale", "TAI"), ("from_mjd_utc", "from_mjd_in_time_scale", "UTC"),
                ("from_mjd_gpst", "from_mjd_in_time_scale", "GPST"), ("from_mjd_qzsst", "from_mjd_in_time_scale", "QZSST"),
                ("from_mjd_gst", "from_mjd_in_time_scale", "GST"), ("from_mjd_bdt", "from_mjd_in_time_scale", "BDT"),
                ("from_jde_tai", "from_jde_in_time_scale", "TAI"), ("from_jde_utc", "from_jde_in_time_scale", "UTC"),
                ("from_jde_gpst", "from_jde_in_time_scale", "GPST"), ("from_jde_qzsst", "from_jde_in_time_scale", "QZSST"),
                ("from_jde_gst", "from_jde_in_time_scale", "GST"), ("from_jde_bdt", "from_jde_in_time_scale", "BDT")]
    w = 0
    for name, inner, scale in wrappers:
        fn = F.find1(self_ty="Epoch", name=name, trait="")
        inn = F.find1(self_ty="Epoch", name=inner, trait="")
        eng.hooks_by_id = {inn["id"]: rec_hook(D, "inner")}
        finals, args = D.run(fn)
        eng.hooks_by_id = {}
        w += 1
        for st in finals:
            if st.end != "return":
                continue
            ri = recs(st, "inner")
            ok = len(ri) == 1 and ri[0][0][0] is args[0] and scale_name(eng, st, ri[0][0][1]) == scale and st.ret is ri[0][1]
            chk.ob(rule, "Epoch::%s" % name, "delegates(days,%s)" % scale, ok, "E5 delegation")
    chk.floor(rule, "from_mjd/from_jde wrappers", w, 12)
    # UNIX constructors: UNIX_REF_EPOCH.to_utc_duration() + x
    for name, unit in (("from_unix_duration", None), ("from_unix_seconds", "Second"), ("from_unix_milliseconds", "Millisecond")):
        fn = F.find1(self_ty="Epoch", name=name, trait="")
        A.install(duration_algebra=True, opaque_conv=True)
        eng.hooks_by_id[um["id"]] = rec_hook(D, "unit*f64", skip_const=True)
        finals, args = D.run(fn, interior=True)
        A.uninstall()
        for st in finals:
            if st.end != "return":
                continue
            r = st.ret
            if unit is None:
                x = D.total(args[0])
                oku = True
            else:
                rm = recs(st, "unit*f64")
                oku = len(rm) == 1 and scale_name(eng, st, rm[0][0][0]) == unit and rm[0][0][1] is args[0]
                x = D.total(rm[0][1]) if rm else None
            ok = oku and x is not None and isinstance(r, Struct) and scale_name(eng, st, r.fs[1]) == "UTC"
            if ok:
                st2 = st.clone()
                T = D.total(r.fs[0])
                D.close(st2, [T])
                ok = D.implies_eq(st2, T, x + K_UNIX)
            chk.ob(rule, "Epoch::%s" % name, "Epoch{1970-01-01+x, UTC}", ok, "Duration-level linear form; constant vs calendar oracle",
                   detail=None if ok else repr(r))
        no_bad_events(chk, rule, "Epoch::%s" % name, finals, eng)
    eng.max_steps = 4000
    chk.extra["engine_stats"] = dict(eng.stats)
    chk.assumptions.append("conv(e, S) = Epoch::to_time_scale is uninterpreted (its correctness is C05/C06/C07)")
    chk.assumptions.append("IEEE-754 binary64 round-to-nearest arithmetic (standard model) for the error bound R6; float round trips (value -> epoch -> value): not decided")
