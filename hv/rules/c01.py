"""C01 - Duration arithmetic is exact to the nanosecond and saturates at the bounds."""
from ..sym import Engine, Int, Bool, Struct, Enum, SymEnum, Ref, Opq, St, c_lin
from ..lin import Lin, INF
from ..dur import DurCtx, via, describe_path
from .. import cfg
from . import c02
from .c02 import ctx, exact_or_saturated, no_bad_events, short, _delegates

LEVEL = "other"
EXPLANATION = (
    "Trace-partitioned abstract interpretation of the monomorphised MIR of the Duration operators "
    "(Add, Sub, Neg, abs, Mul<i64>, i64*Duration, Div<i64>, the Unit and assign forms). Inputs are symbolic "
    "canonical durations over the whole (i16, u64) range and every i64 factor; helpers (normalize, from_parts, "
    "total_nanoseconds, from_total_nanoseconds, Unit x i64, Duration::eq) are analysed in place. On each "
    "partition, split by where the exact result lies: in range => result's linear form equals the exact "
    "signed count and is canonical; above/below => the constant MAX/MIN; plus no reachable panic, wrap or "
    "lossy cast. Products use an uninterpreted product atom identified up to provable equality of operands.")


def region_atoms_of(D, args, eng):
    def f(st):
        out = []
        for i, a in enumerate(args):
            v = a
            if isinstance(v, Ref):
                v = eng.deref(st, v)
            p = D.parts(v)
            if p is not None:
                out.append((["self", "rhs", "arg3"][i] + ".c", p[0]))
        return out

    return f


def binop(chk, F, rule, trait_ref, name, sign):
    eng, D = ctx(F)
    fn = F.find1(self_ty="Duration", name=name, trait_ref=trait_ref)
    finals, args = D.run(fn)
    spec = D.total(args[0]) + D.total(args[1]).scale(sign)
    inst = "<Duration as %s>::%s" % (trait_ref, name)
    bad = c02.all_bad_arms(F)
    n = exact_or_saturated(chk, rule, inst, D, eng, finals, lambda st: spec, bad_arms=bad,
                           region_atoms=region_atoms_of(D, args, eng))
    no_bad_events(chk, "C01.R4", inst, finals, eng)
    chk.floor(rule, "%s partitions" % inst, n, 8)
    return len(finals)


def unary(chk, F, rule, fn, inst, spec_of):
    eng, D = ctx(F)
    finals, args = D.run(fn)
    bad = c02.all_bad_arms(F)
    n = exact_or_saturated(chk, rule, inst, D, eng, finals, lambda st: spec_of(st, args), bad_arms=bad,
                           region_atoms=region_atoms_of(D, args, eng))
    no_bad_events(chk, "C01.R4", inst, finals, eng,
                  region=lambda st: D.region_label(st, region_atoms_of(D, args, eng)(st)))
    return n, finals, args


def muldiv(chk, F):
    rule = "C01.R3"
    eng, D = ctx(F)
    bad = c02.all_bad_arms(F)
    # Duration * i64
    fn = F.find1(self_ty="Duration", name="mul", trait_ref="Mul<i64>")
    finals, args = D.run(fn)
    T = D.total(args[0])
    q = args[1].lin

    def spec_mul(st):
        return eng.product(st, T, q)

    n = exact_or_saturated(chk, rule, "<Duration as Mul<i64>>::mul", D, eng, finals, spec_mul, bad_arms=bad,
                           region_atoms=lambda st: [("self.c", D.parts(args[0])[0])])
    no_bad_events(chk, "C01.R4", "<Duration as Mul<i64>>::mul", finals, eng)
    chk.floor(rule, "Mul<i64> partitions", n, 6)
    # i64 * Duration delegates
    fn2 = F.find1(self_ty="i64", name="mul", trait_ref="Mul<duration::Duration>")
    ok = _delegates(fn2, F.find1(self_ty="Duration", name="mul", trait_ref="Mul<i64>"), [2, 1])
    chk.ob(rule, "<i64 as Mul<Duration>>::mul", "delegates-to-Duration*i64(swapped)", ok, "E5 delegation")
    # Duration / i64 : truncating division of the exact count
    fn = F.find1(self_ty="Duration", name="div", trait_ref="Div<i64>")

    def nz(st, a):
        return eng.assume(st, c_lin("ne", a[1].lin))

    finals, args = D.run(fn, extra=nz)
    T = D.total(args[0])
    q = args[1].lin
    nd = 0
    for st in finals:
        if st.end != "return":
            continue
        v = st.ret
        vias = via(st, bad)
        rl = D.region_label(st, [("self.c", D.parts(args[0])[0])])
        vtag = ""
        if vias:
            rl, vtag = "", "via:" + "+".join(vias)
        if D.parts(v) is None:
            chk.ob(rule, "<Duration as Div<i64>>::div", "result-shape", False, detail=repr(v))
            continue
        R = D.total(v)
        nd += 1
        # truncation toward zero:  R*q + rem == T  with |rem| < |q| and sign(rem) == sign(T) (or rem == 0)
        # the result is linear in a division atom tdiv(T', q'); identify it semantically
        ok = _is_trunc_div(eng, D, st, R, T, q)
        chk.ob(rule, "<Duration as Div<i64>>::div", "trunc-div[%s%s]" % (rl, vtag), ok, "result == trunc(count / q)",
               detail=None if ok else {"result": repr(v), "count": repr(T), "divisor": repr(q), "path": describe_path(eng, st)})
        okc = D.is_canonical(st, v)
        chk.ob(rule, "<Duration as Div<i64>>::div", "canonical-result[%s%s]" % (rl, vtag), okc, "0<=ns<NPC or MAX")
    no_bad_events(chk, "C01.R4", "<Duration as Div<i64>>::div", finals, eng)
    chk.floor(rule, "Div<i64> partitions", nd, 4)


def _is_trunc_div(eng, D, st, R, T, q):
    """R == trunc(T / q) on this path.  The expected quotient is the division atom of (T, q); atoms are
    identified by congruence (operands provably equal)."""
    st = st.clone()
    k = eng.const_of(st, Int(q, None))
    if D.implies(st, T, "==") and D.implies(st, R, "=="):
        return True
    tk = eng.fm_bounds(st, T)
    kp = k
    if kp is None and tk[0] == tk[1]:
        qb = eng.fm_bounds(st, q)  # the divisor may be pinned by the path condition without being a literal (q == -NPC)
        if qb[0] == qb[1]:
            kp = int(qb[0])
    if kp is not None and tk[0] == tk[1]:
        quo = abs(tk[0]) // abs(kp)
        if (tk[0] < 0) != (kp < 0):
            quo = -quo
        if D.implies(st, R - quo, "=="):
            return True
        if k is not None:
            return False
    lo, hi = -(1 << 127), (1 << 127) - 1
    if k is not None:
        exp = eng.atom("tdiv(%r,%d)" % (T, k), lo, hi, "tdiv", (T, k))
    else:
        exp = eng.atom("tdiv(%r,%r)" % (T, q), lo, hi, "tdivs", (T, q))
    # constant-divisor and symbolic-divisor atoms of the same operation: compare across kinds too
    el = Lin.atom(exp)
    D.close(st, [el, R])
    if D.implies_eq(st, R, el):
        return True
    for a in list(eng.atoms.values()):
        if a.kind in ("tdiv", "tdivs") and a is not exp:
            num, den = a.defn
            den_l = den if isinstance(den, Lin) else Lin.const(den)
            if D.implies_eq(st, num, T) and D.implies_eq(st, den_l, q) and D.implies_eq(st, R, Lin.atom(a)):
                return True
    return False


def run(chk, F, tier):
    eng, D = ctx(F)
    n = 0
    n += binop(chk, F, "C01.R1", "Add", "add", +1)
    n += binop(chk, F, "C01.R1", "Sub", "sub", -1)
    # Neg, abs
    fn = F.find1(self_ty="Duration", name="neg", trait_ref="Neg")
    unary(chk, F, "C01.R1", fn, "<Duration as Neg>::neg", lambda st, a: -D.total(a[0]))
    fn = F.find1(self_ty="Duration", name="abs", trait="")

    def spec_abs(st, a):
        d = eng.deref(st, a[0])
        T = D.total(d)
        if D.implies(st, -T, "<="):
            return T
        if D.implies(st, T, "<="):
            return -T
        return None

    finals, args = D.run(fn)
    bad = c02.all_bad_arms(F)
    for st in finals:
        if st.end != "return":
            continue
        d = eng.deref(st, args[0])
        T = D.total(d)
        rl = D.region_label(st, [("self.c", D.parts(d)[0])])
        for sgn, cons, spec in (("nonneg", [(-T, "<=")], T), ("neg", [(T + 1, "<=")], -T)):
            if not D.feasible(st, cons):
                continue
            st2 = st.clone()
            eng.add_cons(st2, cons)
            exact_or_saturated(chk, "C01.R1", "Duration::abs[%s]" % sgn, D, eng, [st2], lambda s: spec, bad_arms=bad,
                               region_atoms=lambda s: [("self.c", D.parts(d)[0])])
    no_bad_events(chk, "C01.R4", "Duration::abs", finals, eng,
                  region=lambda st: D.region_label(st, [("self.c", D.parts(eng.deref(st, args[0]))[0])]))
    muldiv(chk, F)
    # Unit and assign forms: E5 delegation (result is exactly the Duration operator applied to `rhs * 1`)
    rule = "C01.R5"
    forms = [
        ("AddAssign", "add_assign", None, "Add"),
        ("SubAssign", "sub_assign", None, "Sub"),
        ("Add<timeunits::Unit>", "add", "unit", "Add"),
        ("Sub<timeunits::Unit>", "sub", "unit", "Sub"),
        ("AddAssign<timeunits::Unit>", "add_assign", "unit", "Add"),
        ("SubAssign<timeunits::Unit>", "sub_assign", "unit", "Sub"),
    ]
    dur_ops = {"Add": F.find1(self_ty="Duration", name="add", trait_ref="Add"),
               "Sub": F.find1(self_ty="Duration", name="sub", trait_ref="Sub")}
    unit_mul = F.find1(self_ty="Unit", name="mul", trait_ref="Mul<i64>")
    cnt = 0
    for tr, name, kind, op in forms:
        fn = F.find1(self_ty="Duration", name=name, trait_ref=tr)
        cnt += 1
        ok, why = delegation_semantics(F, fn, dur_ops[op], unit_mul, unit=(kind == "unit"), assign=name.endswith("_assign"))
        chk.ob(rule, "<Duration as %s>::%s" % (tr.replace("timeunits::", ""), name), "delegates-to-Duration::%s" % op, ok,
               "E5 delegation", detail=why)
    chk.floor(rule, "Unit / assign forms", cnt, 6)
    chk.extra["engine_stats"] = dict(eng.stats)
    chk.extra["paths_explored"] = eng.stats["paths"]
    chk.assumptions.append("Duration arguments satisfy the canonical-form invariant established by C02.R1")
    chk.assumptions.append("divisor != 0 (outside the quantifier)")


def delegation_semantics(F, fn, op_fn, unit_mul, unit, assign):
    """fn is `lhs (op) rhs` or `*self = *self (op) rhs` with rhs = arg or `arg * 1` (Unit x i64 with the constant 1), decided on the
    interpreted paths with the Duration operator and Unit x i64 uninterpreted (recorded): through whatever chain of delegations
    (`+= Unit` -> `+= Duration` -> `+`), exactly one application of the operator to (self, rhs) produces what is returned / stored."""
    from .c20 import rec_hook, recs
    eng, D = ctx(F)
    eng.hooks_by_id = {op_fn["id"]: rec_hook(D, "op"), unit_mul["id"]: rec_hook(D, "unit*i64")}
    try:
        finals, args = D.run(fn)
    finally:
        eng.hooks_by_id = {}
    nret = 0
    for st in finals:
        if st.end != "return":
            return False, "a path ends in %s" % st.end
        nret += 1
        ops = recs(st, "op")
        if len(ops) != 1:
            return False, "expected exactly one application of %s on a path, found %d" % (op_fn["key"], len(ops))
        (a0, a1), res = ops[0][0][:2], ops[0][1]
        if assign:
            ini = eng.sym_cells0.get(args[0].key) if hasattr(eng, "sym_cells0") else None
            lhs_ok = a0 is ini or (D.total(a0) is not None and ini is not None and D.total(a0).key() == D.total(ini).key() and D.parts(a0)[1].key() == D.parts(ini)[1].key())
            out = eng.deref(st, args[0])
        else:
            lhs_ok = a0 is args[0]
            out = st.ret
        if not lhs_ok:
            return False, "left operand is not self"
        if out is not res:
            return False, "the operator's result is not what is %s" % ("stored to *self" if assign else "returned")
        if unit:
            ums = recs(st, "unit*i64")
            if len(ums) != 1 or a1 is not ums[0][1]:
                return False, "right operand is not one `unit * 1`"
            u, k = ums[0][0][0], ums[0][0][1]
            if u is not args[1]:
                return False, "unit operand is not the argument"
            if not (isinstance(k, Int) and k.lin.is_const() and k.lin.k == 1):
                return False, "unit multiplied by %r, not 1" % (k,)
        else:
            if a1 is not args[1]:
                return False, "right operand is not the argument"
    return nret >= 1, None if nret >= 1 else "no return path"


def delegation_shape(F, fn, op_fn, unit_mul, unit, assign):
    """fn is `lhs (op) rhs` or `*self = *self (op) rhs` with rhs = arg or `arg * 1` (Unit x i64 with the
    constant 1): exactly one call of the Duration operator, operands in order, result returned / stored."""
    defs = cfg.unique_defs(fn)
    ops = [(bi, t) for bi, t in cfg.calls(fn) if t["f"].get("fn_id") == op_fn["id"]]
    if len(ops) != 1:
        return False, "expected exactly one call of %s, found %d" % (op_fn["key"], len(ops))
    others = [cfg.callee_name(t["f"]) for bi, t in cfg.calls(fn) if t["f"].get("fn_id") != op_fn["id"]]
    bi, t = ops[0]
    a0 = cfg.resolve(fn, t["args"][0], defs)
    a1 = cfg.resolve(fn, t["args"][1], defs)
    # left operand: self (by value) or *self
    if assign:
        if not (a0[0] == "place" and a0[1]["l"] == 1 and a0[1]["pj"] == ["deref"]):
            return False, "left operand is not *self: %r" % (a0,)
        d = t["dest"]
        # result must be written back to *self
        stored = False
        for b2, s2, s in cfg.stmts(fn):
            if s["k"] == "a" and s["p"]["l"] == 1 and s["p"]["pj"] == ["deref"] and s["r"]["op"] == "use":
                src = cfg.operand_place(s["r"]["x"])
                if src is not None and src["l"] == d["l"] and not src["pj"]:
                    stored = True
        if d["l"] == 1 and d["pj"] == ["deref"]:
            stored = True
        if not stored:
            return False, "result is not stored to *self"
    else:
        if a0 != ("arg", 1):
            return False, "left operand is not self: %r" % (a0,)
        if not (t["dest"]["l"] == 0 and not t["dest"]["pj"]):
            return False, "result is not returned"
    if unit:
        # rhs = <Unit as Mul<i64>>::mul(arg2, const 1)
        if not (a1[0] == "rv" and a1[1]["op"] == "call"):
            return False, "right operand is not `unit * 1`: %r" % (a1[0],)
        t2 = a1[1]["t"]
        if t2["f"].get("fn_id") != unit_mul["id"]:
            return False, "right operand computed by %s" % cfg.callee_name(t2["f"])
        u = cfg.resolve(fn, t2["args"][0], defs)
        k = cfg.resolve(fn, t2["args"][1], defs)
        if u != ("arg", 2):
            return False, "unit operand is not the argument"
        if not (k[0] == "const" and k[1].get("v") == 1):
            return False, "unit multiplied by %r, not 1" % (k[1].get("v") if k[0] == "const" else k[0])
        if len(others) != 1:
            return False, "unexpected extra calls %r" % others
    else:
        if a1 != ("arg", 2):
            return False, "right operand is not the argument: %r" % (a1,)
        if others:
            return False, "unexpected extra calls %r" % others
    return True, None
