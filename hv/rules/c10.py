"""C10 - Epoch text and serde round trip: the reader run on the writers' own templates."""
import time
from ..sym import Engine, Int, Bool, Struct, Enum, SymEnum, Ref, Opq, Flt, Str, St, c_lin
from ..lin import Lin, implies, interval
from ..dur import DurCtx, describe_path
from ..epochalg import EpochAlg, same_scale, scale_name
from ..models import outputs, FmtArgs, FmtArg
from ..tstr import Ctx as TCtx, TStr, render
from .. import oracle, cfg
from .c02 import ctx, no_bad_events
from .c20 import rec_hook, recs
from . import c13

LEVEL = "other"
EXPLANATION = (
    "The value-level claim parse(format(e)) == e quantifies over every instant; what is decided here is the agreement of the "
    "two hand-written grammars, by abstract interpretation of the real reader over a template-string domain (hv/tstr.py): a "
    "string is a sequence of literal characters, 'some digit' characters and opaque number runs, so slicing, trimming, "
    "character iteration and the value of a digit run (a linear form over its digits) are exact. R1: the shape each writer "
    "emits (Display, to_gregorian_str, to_rfc3339, Formatter[ISO8601]) is read off the writer's own fmt::Arguments "
    "templates (E7) for both forms (fraction printed iff ns != 0) and all nine scale names; Epoch::from_str is then "
    "interpreted on that template with arbitrary digits within the fields' ranges (C09.R3): on every path it must reach "
    "maybe_from_gregorian exactly once with argument k = the value of digit run k (the k-th output of compute_gregorian), "
    "the scale whose Display text was written, and return that epoch plus a zero offset; no path may reject the text. "
    "R2: the input grammar of the statement - 0..9 fraction digits x {none, Z, +hh:mm, -hh:mm} x {no suffix, each scale "
    "name}: nanoseconds = run * 10^(9-digits) exactly, the instant is shifted by -(+hh:mm) resp. +(hh:mm) with i64*Unit "
    "taken as exact (C18), the scale is the suffix (UTC by default). R3: TimeScale Display -> FromStr is the identity on "
    "all nine variants (and the RINEX names map to their scale). R4: serde goes through Display / FromStr. R5: the "
    "JD/MJD/SEC dispatch of Epoch::from_str as a finite table over (prefix, scale name): each cell must reach the "
    "constructor of that prefix family with the number's value and the named scale. R6: the day-count constructors place "
    "the count relative to the scale's own reference epoch: duration = (days - K) * Unit::Day - (reference reading of the "
    "scale since 1900), with K = 15 020 (+ 2 400 000.5 for JD) and the reference readings from the public definitions "
    "(GPS 1980-01-06, Galileo 1999-08-22, BeiDou 2006-01-01, J2000 for ET/TDB). NOT decided: that compute_gregorian "
    "inverts maybe_from_gregorian for every instant (C08/C09's inductive calendar fact), digit-level correctness of "
    "lexical_core and of core::fmt's integer Display, and the float resolution clause for JD/MJD/SEC.")

RULE_TEXT = "writer templates (E7) -> reader interpreted on the template domain; dispatch tables; constructor constants vs oracle"

SCALES = ["TAI", "TT", "ET", "TDB", "UTC", "GPST", "GST", "BDT", "QZSST"]
# field ranges established for the writers' arguments by C09.R3 / the statement's year span
FIELD_RANGES = [(1, 9999), (1, 12), (1, 31), (0, 23), (0, 59), (0, 60), (0, 999_999_999)]
FIELD_NAMES = ["year", "month", "day", "hour", "minute", "second", "nanos"]


# ----------------------------------------------------------------------------------------------- writer shapes
def shape_of_pieces(fa, tup, scale_val, eng, st):
    """pieces of one fmt::Arguments -> [("lit", s) | ("field", k, width) | ("scale",) | ("?", repr)]"""
    out = []
    for p in fa.pieces:
        if p[0] == "lit":
            out.append(("lit", p[1]))
            continue
        spec = p[1]
        a = fa.args[spec["index"]]
        k = None
        for i, f in enumerate(tup.fs):
            if a.val is f:
                k = i
        if k is not None and a.kind == "display" and spec["zero_pad"] and spec["width"]:
            out.append(("field", k, spec["width"]))
        elif a.kind == "display" and scale_val is not None and same_scale(eng, st, a.val, scale_val):
            out.append(("scale",))
        else:
            out.append(("?", repr(spec)[:80]))
    return out


def epoch_writer_shapes(chk, F):
    """-> {(writer, has_fraction): shape} read off the code (same exploration as C09.R4)."""
    eng, D = ctx(F)
    A = EpochAlg(F, eng, D)
    cg = F.find1(self_ty="Epoch", name="compute_gregorian", trait="")
    jobs = [("<Epoch as Display>::fmt", F.find1(self_ty="Epoch", name="fmt", trait_ref="Display"), "fmt"),
            ("Epoch::to_gregorian_str", F.find1(self_ty="Epoch", name="to_gregorian_str", trait=""), "string"),
            ("Epoch::to_rfc3339", F.find1(self_ty="Epoch", name="to_rfc3339", trait=""), "string")]
    shapes = {}
    for inst, fn, how in jobs:
        A.install(duration_algebra=False, opaque_conv=True)
        eng.hooks_by_id[cg["id"]] = rec_hook(D, "compute_gregorian")
        finals, args = D.run(fn, interior=True)
        A.uninstall()
        for st in finals:
            if st.end != "return":
                continue
            cgs = recs(st, "compute_gregorian")
            if len(cgs) != 1:
                continue
            (cargs, tup) = cgs[0]
            if how == "fmt":
                outs = outputs(st)
                fa = outs[0][2] if len(outs) == 1 else None
            else:
                r = st.ret
                fa = r.term[1] if isinstance(r, Opq) and isinstance(r.term, tuple) and r.term[0] == "string" else None
            if not isinstance(fa, FmtArgs):
                continue
            shape = shape_of_pieces(fa, tup, cargs[1], eng, st)
            frac = any(x[0] == "field" and x[1] == 6 for x in shape)
            # which scale the printed fields are in: self's own (Display) / the argument / UTC
            prev = shapes.get((inst, frac))
            if prev is not None and prev != shape:
                chk.ob("C10.R1", inst, "one-shape-per-form", False, detail={"a": prev, "b": shape})
            shapes[(inst, frac)] = shape
    return shapes


def formatter_shapes(chk, F):
    from .c19 import Renderer
    R = Renderer(F)
    iso = F.const("efmt::consts::ISO8601")["v"]
    items, n = R.B.decode_const(iso)
    finals, args = R.explore(items[:n])
    shapes = {}
    for st in finals:
        if st.end != "return":
            continue
        got = R.render(st, args)
        shape = []
        for g in got:
            if g[0] == "lit":
                shape.append(("lit", g[1]))
            elif g[0] == "field" and g[1].startswith("cg.") and g[2] == "display" and g[3] and g[4]:
                shape.append(("field", int(g[1][3:]), g[3]))
            elif g[0] == "field" and g[1] == "time_scale":
                shape.append(("scale",))
            else:
                shape.append(("?", repr(g)[:80]))
        frac = any(x[0] == "field" and x[1] == 6 for x in shape)
        shapes[("Formatter[ISO8601]", frac)] = shape
    return shapes


def scale_names(chk, F, eng):
    """Display text of every TimeScale variant, read off the code. -> {variant: text}, {variant: rinex text}"""
    out = {}
    for tr, store in (("Display", out),):
        fn = F.find1(self_ty="TimeScale", name="fmt", trait_ref=tr)
        finals = eng.run(fn)
        for st in finals:
            if st.end != "return":
                continue
            v = eng.deref(st, st.store[(st.frames[0].fid, 1)]) if st.frames else None
    return out


# ----------------------------------------------------------------------------------------------- the reader on a template
class Reader:
    def __init__(self, F):
        self.F = F
        mod = c13.modular_ids(F)
        for f in (F.find1(self_ty="Epoch", name="add", trait_ref="Add<duration::Duration>"), F.find1(self_ty="Epoch", name="sub", trait_ref="Sub<duration::Duration>")):
            mod.pop(f["id"], None)  # Epoch +/- Duration is followed into the Duration algebra here
        self.eng = c13.make_engine(F, mod)
        self.eng.lazy_enums = False
        self.eng.group_switch = False
        self.eng.sym_select = False
        self.eng.max_paths = 4000
        pol = self.eng.opaque

        def opaque(c):
            inst = c.get("inst") or ""
            if "&str" in inst and inst.endswith("::eq"):
                return False  # `val == "UTC"`: inlined down to the str equality model (concrete / template strings)
            return pol(c)
        self.eng.opaque = opaque
        self.D = DurCtx(F, self.eng)
        self.T = TCtx(self.eng)
        self.T.install()
        self.A = EpochAlg(F, self.eng, self.D)
        self.from_str = F.find1(self_ty="Epoch", name="from_str", trait_ref="FromStr")
        self.mfg = F.find1(self_ty="Epoch", name="maybe_from_gregorian", trait="")
        self.i64_unit = F.find1(self_ty="i64", name="mul", trait_ref="Mul<timeunits::Unit>")
        self.f64_unit = F.find1(self_ty="f64", name="mul", trait_ref="Mul<timeunits::Unit>")
        self.neg = F.find1(self_ty="Duration", name="neg", trait_ref="Neg")
        self.ep_add = F.find1(self_ty="Epoch", name="add", trait_ref="Add<duration::Duration>")
        self.ep_sub = F.find1(self_ty="Epoch", name="sub", trait_ref="Sub<duration::Duration>")
        self.ts_tid = self.eng.find_tid("timescale::TimeScale")
        self.unit_tid = self.eng.find_tid("timeunits::Unit")
        self.ctors = {}
        for nm in ("from_jde_et", "from_jde_tai", "from_jde_tdb", "from_jde_utc", "from_mjd_tai", "from_mjd_in_time_scale", "from_jde_in_time_scale",
                   "from_tai_seconds", "from_et_seconds", "from_tdb_seconds", "from_tt_seconds", "from_duration"):
            try:
                self.ctors[nm] = F.find1(self_ty="Epoch", name=nm, trait="")
            except Exception:
                pass

    def dur_of_total(self, st, S):
        e, D = self.eng, self.D
        lo, hi = e.fm_bounds(st, S)
        i64 = e.types[D.dur_tid]["variants"][0]["ftys"]
        if lo == hi:
            return Struct(D.dur_tid, [Int(Lin.const(lo // D.NPC), i64[0]), Int(Lin.const(lo % D.NPC), i64[1])])
        nm = "dur[%r]" % (S,)
        ca = e.atom(nm + ".c", -32768, 32767, "dur.c", S)
        na = e.atom(nm + ".n", 0, D.NPC - 1, "dur.n", S)
        e.add_cons(st, [(Lin({ca: D.NPC, na: 1}) - S, "==")])
        return Struct(D.dur_tid, [Int(Lin.atom(ca), i64[0]), Int(Lin.atom(na), i64[1])])

    def install(self, record_ctors=False):
        e, D = self.eng, self.D
        self.A.install(duration_algebra=True, opaque_conv=True)
        e.hooks_by_id[self.mfg["id"]] = rec_hook(D, "mfg")

        def h_i64_unit(eng, st, c, a, dest_tid, t):
            # modular assumption (C18.R1): i64 * Unit is the exact product, away from saturation
            x, u = a[0], a[1]
            if isinstance(x, Int) and isinstance(u, Enum):
                f = oracle.UNIT_NS[eng.types[u.tid]["variants"][u.vi]["name"]]
                return [(st, self.dur_of_total(st, x.lin.scale(f)))]
            return NotImplemented
        e.hooks_by_id[self.i64_unit["id"]] = h_i64_unit

        def h_neg(eng, st, c, a, dest_tid, t):
            T0 = D.total(a[0])
            if T0 is None:
                return NotImplemented
            return [(st, self.dur_of_total(st, -T0))]
        e.hooks_by_id[self.neg["id"]] = h_neg
        e.hooks_by_id[self.f64_unit["id"]] = rec_hook(D, "f64*unit")
        if record_ctors:
            for nm, fn in self.ctors.items():
                e.hooks_by_id[fn["id"]] = rec_hook(D, "ctor:" + nm)

    def uninstall(self):
        self.A.uninstall()

    def run_template(self, build):
        """build(T, st) -> TStr ; -> finals"""
        eng = self.eng
        eng.reset()
        self.T.n = 0
        st = St()
        s = build(self.T, st)
        eng._pending_cells = []
        finals = eng.run(self.from_str, args=[Ref(val=s)], st=st)
        return finals, s

    def variant(self, name):
        return Enum(self.ts_tid, self.eng.variant_index(self.ts_tid, name), ())


def ok_epoch(eng, st):
    """The Epoch inside an Ok(..) return value, or None."""
    r = st.ret
    if isinstance(r, SymEnum) and r.name in st.enum_ref:
        r = st.enum_ref[r.name]
    if isinstance(r, Enum) and eng.types[r.tid]["variants"][r.vi]["name"] == "Ok" and r.fs:
        return r.fs[0]
    return None


def is_err(eng, st):
    r = st.ret
    if isinstance(r, SymEnum) and r.name in st.enum_ref:
        r = st.enum_ref[r.name]
    return isinstance(r, Enum) and eng.types[r.tid]["variants"][r.vi]["name"] == "Err"


def build_from_shape(shape, scale_text, zone=None):
    """-> build(T, st) returning the template and recording the field values on T.vals"""
    def build(T, st):
        els = []
        T.vals = {}
        for item in shape:
            if item[0] == "lit":
                els += T.lit(item[1])
            elif item[0] == "field":
                k, w = item[1], item[2]
                d, val = T.digits(FIELD_NAMES[k], w)
                els += d
                T.vals[k] = val
                lo, hi = FIELD_RANGES[k]
                T.eng.add_cons(st, [(-val + lo, "<="), (val - hi, "<=")])
            elif item[0] == "scale":
                els += T.lit(scale_text)
            elif item[0] == "offset":
                sign = item[1]
                els += T.lit(sign)
                d, hv = T.digits("oh", 2)
                els += d
                els += T.lit(":")
                d2, mv = T.digits("om", 2)
                els += d2
                T.vals["oh"], T.vals["om"] = hv, mv
                T.eng.add_cons(st, [(hv - 23, "<="), (mv - 59, "<=")])
            elif item[0] == "frac":
                n = item[1]
                d, val = T.digits("frac", n)
                els += d
                T.vals["frac"] = (val, n)
        return T.mk(els)
    return build


def check_gregorian_paths(chk, rule, inst, construct, R, finals, T, want_scale, offset_sign=0, sample=False):
    """Every path: exactly one maybe_from_gregorian(fields in role order, scale); Ok = that epoch + expected offset."""
    eng, D = R.eng, R.D
    problems = []
    nok = 0
    for st in finals:
        if st.end != "return":
            problems.append("path ends in %s: %s" % (st.end, [e["msg"] for e in st.events][-1:]))
            continue
        bad = [e for e in st.events if e["kind"] in ("panic", "limit", "unmodelled", "imprecise", "unreachable")]
        if bad:
            problems.append("event %s" % bad[0]["msg"])
            continue
        calls = recs(st, "mfg")
        if len(calls) != 1:
            lex = [t for t in st.trace if isinstance(t, tuple) and t and t[0] == "lexical-err"]
            problems.append("rejected before the constructor (%d calls)%s" % (len(calls), " " + repr(lex[-1]) if lex else ""))
            continue
        a, res = calls[0]
        for k in range(7):
            want = T.vals.get(k)
            if k == 6:
                if "frac" in T.vals:
                    v, n = T.vals["frac"]
                    want = v.scale(10 ** (9 - n))
                elif want is None:
                    want = Lin.const(0)
            if want is None:
                problems.append("field %d missing in template" % k)
                continue
            got = a[k]
            if not (isinstance(got, Int) and (got.lin.key() == want.key() or implies(st.cons, got.lin - want, "==", st.bnd))):
                problems.append("argument %d (%s) is %r, expected the value of its digit run" % (k, FIELD_NAMES[k], got))
        if scale_name(eng, st, a[7]) != want_scale:
            problems.append("scale argument is %s, expected %s" % (scale_name(eng, st, a[7]), want_scale))
        if is_err(eng, st):
            # the constructor's own Err propagated
            nok += 1
            continue
        ep = ok_epoch(eng, st)
        # res: Result<Epoch, _> fresh; on the Ok path the result epoch must be mfg's epoch shifted by the offset
        r = res
        if isinstance(r, SymEnum) and r.name in st.enum_ref:
            r = st.enum_ref[r.name]
        base = r.fs[0] if isinstance(r, Enum) and r.fs else None
        if ep is None or base is None or not isinstance(ep, Struct) or not isinstance(base, Struct):
            problems.append("result is not Ok(epoch): %r" % (st.ret,))
            continue
        if not same_scale(eng, st, ep.fs[1], base.fs[1]):
            problems.append("result scale differs from the constructed epoch's")
        Tr, Tb = D.total(ep.fs[0]), D.total(base.fs[0])
        if offset_sign == 0:
            shift = Lin.const(0)
        else:
            shift = (T.vals["oh"].scale(oracle.UNIT_NS["Hour"]) + T.vals["om"].scale(oracle.UNIT_NS["Minute"])).scale(-offset_sign)
        st2 = st.clone()
        D.close(st2, [Tr, Tb])
        if Tr is None or Tb is None or not D.implies_eq(st2, Tr, Tb + shift):
            problems.append("returned instant is not the constructed epoch %s" % ("+ 0" if offset_sign == 0 else "shifted by -(%+d)*(hh:mm)" % offset_sign))
        nok += 1
    ok = not problems and nok >= 1
    chk.ob(rule, inst, construct, ok, "reader interpreted on the template (%d path(s))" % len(finals),
           detail=None if ok else {"problems": sorted(set(problems))[:6], "paths": len(finals)}, sample=sample)
    return ok


def r1_roundtrip(chk, F, R, names):
    rule = "C10.R1"
    shapes = {}
    shapes.update(epoch_writer_shapes(chk, F))
    shapes.update(formatter_shapes(chk, F))
    chk.floor(rule, "writer shapes read off the code", len(shapes), 7)
    n = 0
    R.install()
    for (writer, frac), shape in sorted(shapes.items()):
        unk = [x for x in shape if x[0] == "?"]
        if unk:
            chk.ob(rule, writer, "shape-decoded[%s]" % ("fraction" if frac else "whole-second"), False, detail=shape)
            continue
        has_scale = any(x[0] == "scale" for x in shape)
        for sc in (SCALES if has_scale else ["UTC"]):
            text = names.get(sc)
            if text is None:
                chk.ob(rule, writer, "scale-name[%s]" % sc, False)
                continue
            finals, s = R.run_template(build_from_shape(shape, text))
            n += 1
            check_gregorian_paths(chk, rule, writer, "from_str(%s)->fields-in-role-order,scale=%s,offset=0" % (render(s.els), sc), R, finals, R.T, sc,
                                  sample=(n == 1))
    R.uninstall()
    chk.floor(rule, "writer templates run through the reader", n, 47)
    # Display is what to_string / serde use; the rfc3339 writer prints the UTC view (C09.R4), so the default UTC is the right scale


def r2_input_grammar(chk, F, R, names, tier):
    rule = "C10.R2"
    base = [("field", 0, 4), ("lit", "-"), ("field", 1, 2), ("lit", "-"), ("field", 2, 2), ("lit", "T"), ("field", 3, 2), ("lit", ":"), ("field", 4, 2),
            ("lit", ":"), ("field", 5, 2)]
    R.install()
    n = 0
    zones = [("none", [], 0), ("Z", [("lit", "Z")], 0), ("+hh:mm", [("offset", "+")], +1), ("-hh:mm", [("offset", "-")], -1)]
    for nd in range(0, 10):
        for zname, zitems, zsign in zones:
            suffixes = [None] + SCALES
            if tier == "quick" and nd not in (0, 3, 9):
                suffixes = [None, "TAI"]
            for suf in suffixes:
                shape = list(base)
                if nd:
                    shape += [("lit", "."), ("frac", nd)]
                shape += zitems
                if suf is not None:
                    shape += [("lit", " "), ("scale",)]
                finals, s = R.run_template(build_from_shape(shape, names.get(suf, suf) if suf else ""))
                n += 1
                want_scale = suf or "UTC"
                check_gregorian_paths(chk, rule, "Epoch::from_str", "%s: ns=frac*10^%d, shift=%s, scale=%s" % (
                    render(s.els), 9 - nd, {0: "0", 1: "-(hh:mm)", -1: "+(hh:mm)"}[zsign], want_scale), R, finals, R.T, want_scale, offset_sign=zsign,
                    sample=(n == 1))
    R.uninstall()
    chk.floor(rule, "input templates", n, 100)


def r3_names(chk, F, R):
    """Display text per variant (read off the code), FromStr on that text."""
    rule = "C10.R3"
    eng = R.eng
    names, rinex = {}, {}
    for tr, store in (("Display", names), ("LowerHex", rinex)):
        fn = F.find1(self_ty="TimeScale", name="fmt", trait_ref=tr)
        for sc in SCALES:
            eng.reset()
            st = St()
            key = ("cell", "ts-arg")
            st.store[key] = R.variant(sc)
            eng._pending_cells = []
            fmt_tid = fn["locals"][2]["ty"]
            fv = eng.sym(fmt_tid, "f")
            for k2, inner in eng._pending_cells:
                st.store[k2] = inner
            finals = eng.run(fn, args=[Ref(key=key), fv], st=st)
            texts = set()
            for s2 in finals:
                if s2.end != "return":
                    continue
                txt = ""
                for o in outputs(s2):
                    if o[1] == "str":
                        txt += o[2]
                    else:
                        fa = o[2]
                        for p in fa.pieces:
                            if p[0] == "lit":
                                txt += p[1]
                            else:
                                a = fa.args[p[1]["index"]]
                                # `{self}` inside LowerHex: the Display text
                                txt += names.get(scale_name(eng, s2, eng.deref(s2, a.val) if isinstance(a.val, Ref) else a.val), "?")
                texts.add(txt)
            if len(texts) == 1:
                store[sc] = texts.pop()
    chk.ob(rule, "<TimeScale as Display>::fmt", "one-literal-name-per-variant", len(names) == 9 and len(set(names.values())) == 9, "E7 outputs per variant",
           detail=names)
    from_str = F.find1(self_ty="TimeScale", name="from_str", trait_ref="FromStr")
    for label, table in (("Display", names), ("LowerHex(RINEX)", rinex)):
        for sc, text in sorted(table.items()):
            eng.reset()
            finals = eng.run(from_str, args=[Ref(val=Str(s=text, ln=Lin.const(len(text))))], st=St())
            got = set()
            for s2 in finals:
                r = s2.ret
                if s2.end == "return" and isinstance(r, Enum) and eng.types[r.tid]["variants"][r.vi]["name"] == "Ok":
                    got.add(scale_name(eng, s2, r.fs[0]))
                else:
                    got.add("Err/" + str(s2.end))
            chk.ob(rule, "<TimeScale as FromStr>::from_str", "%s[%s]=%r->%s" % (label, sc, text, sc), got == {sc}, "reader on the writer's literal",
                   detail=None if got == {sc} else sorted(got))
    return names


def r4_serde(chk, F):
    rule = "C10.R4"
    ser = [f for f in F.local_fns(True) if f.get("name") == "serialize" and "epoch::Epoch" in f["key"]]
    de = [f for f in F.local_fns(True) if f.get("name") == "deserialize" and "epoch::Epoch" in f["key"]]
    ok = len(ser) == 1 and any("ToString" in cfg.callee_name(t["f"]) and "to_string" in cfg.callee_name(t["f"]) for bi, t in cfg.calls(ser[0])) and \
        any("serialize_str" in cfg.callee_name(t["f"]) for bi, t in cfg.calls(ser[0]))
    chk.ob(rule, "<Epoch as Serialize>::serialize", "serialize_str(self.to_string())", ok, "E5 delegation (to_string = Display: R1)")
    ok = len(de) == 1 and any("FromStr" in cfg.callee_name(t["f"]) and "from_str" in cfg.callee_name(t["f"]) and "Epoch" in cfg.callee_name(t["f"])
                              for bi, t in cfg.calls(de[0]))
    chk.ob(rule, "<Epoch as Deserialize>::deserialize", "Epoch::from_str(string)", ok, "E5 delegation")


# constructor family each prefix must reach, and which recorded constructors belong to it
FAMILY = {
    "JD": {"from_jde_et", "from_jde_tai", "from_jde_tdb", "from_jde_utc", "from_jde_in_time_scale"},
    "MJD": {"from_mjd_tai", "from_mjd_in_time_scale"},
    "SEC": {"from_tai_seconds", "from_et_seconds", "from_tdb_seconds", "from_tt_seconds", "from_duration"},
}
FIXED_SCALE = {"from_jde_et": "ET", "from_jde_tai": "TAI", "from_jde_tdb": "TDB", "from_jde_utc": "UTC", "from_mjd_tai": "TAI", "from_tai_seconds": "TAI",
               "from_et_seconds": "ET", "from_tdb_seconds": "TDB", "from_tt_seconds": "TT"}


def r5_numeric_dispatch(chk, F, R, names):
    rule = "C10.R5"
    eng, D = R.eng, R.D
    R.install(record_ctors=True)
    n = 0
    for prefix in ("JD", "MJD", "SEC"):
        for sc in SCALES:
            text = names.get(sc, sc)

            def build(T, st, prefix=prefix, text=text):
                return T.mk(T.lit(prefix + " ") + T.num("x") + T.lit(" " + text))
            finals, s = R.run_template(build)
            n += 1
            problems = []
            nok = 0
            for st in finals:
                if st.end != "return":
                    problems.append("path ends in %s" % st.end)
                    continue
                ctor = [(t[1][5:], t[2], t[3]) for t in st.trace if isinstance(t, tuple) and len(t) == 4 and t[0] == "rec" and t[1].startswith("ctor:")]
                if is_err(eng, st):
                    fin = [t for t in st.opq if isinstance(t[0], tuple) and "is_finite" in repr(t[0]) and t[1] is False]
                    if fin and not ctor:
                        continue  # the number's text denotes a non-finite value: rejected by design
                    problems.append("Err without reaching a constructor")
                    continue
                if len(ctor) != 1:
                    problems.append("%d constructor calls" % len(ctor))
                    continue
                nm, a, res = ctor[0]
                if nm not in FAMILY[prefix]:
                    problems.append("constructor %s is not of the %s family" % (nm, prefix))
                # value: the number run's value (or value * Unit::Second for from_duration)
                v = a[0]
                if nm == "from_duration":
                    prods = recs(st, "f64*unit")
                    okv = len(prods) == 1 and prods[0][1] is v and isinstance(prods[0][0][0], Flt) and prods[0][0][0].t == ("numval", "x") and \
                        isinstance(prods[0][0][1], Enum) and eng.types[prods[0][0][1].tid]["variants"][prods[0][0][1].vi]["name"] == "Second"
                else:
                    okv = isinstance(v, Flt) and v.t == ("numval", "x")
                if not okv:
                    problems.append("constructor argument is not the number written")
                got_scale = FIXED_SCALE.get(nm) or scale_name(eng, st, a[1])
                if got_scale != sc:
                    problems.append("constructed in %s" % got_scale)
                ep = ok_epoch(eng, st)
                if ep is not res:
                    problems.append("returns something else than the constructed epoch")
                nok += 1
            ok = not problems and nok >= 1
            chk.ob(rule, "Epoch::from_str", "%s <number> %s -> %s-constructor(number, %s)" % (prefix, text, prefix, sc), ok,
                   "dispatch table by interpretation on the template (%d path(s))" % len(finals),
                   detail=None if ok else {"problems": sorted(set(problems))[:5], "paths": len(finals)}, sample=(n == 1))
    R.uninstall()
    chk.floor(rule, "dispatch cells", n, 27)


REF_READING_DAYS2 = {  # reading of the scale's clock at its reference epoch, in half days since 1900-01-01T00:00:00
    "TAI": 0, "TT": 0, "UTC": 0,
    "ET": 2 * (oracle.days_from_civil(2000, 1, 1) - oracle.days_from_civil(1900, 1, 1)) + 1,
    "TDB": 2 * (oracle.days_from_civil(2000, 1, 1) - oracle.days_from_civil(1900, 1, 1)) + 1,
    "GPST": 2 * (oracle.days_from_civil(1980, 1, 6) - oracle.days_from_civil(1900, 1, 1)),
    "QZSST": 2 * (oracle.days_from_civil(1980, 1, 6) - oracle.days_from_civil(1900, 1, 1)),
    "GST": 2 * (oracle.days_from_civil(1999, 8, 22) - oracle.days_from_civil(1900, 1, 1)),
    "BDT": 2 * (oracle.days_from_civil(2006, 1, 1) - oracle.days_from_civil(1900, 1, 1)),
}


def flt_desc(t, depth=0):
    """(base symbol, constant subtracted) of a float term sym - c1 - c2 ... ; None if another shape"""
    if isinstance(t, tuple) and t and t[0] == "sym":
        return t[1], 0.0
    if isinstance(t, tuple) and len(t) == 4 and t[0] == "op" and t[1] == "Sub" and isinstance(t[3], tuple) and t[3][0] == "c":
        inner = flt_desc(t[2], depth + 1)
        if inner is not None:
            return inner[0], inner[1] + t[3][1]
    return None


def r6_constructors(chk, F, R, rule="C10.R6"):
    eng, D = R.eng, R.D
    half_day = oracle.DAY_NS // 2
    n = 0
    for nm, K in (("from_mjd_in_time_scale", float(oracle.MJD_1900)), ("from_jde_in_time_scale", float(oracle.MJD_1900) + 2400000.5)):
        fn = R.ctors.get(nm)
        if fn is None:
            chk.anchor_missing("Epoch::" + nm)
            continue
        for sc in SCALES:
            eng.reset()
            R.install()
            st = St()
            days = Flt(("sym", "days"))
            st.opq.append((("call", "core::f64::<impl f64>::is_finite", (("sym", "days"),)), True))
            finals = eng.run(fn, args=[days, R.variant(sc)], st=st)
            R.uninstall()
            n += 1
            problems = []
            nret = 0
            for s2 in finals:
                if s2.end == "panic":
                    continue  # assert!(days.is_finite()): the reader only passes finite values (R5)
                if s2.end != "return":
                    problems.append("path ends in %s" % s2.end)
                    continue
                nret += 1
                ep = s2.ret
                prods = recs(s2, "f64*unit")
                if not isinstance(ep, Struct) or len(prods) != 1:
                    problems.append("not one f64*Unit product (%d)" % len(prods))
                    continue
                (pa, P) = prods[0]
                fd = flt_desc(pa[0].t) if isinstance(pa[0], Flt) else None
                un = eng.types[pa[1].tid]["variants"][pa[1].vi]["name"] if isinstance(pa[1], Enum) else None
                if fd is None or fd[0] != "days" or fd[1] != K or un != "Day":
                    problems.append("day count is %r * %s, expected (days - %s) * Day" % (pa[0].t if isinstance(pa[0], Flt) else pa[0], un, K))
                if scale_name(eng, s2, ep.fs[1]) != sc:
                    problems.append("scale is %s" % scale_name(eng, s2, ep.fs[1]))
                Tr, Tp = D.total(ep.fs[0]), D.total(P)
                want = Tp - REF_READING_DAYS2[sc] * half_day
                s3 = s2.clone()
                D.close(s3, [Tr, Tp])
                if not D.implies_eq(s3, Tr, want):
                    lo, hi = eng.fm_bounds(s3, Tr - Tp)
                    problems.append("duration = product %s, expected product - %d half-days (the scale's reference reading since 1900)" % (
                        "+ %d ns" % lo if lo == hi else "+ ?", REF_READING_DAYS2[sc]))
            ok = not problems and nret >= 1
            chk.ob(rule, "Epoch::" + nm, "[%s] duration=(days-%s)*Day-reference_reading(%s)" % (sc, K, sc), ok, "abstract interpretation + oracle reference epochs",
                   detail=None if ok else {"problems": sorted(set(problems))[:4]}, sample=(n == 1))
    chk.floor(rule, "constructor x scale cells", n, 18)


def run(chk, F, tier):
    t0 = time.time()
    R = Reader(F)
    names = r3_names(chk, F, R)
    r4_serde(chk, F)
    r1_roundtrip(chk, F, R, names)
    r2_input_grammar(chk, F, R, names, tier)
    r5_numeric_dispatch(chk, F, R, names)
    r6_constructors(chk, F, R)
    chk.extra["engine_stats"] = dict(R.eng.stats)
    chk.extra["scale_names"] = names
    chk.assumptions.append("digit run k printed by `{:0w}` spells the integer passed (core::fmt) and lexical_core::parse returns the integer a digit run spells")
    chk.assumptions.append("field ranges of the writers' arguments: C09.R3; year 0001..9999 (statement), so the year run has exactly 4 digits")
    chk.assumptions.append("i64 * Unit and Duration +/- are exact away from saturation (C18.R1, C01); maybe_from_gregorian inverts compute_gregorian (C08/C09, not decided)")
