"""C11 - Duration decomposition and text form are exact and parse back identically."""
from ..sym import Engine, Int, Bool, Struct, Enum, SymEnum, Ref, Opq, Flt, Str, St, c_lin
from ..lin import Lin
from ..dur import DurCtx, describe_path
from ..models import outputs, FmtArgs, FmtArg
from .. import oracle, cfg
from .c02 import ctx, no_bad_events, UNIT_FACTORS
from .c20 import rec_hook, recs

LEVEL = "other"
EXPLANATION = (
    "R1 EXACT(decompose): abstract interpretation with division axioms over a symbolic canonical duration: the seven "
    "outputs are whole days, hours < 24, minutes < 60, seconds < 60, ms/us/ns < 1000, their weighted sum (oracle "
    "weights) is exactly |count|, the sign is negative iff the count is, and no float is involved (every output is an "
    "integer linear form). R2 unit-table chain: Display's unit strings, in order, are keys of the parser's UNITS "
    "table mapping to slot k; parse_duration passes slot k to the k-th parameter of compose_f64; that parameter goes "
    "through the TimeUnits method of the unit whose factor is output k's weight; all 25 documented spellings map to "
    "their unit's slot. R3 Display shape: all 705 path partitions of Display::fmt are explored with decompose "
    "uninterpreted: '-' iff sign = -1, '0 ns' iff the count is 0, component k printed as '{} {}' of (value k, unit k) "
    "iff value k > 0, single spaces between components only, 'day' vs 'days'. R4 serde goes through Display/FromStr. "
    "Value-level parsing of fractional values and offsets (float -> ns truncation) is C18's and not decided.")

WEIGHTS = [UNIT_FACTORS[u] for u in ("Day", "Hour", "Minute", "Second", "Millisecond", "Microsecond", "Nanosecond")]
LIMITS = [None, 24, 60, 60, 1000, 1000, 1000]
UNITS_ORACLE = {
    "d": 0, "days": 0, "day": 0, "h": 1, "hours": 1, "hour": 1, "hr": 1, "min": 2, "mins": 2, "minute": 2, "minutes": 2,
    "s": 3, "second": 3, "seconds": 3, "sec": 3, "ms": 4, "millisecond": 4, "milliseconds": 4, "μs": 5, "us": 5,
    "microsecond": 5, "microseconds": 5, "ns": 6, "nanosecond": 6, "nanoseconds": 6,
}
MAX_DAYS = 32768 * 36525 + 1
DISPLAY_UNITS = ["days", "h", "min", "s", "ms", "μs", "ns"]
METHODS = ["days", "hours", "minutes", "seconds", "milliseconds", "microseconds", "nanoseconds"]


def r1_decompose(chk, F):
    rule = "C11.R1"
    eng, D = ctx(F)
    fn = F.find1(self_ty="Duration", name="decompose", trait="")
    # E6: no float anywhere in decompose
    floaty = [cfg.callee_name(t["f"]) for bi, t in cfg.calls(fn) if any(x in cfg.callee_name(t["f"]) for x in ("to_unit", "to_seconds", "f64"))]
    for bi, si, s in cfg.stmts(fn):
        if s["k"] == "a" and s["r"]["op"] == "cast" and s["r"]["ck"] in ("FloatToInt", "IntToFloat"):
            floaty.append("cast %s" % s["r"]["ck"])
    chk.ob(rule, "Duration::decompose", "integer-arithmetic-only", not floaty, "E6: no f64 view of the duration", detail=floaty or None)
    finals, args = D.run(fn)
    n = 0
    for st in finals:
        if st.end != "return":
            continue
        d = eng.deref(st, args[0])
        T = D.total(d)
        r = st.ret
        if not (isinstance(r, Struct) and len(r.fs) == 8 and all(isinstance(x, Int) for x in r.fs)):
            chk.ob(rule, "Duration::decompose", "result-shape", False, detail=repr(r)[:300])
            continue
        n += 1
        rl = D.region_label(st, [("self.c", D.parts(d)[0])])
        sign = r.fs[0].lin
        comps = [x.lin for x in r.fs[1:]]
        wsum = Lin.const(0)
        for c, w in zip(comps, WEIGHTS):
            wsum = wsum + c.scale(w)
        neg = D.implies(st, T + 1, "<=")
        pos = D.implies(st, -T, "<=")
        if not (neg or pos):
            chk.ob(rule, "Duration::decompose", "sign-of-count-decided[%s]" % rl, False, detail=describe_path(eng, st))
            continue
        mag = -T if neg else T
        st2 = st.clone()
        D.close(st2, [wsum, mag])
        ok = D.implies_eq(st2, wsum, mag)
        chk.ob(rule, "Duration::decompose", "weighted-sum==|count|[%s]" % rl, ok, "linear form with division axioms",
               detail=None if ok else {"sum": repr(wsum)[:300], "magnitude": repr(mag)[:200], "path": describe_path(eng, st)}, sample=(n == 1))
        for k, (c, lim) in enumerate(zip(comps, LIMITS)):
            okr = D.implies(st2, -c, "<=") and (lim is None or D.implies(st2, c - (lim - 1), "<="))
            chk.ob(rule, "Duration::decompose", "range[%s]%s" % (METHODS[k], "<%d" % lim if lim else ">=0"), okr, "interval from division axioms",
                   detail=None if okr else {"bounds": eng.fm_bounds(st2, c)})
        oks = (D.implies(st, sign + 1, "==") if neg else D.implies(st, -sign, "<="))
        chk.ob(rule, "Duration::decompose", "sign-negative-iff-count-negative[%s]" % rl, oks, "decision table", detail=None if oks else repr(sign))
    no_bad_events(chk, rule, "Duration::decompose", finals, eng)
    chk.floor(rule, "decompose partitions", n, 3)


def r2_chain(chk, F):
    rule = "C11.R2"
    units = F.const("duration::parse::UNITS")["v"]["slice"]
    table = {}
    for e in units:
        s, idx = e["tuple"]
        table[s["str"]] = idx
    chk.floor(rule, "UNITS entries", len(table), 25)
    for sp, slot in UNITS_ORACLE.items():
        ok = table.get(sp) == slot
        chk.ob(rule, "UNITS", "%s->slot %d" % (sp, slot), ok, "decoded constant vs documented spellings", detail=None if ok else table.get(sp))
    extra = sorted(set(table) - set(UNITS_ORACLE))
    chk.ob(rule, "UNITS", "no-undocumented-spelling", not extra, "decoded constant", detail=extra or None)
    # longest-match hazard: a spelling that is a proper prefix of a later one must map to the same slot or come after it
    order = [e["tuple"][0]["str"] for e in units]
    bad = []
    for i, a in enumerate(order):
        for b in order[i + 1:]:
            if b.startswith(a) and table[a] != table[b]:
                bad.append((a, b))
    chk.ob(rule, "UNITS", "prefix-order-cannot-change-the-unit", not bad, "table scan (cmp_chars_to_str is a prefix comparison, first match wins)",
           detail=bad or None)
    # Display's unit strings in order are keys of the table with slot k.  Which strings Display prints for which component is decided
    # on its interpreted paths by C11.R3 (unit-string[k] == the documented spelling); here those spellings are looked up in the
    # reader's table - however Display holds them (array literal, tuple table, match)
    strs = list(DISPLAY_UNITS)
    ok = all(table.get(s_) == i_ + 1 for i_, s_ in enumerate(strs[1:])) and table.get("days") == 0 and table.get("day") == 0
    chk.ob(rule, "<Duration as Display>::fmt", "unit-strings-in-slot-order", ok, "Display's spellings (C11.R3) vs UNITS slots", detail=None if ok else strs)
    chk.ob(rule, "<Duration as Display>::fmt", "day/days-both-slot-0", table.get("day") == 0 and table.get("days") == 0, "UNITS")
    # parse_duration: compose_f64(1, decomposed[0], ..., decomposed[6])
    pd = F.free_fn("parse::parse_duration")
    cf = F.find1(self_ty="Duration", name="compose_f64", trait="")
    calls = [t for bi, t in cfg.calls(pd) if t["f"].get("fn_id") == cf["id"]]
    ok = len(calls) == 1
    if ok:
        t = calls[0]
        d0 = cfg.resolve(pd, t["args"][0])
        ok = d0[0] == "const" and d0[1].get("v") == 1
        idxs = []
        pdefs = cfg.unique_defs(pd)
        for a in t["args"][1:]:
            r = cfg.resolve(pd, a, pdefs)
            k = None
            if r[0] == "place":
                for e in r[1]["pj"]:
                    if isinstance(e, dict) and "cidx" in e:
                        k = e["cidx"]
                    elif isinstance(e, dict) and "idx" in e:
                        kk = pdefs.get(e["idx"])
                        if kk is not None and kk["op"] == "use" and "k" in kk["x"]:
                            k = kk["x"]["k"].get("v")
            idxs.append(k)
        ok = ok and idxs == list(range(7))
        chk.ob(rule, "parse_duration", "compose_f64(1,decomposed[0..6]-in-order)", ok, "argument flow", detail=idxs)
    else:
        chk.ob(rule, "parse_duration", "compose_f64(1,decomposed[0..6]-in-order)", False, detail="%d calls" % len(calls))
    # compose_f64: parameter k is converted with unit k and the seven conversions are summed (negated for a negative sign)
    ok, detail = compose_f64_semantics(F)
    chk.ob(rule, "Duration::compose_f64", "param-k-through-TimeUnits-method-k", ok, "interpreted: result == +/- sum of (param k x unit k)", detail=None if ok else detail)


_UNIT_OF_PARAM = ["Day", "Hour", "Minute", "Second", "Millisecond", "Microsecond", "Nanosecond"]


def compose_f64_semantics(F):
    """Duration::compose_f64 interpreted with Unit x f64 uninterpreted (recorded) and Duration +, neg exact: on every path the result
    is the sum of exactly seven conversions, parameter k (days .. nanoseconds) with unit k, each used once, negated iff sign < 0.
    How the sum is written (a chain of +, a fold over an array, a helper) is not prescribed.  -> (ok, detail)"""
    from ..epochalg import EpochAlg, scale_name
    from ..sym import Flt as _Flt
    eng, D = ctx(F)
    A = EpochAlg(F, eng, D)
    cf = F.find1(self_ty="Duration", name="compose_f64", trait="")
    um = F.find1(self_ty="Unit", name="mul", trait_ref="Mul<f64>")
    A.install(duration_algebra=True, opaque_conv=True)
    eng.hooks_by_id[um["id"]] = rec_hook(D, "unit*f64")
    try:
        finals, args = D.run(cf, interior=True)
    finally:
        A.uninstall()
        eng.hooks_by_id = {}
    problems = []
    nret = 0
    signs = set()
    for st in finals:
        if st.end != "return":
            problems.append("path ends in %s" % st.end)
            continue
        nret += 1
        rm = recs(st, "unit*f64")
        used = {}
        total = Lin.const(0)
        for a, res in rm:
            u = scale_name(eng, st, a[0])
            val = a[1]
            k = next((i_ for i_ in range(7) if val is args[1 + i_] or (isinstance(val, _Flt) and isinstance(args[1 + i_], _Flt) and val.t == args[1 + i_].t)), None)
            if k is None or u != _UNIT_OF_PARAM[k] or k in used:
                problems.append("conversion %s x %r is not parameter k with unit k (or used twice)" % (u, val))
                continue
            used[k] = res
            total = total + D.total(res)
        if sorted(used) != list(range(7)):
            problems.append("parameters converted: %s" % sorted(used))
            continue
        TR = D.total(st.ret)
        sg = args[0].lin
        neg_path = not D.feasible(st, [(-sg, "<=")])       # sign < 0 on this path
        pos_path = not D.feasible(st, [(sg + 1, "<=")])    # sign >= 0 on this path
        if not (neg_path or pos_path):
            problems.append("sign undecided on a path")
            continue
        signs.add(neg_path)
        st2 = st.clone()
        D.close(st2, [TR, total])
        want = -total if neg_path else total
        if TR is None or not D.implies_eq(st2, TR, want):
            problems.append("result is %r, expected %s%r" % (TR, "-" if neg_path else "", total))
    ok = not problems and nret >= 2 and signs == {True, False}
    return ok, sorted(set(problems))[:4] or {"return_paths": nret}


def r3_display(chk, F):
    rule = "C11.R3"
    eng, D = ctx(F)
    fn = F.find1(self_ty="Duration", name="fmt", trait_ref="Display")
    dec = F.find1(self_ty="Duration", name="decompose", trait="")
    tn = F.find1(self_ty="Duration", name="total_nanoseconds", trait="")
    eng.hooks_by_id = {dec["id"]: rec_hook(D, "decompose"), tn["id"]: rec_hook(D, "total")}
    eng.max_paths = 5000
    finals, args = D.run(fn)
    eng.hooks_by_id = {}
    eng.max_paths = 20000
    n = 0
    agg = {}

    def note(key, ok, st, extra=None):
        a = agg.setdefault(key, [0, 0, None])
        a[0] += 1
        if ok:
            a[1] += 1
        elif a[2] is None:
            a[2] = {"outputs": repr(outputs(st))[:500], "why": extra}

    for st in finals:
        if st.end != "return":
            continue
        n += 1
        outs = outputs(st)
        tot = recs(st, "total")
        decs = recs(st, "decompose")
        if not decs:
            # the zero branch: "0 ns" under total == 0
            ok = len(outs) == 1 and isinstance(outs[0][2], FmtArgs) and outs[0][2].pieces == [("lit", "0 ns")] and len(tot) == 1 and \
                isinstance(tot[0][1], Int) and not D.feasible(st, [(tot[0][1].lin, "!=")])
            note("zero=>'0 ns'", ok, st)
            continue
        tup = decs[0][1]
        sign = tup.fs[0].lin
        comps = [x.lin for x in tup.fs[1:]]
        okz = len(tot) == 1 and not D.feasible(st, [(tot[0][1].lin, "==")])
        note("decompose-branch=>count!=0", okz, st)
        pieces = list(outs)
        # leading minus
        has_minus = bool(pieces) and isinstance(pieces[0][2], FmtArgs) and pieces[0][2].pieces == [("lit", "-")]
        if has_minus:
            pieces = pieces[1:]
            note("'-'=>sign==-1", D.implies(st, sign + 1, "=="), st)
        else:
            note("no-'-'=>sign!=-1", not D.feasible(st, [(sign + 1, "==")]), st)
        # components and separators
        printed = []
        ok_shape = True
        expect_sep = False
        for p in pieces:
            fa = p[2]
            if not isinstance(fa, FmtArgs):
                ok_shape = False
                break
            if fa.pieces == [("lit", " ")]:
                if not expect_sep:
                    ok_shape = False
                    break
                expect_sep = False
                continue
            shape = [x[0] for x in fa.pieces]
            if shape == ["arg", "lit", "arg"] and fa.pieces[1][1] == " " and len(fa.args) == 2:
                if expect_sep:
                    ok_shape = False
                    break
                v, u = fa.args[0].val, fa.args[1].val
                k = None
                for i, c in enumerate(comps):
                    if isinstance(v, Int) and v.lin == c:
                        k = i
                ustr = u.s if isinstance(u, Str) else None
                printed.append((k, ustr))
                expect_sep = True
            else:
                ok_shape = False
                break
        note("'{} {}'-components-with-single-space-separators", ok_shape, st)
        if not ok_shape:
            continue
        ks = [k for k, _ in printed]
        note("components-in-decreasing-unit-order", ks == sorted(ks) and None not in ks and len(set(ks)) == len(ks), st)
        for k in range(7):
            if k in ks:
                note("printed=>value>0[%s]" % METHODS[k], D.implies(st, -comps[k] + 1, "<="), st)
                ustr = dict(printed)[k]
                if k == 0:
                    plural = D.implies(st, -comps[0] + 2, "<=")
                    single = D.implies(st, comps[0] - 1, "<=")
                    note("day-vs-days", (ustr == "days" and plural) or (ustr == "day" and single), st, ustr)
                else:
                    note("unit-string[%s]" % METHODS[k], ustr == DISPLAY_UNITS[k], st, ustr)
            else:
                note("omitted=>value==0[%s]" % METHODS[k], not D.feasible(st, [(-comps[k] + 1, "<=")]), st)
    for key, (tot_, okc, det) in sorted(agg.items()):
        chk.ob(rule, "<Duration as Display>::fmt", key, tot_ == okc, "E7 templates + decision table (%d partitions)" % tot_, detail=det)
    no_bad_events(chk, rule, "<Duration as Display>::fmt", finals, eng)
    chk.floor(rule, "Display partitions", n, 100)


def r4_serde(chk, F):
    rule = "C11.R4"
    ser = [f for f in F.local_fns(True) if f.get("name") == "serialize" and "duration::Duration" in f["key"]]
    de = [f for f in F.local_fns(True) if f.get("name") == "deserialize" and "duration::Duration" in f["key"]]
    ok = len(ser) == 1 and any("ToString" in cfg.callee_name(t["f"]) and "to_string" in cfg.callee_name(t["f"]) for bi, t in cfg.calls(ser[0])) and \
        any("serialize_str" in cfg.callee_name(t["f"]) for bi, t in cfg.calls(ser[0]))
    chk.ob(rule, "<Duration as Serialize>::serialize", "serialize_str(self.to_string())", ok, "E5 delegation (to_string = Display)")
    ok = len(de) == 1 and any("FromStr" in cfg.callee_name(t["f"]) and "from_str" in cfg.callee_name(t["f"]) and "Duration" in cfg.callee_name(t["f"])
                              for bi, t in cfg.calls(de[0]))
    chk.ob(rule, "<Duration as Deserialize>::deserialize", "Duration::from_str(string)", ok, "E5 delegation")


def r5_text_roundtrip(chk, F, tier):
    """Duration::from_str interpreted on the texts Display writes (shape decided by R3: optional '-', then '<value> <unit>'
    for the non-zero components in order, single spaces; template-string domain of C10).  On every path the reader must reach
    compose_f64 exactly once with component k = the value of the digit run written for unit k (0 for the others), and return
    that duration, negated iff the text starts with '-' - in particular the [+-]HH:MM offset reader, tried first for signed
    texts, must not accept a duration's text."""
    from .c10 import Reader
    from ..tstr import render as trender
    from ..sym import St as _St, Ref as _Ref, Flt as _Flt
    from ..lin import implies as _implies
    rule = "C11.R5"
    R = Reader(F)
    eng, D = R.eng, R.D
    from_str = F.find1(self_ty="Duration", name="from_str", trait_ref="FromStr")
    cf = F.find1(self_ty="Duration", name="compose_f64", trait="")
    neg = F.find1(self_ty="Duration", name="neg", trait_ref="Neg")
    units = DISPLAY_UNITS
    shapes = []
    lens = [1, 2, 3]
    for k in range(7):
        for ln in (lens + ([5] if k == 0 else [])):
            shapes.append([(k, ln)])
    pairs = [(0, 1), (1, 2), (2, 3), (3, 4), (4, 5), (5, 6), (0, 6), (1, 5)]
    for a, b in pairs:
        for la, lb in ((1, 1), (2, 3)) if tier != "thorough" else ((1, 1), (1, 2), (2, 1), (2, 2), (2, 3), (3, 3)):
            shapes.append([(a, la), (b, lb)])
    shapes.append([(k, 1) for k in range(7)])
    shapes.append([(k, 2) for k in range(7)])
    n = 0
    for shape in shapes:
        for sign in ("", "-"):
            eng.reset()
            R.T.n = 0
            st = _St()
            els = R.T.lit(sign)
            vals = {}
            for i, (k, ln) in enumerate(shape):
                if i:
                    els += R.T.lit(" ")
                d, val = R.T.digits("v%d" % k, ln)
                els += d
                vals[k] = val
                # Display prints no leading zero and only non-zero components
                eng.add_cons(st, [(-(d[0][1]) + 49, "<=")])
                els += R.T.lit(" " + units[k])
            tmpl = R.T.mk(els)
            R.install()
            eng.hooks_by_id[cf["id"]] = rec_hook(D, "compose_f64")
            eng.hooks_by_id[neg["id"]] = rec_hook(D, "neg")
            finals = eng.run(from_str, args=[_Ref(val=tmpl)], st=st)
            R.uninstall()
            n += 1
            problems = []
            nok = 0
            for s2 in finals:
                if s2.end != "return":
                    problems.append("path ends in %s" % s2.end)
                    continue
                calls = recs(s2, "compose_f64")
                r = s2.ret
                rn = eng.types[r.tid]["variants"][r.vi]["name"] if isinstance(r, Enum) else None
                if rn != "Ok":
                    problems.append("the text is rejected (%s)" % rn)
                    continue
                if len(calls) != 1:
                    problems.append("accepted without composing the parsed components (%d compose_f64 calls): read as a time-zone offset" % len(calls))
                    continue
                a, res = calls[0]
                sg = a[0]
                if not (isinstance(sg, Int) and sg.lin.is_const() and sg.lin.k == 1):
                    problems.append("compose sign argument is %r" % (sg,))
                for k in range(7):
                    got = a[k + 1]
                    if k in vals:
                        lin = eng.flt_int(s2, got) if isinstance(got, _Flt) and got.t[0] == "i2f" else None
                        if lin is None or not (lin.key() == vals[k].key() or _implies(s2.cons, lin - vals[k], "==", s2.bnd)):
                            problems.append("component %d (%s) is %r, expected the value written" % (k, units[k], got))
                    else:
                        if not (isinstance(got, _Flt) and got.t == ("c", 0.0)):
                            problems.append("component %d (%s) is %r, expected 0" % (k, units[k], got))
                negs = recs(s2, "neg")
                final = r.fs[0]

                def same(x, y):
                    tx, ty = D.total(x), D.total(y)
                    return x is y or (tx is not None and ty is not None and tx.key() == ty.key())
                if sign == "-":
                    if not (len(negs) == 1 and same(negs[0][0][0], res) and same(final, negs[0][1])):
                        problems.append("result is not the negation of the composed duration")
                else:
                    if negs or not same(final, res):
                        problems.append("result is not the composed duration")
                nok += 1
            ok = not problems and nok >= 1
            chk.ob(rule, "<Duration as FromStr>::from_str", "from_str(%r)->compose(components-in-role-order)%s" % (trender(tmpl.els) if hasattr(tmpl, "els") else tmpl.s, ",negated" if sign else ""),
                   ok, "reader interpreted on the Display template (%d path(s))" % len(finals), detail=None if ok else {"problems": sorted(set(problems))[:4]}, sample=(n == 1))
    chk.floor(rule, "Display templates run through the reader", n, 70)


def r6_subdivision(chk, F):
    """subdivision(unit) hands out component k of the same decomposition, as a duration of that unit: the sibling accessor must
    keep the roles decompose() assigns (i64 * Unit taken as the exact product, C18.R1)."""
    from .c10 import Reader
    from ..sym import St as _St, Ref as _Ref
    rule = "C11.R6"
    R = Reader(F)
    eng, D = R.eng, R.D
    fn = F.find1(self_ty="Duration", name="subdivision", trait="")
    dec = F.find1(self_ty="Duration", name="decompose", trait="")
    want = {"Day": 1, "Hour": 2, "Minute": 3, "Second": 4, "Millisecond": 5, "Microsecond": 6, "Nanosecond": 7, "Week": None, "Century": None}
    n = 0
    for uname, k in want.items():
        eng.reset()
        R.install()
        def h_dec(e, st_, c, a, dest_tid, t):
            # decompose()'s outputs with the ranges C11.R1 establishes for them
            v = e.fresh(dest_tid, ("decompose", tuple(e.term(x) for x in a)))
            lims = [None, MAX_DAYS, 23, 59, 59, 999, 999, 999]
            e.add_cons(st_, [(v.fs[i].lin - lim, "<=") for i, lim in enumerate(lims) if lim is not None and isinstance(v.fs[i], Int)])
            st_.trace.append(("rec", "decompose", list(a), v))
            return [(st_, v)]
        eng.hooks_by_id[dec["id"]] = h_dec
        st = _St()
        eng._pending_cells = []
        dtid = fn["locals"][1]["ty"]
        dv = eng.sym(dtid, "self")
        for k2, inner in eng._pending_cells:
            st.store[k2] = inner
        u = Enum(R.unit_tid, eng.variant_index(R.unit_tid, uname), ())
        finals = eng.run(fn, args=[dv, u], st=st)
        R.uninstall()
        n += 1
        ok = bool(finals)
        why = []
        for s2 in finals:
            if s2.end != "return":
                ok = False
                why.append("path ends in %s" % s2.end)
                continue
            r = s2.ret
            nm = eng.types[r.tid]["variants"][r.vi]["name"] if isinstance(r, Enum) else None
            if k is None:
                if nm != "None":
                    ok = False
                    why.append("returns %s" % nm)
                continue
            calls = recs(s2, "decompose")
            if nm != "Some" or len(calls) != 1:
                ok = False
                why.append("returns %s after %d decompositions" % (nm, len(calls)))
                continue
            comp = calls[0][1].fs[k]
            T = D.total(r.fs[0])
            st2 = s2.clone()
            D.close(st2, [T])
            if not (isinstance(comp, Int) and D.implies_eq(st2, T, comp.lin.scale(UNIT_FACTORS[uname]))):
                ok = False
                why.append("is not output %d of decompose() times the unit" % k)
        chk.ob(rule, "Duration::subdivision", "[%s]->%s" % (uname, "None" if k is None else "decompose().%d*%s" % (k, uname)), ok, "finite map + operand flow",
               detail=None if ok else sorted(set(why)))
    chk.floor(rule, "units", n, 9)


def run(chk, F, tier):
    r1_decompose(chk, F)
    r2_chain(chk, F)
    r3_display(chk, F)
    r4_serde(chk, F)
    r5_text_roundtrip(chk, F, tier)
    r6_subdivision(chk, F)
    eng, D = ctx(F)
    chk.extra["engine_stats"] = dict(eng.stats)
    chk.assumptions.append("fractional values / [+-]HH:MM[:SS] offsets 'with the value they denote' go through f64: C18's clauses, not decided")
