"""C07 - ET and TDB match the NAIF and ESA closed forms (partly decided: constants and formula shape)."""
import math
from ..sym import Engine, Int, Bool, Struct, Enum, SymEnum, Ref, Opq, Flt, St, c_lin
from ..lin import Lin
from ..dur import DurCtx, describe_path
from ..epochalg import EpochAlg, same_scale, scale_name
from .. import oracle, cfg
from ..build import REPO
from .c02 import ctx, no_bad_events
from .c05 import fix_enum
from .c06 import fbits_to_float
from .c20 import rec_hook, recs

LEVEL = "other"
EXPLANATION = (
    "R1 constants: NAIF_K/EB/M0/M1 and the 32.184 s offset equal the values parsed from naif0012.txt; the TDB constants and "
    "the J2000 offset equal the statement's. R2 formula shape: delta_et_tai and inner_g are evaluated to real-valued "
    "expression DAGs (floats folded with IEEE doubles, sin uninterpreted) and compared, modulo commutativity, with 32.184 + "
    "K sin(M + EB sin M), M = M0 + M1 t and 0.001658 sin(g + 0.0167 sin g), g = 357.528 deg + 1.990910018065731e-7 t; in "
    "to_time_scale both directions of each scale apply the same correction function with opposite signs, the J2000 offset "
    "with opposite signs and the 32.184 s shift of the argument mirrored, and the correction is evaluated at the epoch's own "
    "seconds plus a bounded offset (interval evaluation of the refinement loop, |sin| <= 1). R3 numeric clauses as a static "
    "error budget: from the closed-form trees an interval / rounding-error / derivative analysis (hv/fperr.py) gives the "
    "Lipschitz constant L = 3.35e-10 s/s, the float evaluation error eps = 4e-14 s and the amplitude; with the offsets of R2, "
    "the rounding of to_seconds (C18.R6) and the truncation to whole nanoseconds (C18.R2) the budget proves |applied "
    "correction - closed form(t)| <= 30 ns (bound derived: 11.8 ns, t read as the seconds of either scale), TAI -> ET/TDB -> "
    "TAI within 20 ns (11.8 / 1.0 ns) and order preserved beyond 100 ns (margin 99 ns), for |t| <= 10 000 years. Assumed: "
    "IEEE-754 binary64 arithmetic and a platform sin() accurate to 2^-50 absolutely.")

COMM = ("Add", "Mul")
X_MAX = 10_000 * 36525 * 864 + 10 ** 6  # the statement's span: +/-10 000 years of J2000 in seconds, plus slack for shifts


def norm(t):
    """Normal form of a float term modulo commutativity of + and *."""
    if not isinstance(t, tuple):
        return t
    if t[0] == "op" and t[1] in COMM:
        a, b = norm(t[2]), norm(t[3])
        if repr(b) < repr(a):
            a, b = b, a
        return ("op", t[1], a, b)
    if t[0] in ("op", "op1"):
        return (t[0], t[1]) + tuple(norm(x) for x in t[2:])
    return t


def consts_of(t, out=None):
    if out is None:
        out = []
    if isinstance(t, tuple):
        if t and t[0] == "c":
            out.append(t[1])
        else:
            for x in t:
                consts_of(x, out)
    return out


def r1_constants(chk, F):
    rule = "C07.R1"
    k = oracle.naif_kernel(REPO)
    for name, want in (("NAIF_K", k["K"]), ("NAIF_EB", k["EB"]), ("NAIF_M0", k["M"][0]), ("NAIF_M1", k["M"][1])):
        got = fbits_to_float(F.const("epoch::" + name)["v"])
        chk.ob(rule, name, "==naif0012.txt", got == want, "decoded constant vs kernel file", detail={"code": got, "kernel": want}, sample=True)
    tt = F.const("epoch::TT_OFFSET_MS")["v"]
    chk.ob(rule, "TT_OFFSET_MS", "==DELTA_T_A(32.184 s)", tt == round(k["DELTA_T_A"] * 1000) and tt * 10 ** 6 == oracle.TT_MINUS_TAI_NS,
           "decoded constant vs kernel file and statement", detail=tt)
    et = F.const("ET_EPOCH_S")["v"]
    chk.ob(rule, "ET_EPOCH_S", "==3155716800 s", et == oracle.J2000_S_AFTER_1900, "decoded constant vs statement", detail=et)


SHAPES = {}


def r2_shapes(chk, F):
    rule = "C07.R2"
    SHAPES.clear()
    eng, D = ctx(F)
    k = oracle.naif_kernel(REPO)
    K, EB, M0, M1 = k["K"], k["EB"], k["M"][0], k["M"][1]
    fn = F.find1(self_ty="Epoch", name="delta_et_tai", trait="")
    finals, args = D.run(fn)
    t = args[0].t
    M = ("op", "Add", ("c", M0), ("op", "Mul", t, ("c", M1)))
    E = ("op", "Add", M, ("op", "Mul", ("c", EB), ("op1", "sin", M)))
    tt = 32.0 + 184000000.0 * 1e-9
    want = ("op", "Add", ("c", tt), ("op", "Mul", ("c", K), ("op1", "sin", E)))
    for st in finals:
        r = st.ret
        ok = st.end == "return" and isinstance(r, Flt) and _match(norm(r.t), norm(want))
        if ok:
            SHAPES["delta_et_tai"] = (r.t, t[1])
        chk.ob(rule, "Epoch::delta_et_tai", "32.184+K*sin(M+EB*sin(M)),M=M0+M1*t", ok, "expression DAG modulo commutativity",
               detail=None if ok else {"got": repr(norm(r.t) if isinstance(r, Flt) else r)[:600], "want": repr(norm(want))[:600]}, sample=True)
    no_bad_events(chk, rule, "Epoch::delta_et_tai", finals, eng)
    fn = F.find1(self_ty="Epoch", name="inner_g", trait="")
    finals, args = D.run(fn)
    t = args[0].t
    g0 = (2 * math.pi) / 360.0 * 357.528
    g = ("op", "Add", ("c", g0), ("op", "Mul", ("c", 1.990910018065731e-7), t))
    want = ("op", "Mul", ("c", 1.658e-3), ("op1", "sin", ("op", "Add", g, ("op", "Mul", ("c", 1.67e-2), ("op1", "sin", g)))))
    for st in finals:
        r = st.ret
        ok = st.end == "return" and isinstance(r, Flt) and _match(norm(r.t), norm(want))
        if ok:
            SHAPES["inner_g"] = (r.t, t[1])
        chk.ob(rule, "Epoch::inner_g", "0.001658*sin(g+0.0167*sin(g)),g=357.528deg+1.990910018065731e-7*t", ok,
               "expression DAG modulo commutativity", detail=None if ok else {"got": repr(norm(r.t) if isinstance(r, Flt) else r)[:600], "want": repr(norm(want))[:600]})
    no_bad_events(chk, rule, "Epoch::inner_g", finals, eng)


def _match(a, b):
    """structural equality with constants compared exactly (1 ulp slack for folded products)"""
    if isinstance(a, tuple) and isinstance(b, tuple):
        if len(a) != len(b):
            return False
        if a and a[0] == "c" and b and b[0] == "c":
            x, y = a[1], b[1]
            return x == y or abs(x - y) <= abs(y) * 4.5e-16
        return all(_match(x, y) for x, y in zip(a, b))
    return a == b


def affine_interval(t, memo=None, known=None):
    """Float term -> (base symbol or None, coefficient of it, lo, hi): the term as coef*base + [lo, hi] by interval evaluation
    (|sin| <= 1); None when the term leaves that shape (two different symbols, a symbol multiplied by a non-constant, ...)."""
    if memo is None:
        memo = {}
    k = id(t)
    if k in memo:
        return memo[k]

    def mulc(iv, c):
        a, b = iv[2] * c, iv[3] * c
        return (iv[0], iv[1] * c, min(a, b), max(a, b))
    r = None
    if isinstance(t, tuple) and t:
        if t[0] == "c" and isinstance(t[1], float):
            r = (None, 0.0, t[1], t[1])
        elif t[0] == "sym" and known and t[1] in known:
            r = (None, 0.0, known[t[1]][0], known[t[1]][1])
        elif t[0] == "sym":
            r = (t[1], 1.0, 0.0, 0.0)
        elif t[0] == "op1" and t[1] in ("sin", "cos"):
            r = (None, 0.0, -1.0, 1.0)
        elif t[0] == "op" and t[1] in ("Add", "Sub") and len(t) == 4:
            x, y = affine_interval(t[2], memo, known), affine_interval(t[3], memo, known)
            if x is not None and y is not None and (x[0] is None or y[0] is None or x[0] == y[0]):
                sg = 1.0 if t[1] == "Add" else -1.0
                lo = x[2] + (y[2] if sg > 0 else -y[3])
                hi = x[3] + (y[3] if sg > 0 else -y[2])
                r = (x[0] if x[0] is not None else y[0], x[1] + sg * y[1], lo, hi)
        elif t[0] == "op" and t[1] == "Mul" and len(t) == 4:
            x, y = affine_interval(t[2], memo, known), affine_interval(t[3], memo, known)
            if x is not None and y is not None:
                if x[1] == 0.0 and x[2] == x[3]:
                    r = mulc(y, x[2])
                elif y[1] == 0.0 and y[2] == y[3]:
                    r = mulc(x, y[2])
                elif x[1] == 0.0 and y[1] == 0.0:
                    ps = [a * b for a in (x[2], x[3]) for b in (y[2], y[3])]
                    r = (None, 0.0, min(ps), max(ps))
    memo[k] = r
    return r


EVALPT = {}


def r2_directions(chk, F):
    rule = "C07.R2"
    EVALPT.clear()
    eng, D = ctx(F)
    A = EpochAlg(F, eng, D)
    fn = F.find1(self_ty="Epoch", name="to_time_scale", trait="")
    det = F.find1(self_ty="Epoch", name="delta_et_tai", trait="")
    ing = F.find1(self_ty="Epoch", name="inner_g", trait="")
    um = F.find1(self_ty="Unit", name="mul", trait_ref="Mul<f64>")
    ts_ = F.find1(self_ty="Duration", name="to_seconds", trait="")
    tt = 32.0 + 184000000.0 * 1e-9
    J = oracle.J2000_S_AFTER_1900 * oracle.NS
    TTNS = oracle.TT_MINUS_TAI_NS
    info = {}
    cells = 0
    for src, dst, which in (("ET", "TAI", "delta_et_tai"), ("TAI", "ET", "delta_et_tai"), ("TDB", "TAI", "inner_g"), ("TAI", "TDB", "inner_g")):
        def setup(st, args, src=src, dst=dst):
            ep = eng.deref(st, args[0])
            fix_enum(eng, st, ep.fs[1], src)
            fix_enum(eng, st, args[1], dst)
            return [st]
        A.install(duration_algebra=True, opaque_conv=False)
        eng.hooks_by_id[det["id"]] = rec_hook(D, "delta_et_tai")
        eng.hooks_by_id[ing["id"]] = rec_hook(D, "inner_g")
        eng.hooks_by_id[um["id"]] = rec_hook(D, "unit*f64", skip_const=True)
        eng.hooks_by_id[ts_["id"]] = rec_hook(D, "to_seconds", skip_const=True)
        eng.max_steps = 20000
        finals, args = D.run(fn, extra=setup, interior=True)
        eng.max_steps = 4000
        A.uninstall()
        cells += 1
        inst = "Epoch::to_time_scale[%s->%s]" % (src, dst)
        nret = 0
        for st in finals:
            if st.end != "return":
                continue
            nret += 1
            ep = eng.deref(st, args[0])
            corr = recs(st, which)
            muls = [m for m in recs(st, "unit*f64") if scale_name(eng, st, m[0][0]) == "Second"]
            res = st.ret
            TR = D.total(res.fs[0]) if isinstance(res, Struct) else None
            T0 = D.total(ep.fs[0])
            if which == "delta_et_tai":
                # the correction applied is the *last* delta_et_tai(..) value, converted with Unit::Second
                okc = len(corr) >= 1 and len(muls) == 1 and muls[0][0][1] is corr[-1][1]
                chk.ob(rule, inst, "applies-delta_et_tai(..)*Unit::Second", okc, "E5 operand flow", detail=None if okc else {"calls": len(corr), "muls": len(muls)})
                if not okc:
                    continue
                L = D.total(muls[0][1])
                arg = corr[-1][0][0]
                shift = -tt if src == "ET" else tt
                oks = isinstance(arg, Flt) and arg.t[0] == "op" and ((arg.t[1] == "Sub" and arg.t[3] == ("c", tt) and src == "ET") or
                                                                      (arg.t[1] == "Add" and _match(norm(arg.t)[2:], norm(("op", "Add", ("c", tt), arg.t[2] if arg.t[3] == ("c", tt) else arg.t[3]))[2:]) and src == "TAI"))
                chk.ob(rule, inst, "argument-shifted-by-%s32.184s" % ("-" if src == "ET" else "+"), oks, "float term shape (mirrored shift)",
                       detail=None if oks else repr(arg)[:300])
                # where the correction is evaluated: the epoch's own seconds plus a bounded offset (the shift and the periodic terms
                # of the refinement loop).  An evaluation point off by d seconds changes the correction by L*d (3.4e-10 s per
                # second): how large the offset may be is decided by the error budgets of C07.R3, not here.
                ai = affine_interval(arg.t) if isinstance(arg, Flt) else None
                oke = ai is not None and ai[0] is not None and abs(ai[1] - 1.0) < 1e-12 and math.isfinite(ai[2]) and math.isfinite(ai[3])
                chk.ob(rule, inst, "correction-evaluated-at-own-seconds+bounded-offset", oke, "interval evaluation of the float term (|sin| <= 1)",
                       detail={"offset": [ai[2], ai[3]]} if oke else {"affine_interval": ai})
                EVALPT.setdefault((src, dst), []).append(ai if oke else None)
                exp = T0 - L + J if src == "ET" else T0 + L - J
            else:
                okc = len(corr) >= 1 and len(muls) == 1 and muls[0][0][1] is corr[-1][1]
                chk.ob(rule, inst, "applies-inner_g(..)*Unit::Second+32.184s", okc, "E5 operand flow", detail=None if okc else {"calls": len(corr), "muls": len(muls)})
                if not okc:
                    continue
                L = D.total(muls[0][1]) + TTNS
                arg = corr[-1][0][0]
                if src == "TDB":
                    tsr = recs(st, "to_seconds")
                    oks = isinstance(arg, Flt) and len(tsr) >= 1 and arg.t == tsr[0][1].t
                    chk.ob(rule, inst, "argument=seconds-since-J2000-in-TDB", oks, "float term shape", detail=None if oks else repr(arg)[:300])
                else:
                    oks = isinstance(arg, Flt) and arg.t[0] == "op" and arg.t[1] == "Add" and ("c", tt) in (arg.t[2], arg.t[3])
                    chk.ob(rule, inst, "argument-shifted-by-+32.184s", oks, "float term shape", detail=None if oks else repr(arg)[:300])
                known = {}
                if "inner_g" in SHAPES:
                    from .. import fperr
                    g = fperr.analyse_iv(SHAPES["inner_g"][0], {SHAPES["inner_g"][1]: (-X_MAX, X_MAX)})
                    for _a, _r in corr:
                        if isinstance(_r, Flt) and _r.t[0] == "sym":
                            known[_r.t[1]] = (-float(g.cmag), float(g.cmag))
                ai = affine_interval(arg.t, None, known) if isinstance(arg, Flt) else None
                EVALPT.setdefault((src, dst), []).append(ai if ai is not None and ai[0] is not None and abs(ai[1] - 1.0) < 1e-12 else None)
                exp = T0 - L + J if src == "TDB" else T0 + L - J
            st2 = st.clone()
            D.close(st2, [TR, exp])
            ok = TR is not None and D.implies_eq(st2, TR, exp)
            chk.ob(rule, inst, "result=self%scorrection%sJ2000" % (("-", "+") if src != "TAI" else ("+", "-")), ok,
                   "Duration-level linear form (opposite signs in the two directions)", detail=None if ok else {"result": repr(TR)[:300], "expected": repr(exp)[:300]})
        chk.ob(rule, inst, "returns", nret >= 1, "paths", detail=nret)
        no_bad_events(chk, rule, inst, finals, eng)
    chk.floor(rule, "ET/TDB direction cells", cells, 4)
    # both ET and TDB count from J2000 = prime_epoch_offset (C05.R3 checks its value)


def r3_budget(chk, F):
    """C07.R3: the three numeric clauses as a static error budget.  Inputs, all derived from the code by the rules above: the
    closed-form trees (R2 shapes) -> Lipschitz constant L, float evaluation error eps and amplitude A by interval / rounding-error
    analysis (hv.fperr.analyse_iv; sin assumed accurate to 2^-50 absolutely); the offset [lo, hi] between the point where each
    direction evaluates the correction and the epoch's own seconds (R2 directions, interval evaluation of the refinement loop);
    the rounding of to_seconds (C18.R6: <= 8u|x|) and the truncation of seconds -> Duration (C18.R1/R2: trunc(fl(q*1e9)))."""
    from fractions import Fraction as Q
    from .. import fperr
    rule = "C07.R3"
    u = fperr.U
    tt = Q(32184, 1000)
    NS = Q(1, 10 ** 9)
    TS = 8 * u * X_MAX                      # own seconds as a double
    TR = NS + u * 33                        # seconds -> whole nanoseconds, truncated (value about 32.2 s)
    fam = {"ET": "delta_et_tai", "TDB": "inner_g"}
    n = 0
    for X, which in fam.items():
        if which not in SHAPES:
            chk.ob(rule, "Epoch::%s" % which, "closed-form-tree-available", False, "R2 shape rule failed: no tree to analyse")
            continue
        tree, leaf = SHAPES[which]
        try:
            iv = fperr.analyse_iv(tree, {leaf: (-X_MAX, X_MAX)})
        except fperr.NotAnalysable as e:
            chk.ob(rule, "Epoch::%s" % which, "closed-form-tree-analysable", False, "rounding-error analysis", detail=str(e)[:300])
            continue
        L, eps = iv.lip, iv.err
        A = max(abs(iv.hi - tt), abs(iv.lo - tt)) if X == "ET" else iv.mag   # |correction - 32.184 s|
        offs = {}
        for cell in ((X, "TAI"), ("TAI", X)):
            pts = EVALPT.get(cell) or [None]
            if any(p is None for p in pts):
                chk.ob(rule, "Epoch::to_time_scale[%s->%s]" % cell, "evaluation-point=own-seconds+[lo,hi]", False,
                       "interval evaluation of the float term", detail="the argument of the correction is not (own seconds) + a bounded offset on some path")
                continue
            offs[cell] = (Q(min(p[2] for p in pts)) - TS, Q(max(p[3] for p in pts)) + TS)
        for cell, (lo, hi) in offs.items():
            inst = "Epoch::to_time_scale[%s->%s]" % cell
            # (a) accuracy against the statement's closed form, t read either as the epoch's own seconds or as the other scale's
            sg = 1 if cell[0] == X else -1      # other seconds = own -/+ (32.184 + a), |a| <= A
            d1 = max(abs(lo), abs(hi))
            d2 = max(abs(lo + sg * tt - A), abs(hi + sg * tt + A))
            acc = L * max(d1, d2) + eps + TR
            ok = acc <= 30 * NS
            chk.ob(rule, inst, "|applied-correction - closed-form(t)| <= 30ns", ok, "error budget: L*|evaluation point - t| + eps + truncation",
                   detail={"bound_ns": round(float(acc / NS), 3), "L": float(L), "offset": [float(lo), float(hi)], "eps": float(eps)})
            # (c) order of instants more than 100 ns apart
            gap = 100 * NS
            margin = gap - (L * (gap + (hi - lo)) + 2 * eps + TR)
            chk.ob(rule, inst, "order-preserved-beyond-100ns", margin > 0, "error budget: gap - L*(gap + offset spread) - 2 eps - truncation > 0",
                   detail={"margin_ns": round(float(margin / NS), 3)})
            n += 1
        if len(offs) == 2:
            # (b) uniform -> X -> uniform
            (lo2, hi2), (lo1, hi1) = offs[(X, "TAI")], offs[("TAI", X)]
            dr = max(abs(lo1 - hi2 - tt - A), abs(hi1 - lo2 - tt + A + TR))
            rt = L * dr + 2 * eps + TR
            ok = rt <= 20 * NS
            chk.ob(rule, "Epoch::to_time_scale[TAI->%s->TAI]" % X, "round-trip <= 20ns", ok,
                   "error budget: L*|forward point - backward point| + 2 eps + truncation", detail={"bound_ns": round(float(rt / NS), 3)})
    chk.floor(rule, "direction cells with an error budget", n, 4)


def run(chk, F, tier):
    r1_constants(chk, F)
    r2_shapes(chk, F)
    r2_directions(chk, F)
    r3_budget(chk, F)
    eng, D = ctx(F)
    chk.extra["engine_stats"] = dict(eng.stats)
    chk.assumptions.append("IEEE-754 binary64 round-to-nearest arithmetic; the platform's sin() is accurate to 2^-50 (absolute) on |x| <= 1e5")
    chk.assumptions.append("what the refinement iteration converges to is not examined: only how far it can move the evaluation point (interval bound)")
    chk.assumptions.append("Duration arithmetic exact (C01/C04), to_seconds within 8u (C18.R6), Unit::Second x f64 = trunc(fl(q*1e9)) (C18.R1/R2)")
