"""C08 - Gregorian date -> Epoch: exact day count, valid dates accepted, invalid rejected."""
from ..sym import Engine, Int, Bool, Struct, Enum, SymEnum, Ref, Opq, Flt, Arr, St, c_lin, c_and, c_or, c_not, TRUE, FALSE, dnf
from ..lin import Lin
from ..dur import DurCtx, describe_path
from ..epochalg import EpochAlg, same_scale, scale_name
from .. import oracle, cfg
from ..build import REPO
from .c02 import ctx, no_bad_events
from .c20 import rec_hook, recs
from .c03 import ordering_name, bool_paths

LEVEL = "other"
EXPLANATION = (
    "R1: is_gregorian_valid is explored over symbolic fields; every path returning true must imply the accepted "
    "region of the statement (month 1..12, day 1..month length with the 4/100/400 rule on the path's own residue "
    "atoms, hour <= 24, minute <= 59, second <= 60 and second = 60 only at 23:59 of 30 June / 31 December of a year "
    "in the IERS table, ns <= 1e9) and every path returning false must be disjoint from the strictly valid region. "
    "R2: month-length map, both cumulative-day constants (prefix sums), the leap-year predicate and the "
    "january/july leap-second year sets vs the IERS rows. R3: maybe_from_gregorian is explored with the year loop "
    "replaced by zero and by one symbolic iteration (base case and inductive step): the result must be "
    "365*(y-1900) d [+/- 1 d iff the loop year is leap] + cumulative days of the month + (day-1) d + h,m,s,ns "
    "(-1 s for second 60) - gregorian_epoch_offset(scale), Err whenever the validity predicate is false, with the "
    "loop ranges 1900..y / y..1900. R4: no panic on that cone. That the loop's *sum* equals days-from-civil for "
    "every year is an inductive numeric fact: its ingredients are pinned here, the sum is not computed.")

D_NS = oracle.DAY_NS
MLEN = [31, 28, 31, 30, 31, 30, 31, 31, 30, 31, 30, 31]


def iers_year_sets():
    naif = oracle.naif_kernel(REPO)["DELTA_AT"]
    jan = set()
    jul = set()
    # every row of the table, including the first one (1972-01-01, 10 s): the statement only demands rejection of
    # second = 60 on dates that do not immediately precede an entry of the table
    for _, (y, m, d) in naif:
        if m == 1:
            jan.add(y)
        elif m == 7:
            jul.add(y)
    return jan, jul


def leap_pair(eng, year_lin):
    """(leap, not leap) as conditions that carry the arithmetic facts tying the three remainders to the year and to one another
    (y = k*q + r with the sign of the truncating remainder; y % 400 = 100 j + y % 100; y % 100 = 4 i + y % 4).  With them a path
    that never computed one of the remainders - a nested `if y % 100 == 0 { y % 400 == 0 } else { y % 4 == 0 }` - is judged as
    completely as one that tested all three."""
    x = year_lin
    int_lo, int_hi = -(1 << 31), (1 << 31) - 1

    def at(kind, k):
        if kind == "tdiv":
            return eng.atom("tdiv(%r,%d)" % (x, k), int_lo, int_hi, "tdiv", (x, k))
        return eng.atom("trem(%r,%d)" % (x, k), -(k - 1), k - 1, "trem", (x, k))
    r = {k: at("trem", k) for k in (4, 100, 400)}
    q = {k: at("tdiv", k) for k in (4, 100, 400)}
    ji = eng.atom("remlink(%s,%s)" % (r[100].name, r[4].name), -24, 24, "remlink", (Lin.atom(r[100]), Lin.atom(r[4])))
    jk = eng.atom("remlink(%s,%s)" % (r[400].name, r[100].name), -3, 3, "remlink", (Lin.atom(r[400]), Lin.atom(r[100])))
    common = TRUE
    for k in (4, 100, 400):
        common = c_and(common, c_lin("eq", x - Lin({q[k]: k, r[k]: 1})))
    common = c_and(common, c_lin("eq", Lin.atom(r[100]) - Lin({ji: 4, r[4]: 1})))
    common = c_and(common, c_lin("eq", Lin.atom(r[400]) - Lin({jk: 100, r[100]: 1})))
    pos = c_lin("ge", x)
    neg = c_lin("lt", x)
    for a in list(r.values()) + [ji, jk]:
        pos = c_and(pos, c_lin("ge", Lin.atom(a)))
        neg = c_and(neg, c_lin("le", Lin.atom(a)))
    ax = c_and(common, c_or(pos, neg))
    L = leap_cond(eng, year_lin)
    return c_and(ax, L), c_and(ax, c_not(L))


def leap_cond(eng, year_lin):
    """Oracle leap-year predicate on the truncating-remainder atoms of the given year form."""
    def rem(k):
        lo, hi = -(k - 1), k - 1
        return Lin.atom(eng.atom("trem(%r,%d)" % (year_lin, k), lo, hi, "trem", (year_lin, k)))
    r4, r100, r400 = rem(4), rem(100), rem(400)
    return c_or(c_and(c_lin("eq", r4), c_lin("ne", r100)), c_lin("eq", r400))


def r1_validity(chk, F):
    rule = "C08.R1"
    eng, D = ctx(F)
    fn = F.free_fn("gregorian::is_gregorian_valid")
    finals, args = D.run(fn)
    y, mo, d, h, mi, s, ns = [a.lin for a in args]
    jan, jul = iers_year_sets()
    leap, nleap = leap_pair(eng, y)
    ntrue = nfalse = 0
    agg = {}

    def note(key, ok, st, extra=None):
        a = agg.setdefault(key, [0, 0, None])
        a[0] += 1
        if ok:
            a[1] += 1
        elif a[2] is None:
            a[2] = {"path": describe_path(eng, st, 16), "case": extra}

    def feas(st, cond):
        return any(D.feasible(st, alt) for alt in dnf(cond) if not any(x[0] == "opq" for x in alt))

    # a path may return a computed boolean (`!(a || b)`, `x == y`) instead of a literal: it is split into the sub-path on which the
    # value is true and the one on which it is false
    split = []
    for st in finals:
        if st.end == "return" and isinstance(st.ret, Bool) and st.ret.c not in (TRUE, FALSE):
            ts, fs = eng.branch(st.clone(), st.ret.c)
            for s2 in ts:
                s2.end, s2.ret = "return", Bool(TRUE)
                split.append(s2)
            for s2 in fs:
                s2.end, s2.ret = "return", Bool(FALSE)
                split.append(s2)
        else:
            split.append(st)
    finals = split
    for st in finals:
        if st.end != "return":
            continue
        r = st.ret
        if not isinstance(r, Bool) or r.c not in (TRUE, FALSE):
            chk.ob(rule, "is_gregorian_valid", "constant-verdict-per-path", False, detail=repr(r))
            continue
        if r.c == TRUE:
            ntrue += 1
            # accepted => inside the region the statement allows
            bad = [
                ("month<1", c_lin("le", mo)), ("month>12", c_lin("ge", mo - 13)), ("day<1", c_lin("le", d)), ("hour>24", c_lin("ge", h - 25)),
                ("minute>59", c_lin("ge", mi - 60)), ("second>60", c_lin("ge", s - 61)), ("ns>1e9", c_lin("ge", ns - (10 ** 9 + 1))),
            ]
            for m in range(1, 13):
                lim = MLEN[m - 1]
                if m == 2:
                    # (split so that the recorded, test-locked acceptance of 30/31 February in leap years does not hide another one)
                    bad.append(("day>29 in Feb", c_and(c_and(c_lin("eq", mo - 2), c_and(c_lin("ge", d - 30), c_lin("le", d - 31))), leap)))
                    bad.append(("day 30..31 in Feb of a non-leap year", c_and(c_and(c_lin("eq", mo - 2), c_and(c_lin("ge", d - 30), c_lin("le", d - 31))), nleap)))
                    bad.append(("day>31 in Feb", c_and(c_lin("eq", mo - 2), c_lin("ge", d - 32))))
                    bad.append(("29 Feb in a non-leap year", c_and(c_and(c_lin("eq", mo - 2), c_lin("eq", d - 29)), nleap)))
                else:
                    bad.append(("day>%d in month %d" % (lim, m), c_and(c_lin("eq", mo - m), c_lin("ge", d - (lim + 1)))))
            # second == 60 only at 23:59 on 30 June of a July-year / 31 December before a January-year
            s60 = c_lin("eq", s - 60)
            bad.append(("second=60 not at 23:59", c_and(s60, c_or(c_lin("ne", h - 23), c_lin("ne", mi - 59)))))
            bad.append(("second=60 in another month", c_and(s60, c_and(c_lin("ne", mo - 6), c_lin("ne", mo - 12)))))
            bad.append(("second=60 not on 30 June", c_and(s60, c_and(c_lin("eq", mo - 6), c_lin("ne", d - 30)))))
            bad.append(("second=60 not on 31 Dec", c_and(s60, c_and(c_lin("eq", mo - 12), c_lin("ne", d - 31)))))
            notjul = TRUE
            for yy in sorted(jul):
                notjul = c_and(notjul, c_lin("ne", y - yy))
            notjan = TRUE
            for yy in sorted(jan):
                notjan = c_and(notjan, c_lin("ne", y + 1 - yy))
            bad.append(("second=60 on 30 June of a year without a leap second", c_and(s60, c_and(c_lin("eq", mo - 6), notjul))))
            bad.append(("second=60 on 31 Dec not followed by a leap-second January", c_and(s60, c_and(c_lin("eq", mo - 12), notjan))))
            for name, cond in bad:
                note(("accepted=>not[%s]" % name), not feas(st, cond), st, name)
        else:
            nfalse += 1
            # rejected => disjoint from the strictly valid region
            base = [c_lin("ge", mo - 1), c_lin("le", mo - 12), c_lin("ge", d - 1), c_lin("le", h - 23), c_lin("le", mi - 59), c_lin("le", ns - (10 ** 9 - 1)),
                    c_lin("ge", s), c_lin("ge", h), c_lin("ge", mi)]
            cb = TRUE
            for c in base:
                cb = c_and(cb, c)
            for m in range(1, 13):
                cm = c_and(cb, c_lin("eq", mo - m))
                lim = MLEN[m - 1]
                dayok = c_lin("le", d - lim)
                if m == 2:
                    dayok = c_or(dayok, c_and(c_lin("eq", d - 29), leap))
                cm = c_and(cm, dayok)
                # ordinary seconds
                note("rejected=>not-strictly-valid[month %d, second<60]" % m, not feas(st, c_and(cm, c_lin("le", s - 59))), st)
                # the leap seconds themselves
                if m in (6, 12):
                    for yy in sorted(jul if m == 6 else jan):
                        yv = yy if m == 6 else yy - 1
                        inst = c_and(cm, c_and(c_lin("eq", s - 60), c_and(c_lin("eq", h - 23), c_and(c_lin("eq", mi - 59), c_and(
                            c_lin("eq", d - lim), c_lin("eq", y - yv))))))
                        note("rejected=>not-a-listed-leap-second[%s]" % ("30 June" if m == 6 else "31 Dec"), not feas(st, inst), st, yv)
    for key, (tot, okc, det) in sorted(agg.items()):
        chk.ob(rule, "is_gregorian_valid", key, tot == okc, "region containment per path partition (%d)" % tot, detail=det)
    no_bad_events(chk, "C08.R4", "is_gregorian_valid", finals, eng,
                  region=lambda st: "year=i32::MAX" if D.implies(st, y - (2 ** 31 - 1), "==") else "")
    chk.floor(rule, "accepting partitions", ntrue, 3)
    chk.floor(rule, "rejecting partitions", nfalse, 8)
    chk.info("hour = 24 and nanosecond = 1e9 are accepted by the code; the statement calls them neither valid nor invalid")


def r2_tables(chk, F):
    rule = "C08.R2"
    eng, D = ctx(F)
    fn = F.free_fn("gregorian::usual_days_per_month")
    finals, args = D.run(fn)
    got = {}
    for st in finals:
        if st.end != "return" or not isinstance(st.ret, Int):
            continue
        k = eng.const_of(st, args[0])
        v = eng.const_of(st, st.ret)
        if k is not None:
            got[k] = v
        else:
            got["other"] = v
    want = {i + 1: MLEN[i] for i in range(12)}
    ok = all(got.get(k) == v for k, v in want.items()) and got.get("other") == 0
    chk.ob(rule, "usual_days_per_month", "31/28/31/...", ok, "finite map vs oracle", detail=None if ok else got)
    cum = F.const("gregorian::CUMULATIVE_DAYS_FOR_MONTH")["v"]["arr"]
    cuml = F.const("gregorian::CUMULATIVE_DAYS_FOR_MONTH_LEAP_YEARS")["v"]["arr"]
    pre, prel = [0], [0]
    for i in range(11):
        pre.append(pre[-1] + MLEN[i])
        prel.append(prel[-1] + MLEN[i] + (1 if i == 1 else 0))
    chk.ob(rule, "CUMULATIVE_DAYS_FOR_MONTH", "prefix-sums", cum == pre, "decoded constant vs oracle", detail=None if cum == pre else cum)
    chk.ob(rule, "CUMULATIVE_DAYS_FOR_MONTH_LEAP_YEARS", "prefix-sums(+1 from March)", cuml == prel, "decoded constant vs oracle",
           detail=None if cuml == prel else cuml)
    # leap-year predicate: residue decision table
    fn = F.free_fn("gregorian::is_leap_year")
    finals, args = D.run(fn)
    leap, nleap = leap_pair(eng, args[0].lin)
    n = 0
    for st in finals:
        if st.end != "return":
            continue
        alts = bool_paths(eng, D, st, st.ret)
        if alts is None:
            chk.ob(rule, "is_leap_year", "decidable", False, detail=repr(st.ret))
            continue
        for sense, alt in alts:
            n += 1
            want_c = leap if not sense else nleap
            bad = any(D.feasible(st, list(alt) + a2) for a2 in dnf(want_c))
            chk.ob(rule, "is_leap_year", "%s<=>4/100/400-rule" % sense, not bad, "residue decision table", detail=None if not bad else describe_path(eng, st))
    no_bad_events(chk, "C08.R4", "is_leap_year", finals, eng)
    chk.floor(rule, "is_leap_year partitions", n, 3)
    # leap-second year sets vs the IERS rows
    jan, jul = iers_year_sets()
    for name, want_set in (("january_years", jan), ("july_years", jul)):
        fn = F.free_fn("gregorian::" + name)
        finals, args = D.run(fn)
        yes = set()
        other = None
        for st in finals:
            if st.end != "return" or not isinstance(st.ret, Bool):
                continue
            k = eng.const_of(st, args[0])
            if k is not None:
                if st.ret.c == TRUE:
                    yes.add(k)
            else:
                other = st.ret.c
        ok = yes == want_set and other == FALSE
        chk.ob(rule, name, "==years-of-the-IERS-rows", ok, "finite map vs naif0012 DELTA_AT dates",
               detail=None if ok else {"code": sorted(yes), "iers": sorted(want_set)})


def r3_arithmetic(chk, F):
    rule = "C08.R3"
    eng, D = ctx(F)
    A = EpochAlg(F, eng, D)
    fn = F.find1(self_ty="Epoch", name="maybe_from_gregorian", trait="")
    valid = F.free_fn("gregorian::is_gregorian_valid")
    geo = F.find1(self_ty="TimeScale", name="gregorian_epoch_offset", trait="")
    # Err whenever the predicate is false (dominance): explore with the predicate uninterpreted
    def h_valid(e, st, c, a, dest_tid, t):
        st.trace.append(("rec", "valid", list(a), None))
        out = []
        s1 = st.clone()
        s1.trace.append(("valid", True))
        out.append((s1, Bool(TRUE)))
        st.trace.append(("valid", False))
        out.append((st, Bool(FALSE)))
        return out

    range_calls = []

    def mk_range_next(iterations):
        def h(e, st, c, a, dest_tid, t):
            ref = a[0]
            r = e.deref(st, ref)
            if not (isinstance(r, Struct) and len(r.fs) == 2 and all(isinstance(x, Int) for x in r.fs)):
                return NotImplemented
            n = sum(1 for x in st.trace if isinstance(x, tuple) and x and x[0] == "loop-iter")
            # a loop whose range is empty on this path (e.g. `year..1900` when year >= 1900) runs no iteration
            if n < iterations and D.feasible(st, [(r.fs[0].lin - r.fs[1].lin + 1, "<=")]):
                y = e.fresh(r.fs[0].tid, ("loop-var", n))
                # start <= y < end
                st.trace.append(("loop-iter", r.fs[0], r.fs[1], y))
                e.add_cons(st, [(r.fs[0].lin - y.lin, "<="), (y.lin - r.fs[1].lin + 1, "<=")])
                return [(st, e.mk_option(dest_tid, y))]
            st.trace.append(("loop-end", r.fs[0], r.fs[1]))
            return [(st, e.mk_option(dest_tid, None))]
        return h

    total_ok = 0
    import multiprocessing
    import os as _os
    jobs = [(it, m) for it in (0, 1) for m in range(1, 13)]
    res = _parallel(_r3_job, [(F, j) for j in jobs])
    for obl, tot in res:
        chk.obl.extend(obl)
        total_ok += tot
    for o in chk.obl:
        if o["rule"] == rule and len(chk.samples) < 20 and o.get("method", "").startswith("linear form vs oracle (month 3)"):
            chk.samples.append({k: v for k, v in o.items() if k != "detail"})
            break
    _r3_tail(chk, F, rule, total_ok, fn)
    # R4 over the whole input space (the R3 cells above stop at +/-30 000 years): no panic, wrap or lossy cast for any i32 year
    r4_every_year(chk, F, "C08.R4")


def r4_every_year(chk, F, rule):
    """maybe_from_gregorian interpreted over every i32 year, each month, every field value the validity predicate may accept, with the
    leap-day loops abstracted to zero / one arbitrary iteration: no panic, wrap or lossy cast on any path (also run by C13, whose
    'any numeric magnitude' clause reaches this function from every date parser)"""
    nfull = 0
    for obl, tot in _parallel(_r3_job, [(F, (it, m, True)) for it in (0, 1) for m in range(1, 13)]):
        for o in obl:
            if o["rule"] == "RULE-R4":
                o["rule"] = rule
        chk.obl.extend(obl)
        nfull += tot
    bad = [o for o in chk.obl if o["rule"] == rule and o["instance"].endswith("[every i32 year]") and not o["ok"]]
    chk.ob(rule, "Epoch::maybe_from_gregorian[every i32 year]", "no-panic-wrap-or-lossy-cast-on-any-path", not bad,
           "interpretation over the whole input space, leap-day loops abstracted", detail=None if not bad else "%d site(s) reported above" % len(bad))
    chk.floor(rule, "maybe_from_gregorian return paths explored over every i32 year", nfull, 100)


_JOB_F = None


def _parallel(fn_, argl):
    import multiprocessing
    global _JOB_F
    _JOB_F = argl[0][0]
    ctxm = multiprocessing.get_context("fork")
    n = min(len(argl), max(1, (multiprocessing.cpu_count() or 2)))
    with ctxm.Pool(n) as pool:
        return pool.map(fn_, [a[1] for a in argl])


def _r3_job(job):
    from ..report import Check
    F = _JOB_F
    chk = Check("C08", "quick", F)
    chk.known = []
    tot = _r3_cell(chk, F, job[0], job[1], full=len(job) > 2 and job[2])
    return chk.obl, tot


def _r3_cell(chk, F, iterations, month, full=False):
    """full=True: the R4 pass - every i32 year, every month 1..12, every field value the validity predicate may accept; judged for
    panics / wraps / lossy casts only (C13 relies on it for "any numeric magnitude")"""
    rule = "C08.R3"
    eng, D = ctx(F)
    A = EpochAlg(F, eng, D)
    fn = F.find1(self_ty="Epoch", name="maybe_from_gregorian", trait="")
    valid = F.free_fn("gregorian::is_gregorian_valid")
    geo = F.find1(self_ty="TimeScale", name="gregorian_epoch_offset", trait="")

    def h_valid(e, st, c, a, dest_tid, t):
        st.trace.append(("rec", "valid", list(a), None))
        out = []
        s1 = st.clone()
        s1.trace.append(("valid", True))
        out.append((s1, Bool(TRUE)))
        st.trace.append(("valid", False))
        out.append((st, Bool(FALSE)))
        return out

    def mk_range_next(iterations):
        def h(e, st, c, a, dest_tid, t):
            ref = a[0]
            r = e.deref(st, ref)
            if not (isinstance(r, Struct) and len(r.fs) == 2 and all(isinstance(x, Int) for x in r.fs)):
                return NotImplemented
            n = sum(1 for x in st.trace if isinstance(x, tuple) and x and x[0] == "loop-iter")
            # a loop whose range is empty on this path (e.g. `year..1900` when year >= 1900) runs no iteration
            if n < iterations and D.feasible(st, [(r.fs[0].lin - r.fs[1].lin + 1, "<=")]):
                y = e.fresh(r.fs[0].tid, ("loop-var", n))
                st.trace.append(("loop-iter", r.fs[0], r.fs[1], y))
                e.add_cons(st, [(r.fs[0].lin - y.lin, "<="), (y.lin - r.fs[1].lin + 1, "<=")])
                return [(st, e.mk_option(dest_tid, y))]
            st.trace.append(("loop-end", r.fs[0], r.fs[1]))
            return [(st, e.mk_option(dest_tid, None))]
        return h

    total_ok = 0
    if True:
        if True:
            def setup(st, args, month=month):
                # the statement's span of years (sampled out to +/-30 000): keeps the day count far from the Duration bounds
                if full:
                    out = eng.assume(st, c_lin("eq", args[1].lin - month))
                else:
                    out = eng.assume(st, c_and(c_lin("eq", args[1].lin - month), c_and(c_lin("ge", args[0].lin + 30000), c_lin("le", args[0].lin - 30000))))
                res = []
                for s2 in out:
                    # the validity predicate's accepted ranges (R1) for the remaining fields
                    for s3 in eng.assume(s2, c_and(c_and(c_lin("ge", args[2].lin - 1), c_lin("le", args[2].lin - 31)),
                                                   c_and(c_lin("le", args[3].lin - 24), c_and(c_lin("le", args[4].lin - 59),
                                                         c_and(c_lin("le", args[5].lin - 60), c_lin("le", args[6].lin - 10 ** 9)))))):
                        res.append(s3)
                return res
            A.install(duration_algebra=True, opaque_conv=False)
            eng.hooks_by_id[valid["id"]] = h_valid
            eng.hooks_by_id[geo["id"]] = rec_hook(D, "greg_offset")
            eng.hooks["core::iter::range::<impl core::iter::Iterator for core::ops::Range<A>>::next"] = mk_range_next(iterations)
            eng.max_paths = 6000
            finals, args = D.run(fn, extra=setup)
            A.uninstall()
            eng.hooks.clear()
            y, mo, d, h, mi, s, ns = [a.lin for a in args[:7]]
            if full:
                no_bad_events(chk, "RULE-R4", "Epoch::maybe_from_gregorian[every i32 year]", finals, eng)
                eng.max_paths = 20000
                return sum(1 for st in finals if st.end == "return")
            for st in finals:
                if st.end != "return":
                    continue
                isvalid = ("valid", True) in st.trace
                v = st.ret
                nm = ordering_name(eng, v)
                if not isvalid:
                    ok = nm == "Err"
                    chk.ob(rule, "Epoch::maybe_from_gregorian", "invalid=>Err", ok, "dominance of the error return", detail=None if ok else repr(v))
                    continue
                if nm == "Err":
                    # only the year-range errors (checked_sub / checked_mul) are allowed on valid input
                    ok = not D.feasible(st, [(y + 30000, "<=")]) or not D.feasible(st, [(-y - 30000, "<=")]) if False else \
                        not D.feasible(st, [(-y - 30000, "<="), (y - 30000, "<=")])
                    chk.ob(rule, "Epoch::maybe_from_gregorian", "valid=>Ok-within-+/-30000-years", ok, "interval", detail=None if ok else describe_path(eng, st))
                    continue
                ep = v.fs[0]
                okts = isinstance(ep, Struct) and same_scale(eng, st, ep.fs[1], args[7])
                chk.ob(rule, "Epoch::maybe_from_gregorian", "scale=argument", okts, "frame")
                go = recs(st, "greg_offset")
                if len(go) != 1 or not same_scale(eng, st, go[0][0][0], args[7]):
                    chk.ob(rule, "Epoch::maybe_from_gregorian", "offset=scale.gregorian_epoch_offset()", False)
                    continue
                G = D.total(go[0][1])
                # leap-ness of the year on this path selects the cumulative table
                leap_y, nleap_y = leap_pair(eng, y)
                its = [x for x in st.trace if isinstance(x, tuple) and x and x[0] == "loop-iter"]
                ends = [x for x in st.trace if isinstance(x, tuple) and x and x[0] == "loop-end"]
                # loop range: 1900..year when year >= 1900, year..1900 otherwise
                ylo, yhi = eng.lin_bounds(st, y)
                fwd = ylo >= 1900
                bwd = yhi <= 1899
                # (a loop over the other range may be present as well, as long as it is empty on this path)
                def is_expected(e_):
                    return (fwd and e_[1].lin == Lin.const(1900) and e_[2].lin == y) or (bwd and e_[1].lin == y and e_[2].lin == Lin.const(1900))
                nonempty = [e_ for e_ in ends if D.feasible(st, [(e_[1].lin - e_[2].lin + 1, "<=")])]
                rng_ok = any(is_expected(e_) for e_ in ends) and all(is_expected(e_) for e_ in nonempty) and len(nonempty) <= 1
                if its:
                    rng_ok = rng_ok and ((fwd and its[0][1].lin == Lin.const(1900) and its[0][2].lin == y) or
                                         (bwd and its[0][1].lin == y and its[0][2].lin == Lin.const(1900)))
                T = D.total(ep.fs[0])
                if not its and not ends:
                    # a loop-free constructor (closed-form leap-day count): no induction to run - the count is compared directly with
                    # the exact day number 365 (y-1900) + L(y) - L(1900) + cumul + day - 1, L(y) = floor((y-1)/4) - floor((y-1)/100) +
                    # floor((y-1)/400), written over the Euclidean quotient atoms of y-1 (the same atoms the code's div_euclid produces)
                    if iterations != 0:
                        continue  # one judgement per path is enough (the 0- and 1-iteration runs coincide)
                    from ..models import _euclid
                    stc = st.clone()
                    ym1 = Int(y - 1, args[0].tid)
                    qs = {}
                    for k_ in (4, 100, 400):
                        qs[k_] = _euclid(eng, stc, ym1, Int(Lin.const(k_), args[0].tid), "div")[0][1].lin
                    L1900 = 1899 // 4 - 1899 // 100 + 1899 // 400
                    days = (y - 1900).scale(365) + qs[4] - qs[100] + qs[400] - L1900 + (d - 1)
                    base = days.scale(D_NS) + h.scale(3600 * oracle.NS) + mi.scale(60 * oracle.NS) + s.scale(oracle.NS) + ns - G
                    for ly_name, ly_cond, cum in (("leap", leap_y, 1), ("common", nleap_y, 0)):
                        cumd = sum(MLEN[:month - 1]) + (1 if (cum and month > 2) else 0)
                        for sec60, scond, corr in (("s<60", c_lin("le", s - 59), 0), ("s=60", c_lin("eq", s - 60), -oracle.NS)):
                            cond = c_and(ly_cond, scond)
                            for alt in dnf(cond):
                                if not D.feasible_local(stc, alt):
                                    continue
                                total_ok += 1
                                want = base + cumd * D_NS + corr
                                st3 = stc.clone()
                                D.close(st3, [T, want], alt)
                                ok = D.implies_eq(st3, T, want, alt)
                                chk.ob(rule, "Epoch::maybe_from_gregorian", "count==exact-day-number+time-offset[closed-form,%s,%s]" % (ly_name, sec60), ok,
                                       "linear form over the Euclidean quotients of y-1 vs oracle (month %d)" % month,
                                       detail=None if ok else {"result": repr(T)[:300], "expected": repr(want)[:300], "month": month, "path": describe_path(eng, st)})
                    continue
                chk.ob(rule, "Epoch::maybe_from_gregorian", "leap-day-loop-range[%s,%d-iter]" % ("1900..y" if fwd else "y..1900", iterations), rng_ok,
                       "loop-shape: induction range", detail=None if rng_ok else {"ends": repr(ends)[:200]})
                st2 = st
                common = (y - 1900).scale(365 * D_NS) + (d - 1).scale(D_NS) + h.scale(3600 * oracle.NS) + \
                    mi.scale(60 * oracle.NS) + s.scale(oracle.NS) + ns - G
                # the path has decided the table, the loop year's leap-ness and the second-60 branch: the rest is a constant
                diff = D.simplify(T - common)
                lo_k, hi_k = (diff.k, diff.k) if diff.is_const() else eng.fm_bounds(st2, diff)
                if lo_k != hi_k:
                    chk.ob(rule, "Epoch::maybe_from_gregorian", "count-365(y-1900)d-time+offset-is-constant", False,
                           "linear form", detail={"bounds": (lo_k, hi_k), "month": month, "path": describe_path(eng, st)})
                    continue
                Kp = lo_k
                for ly_name, ly_cond, cum in (("leap", leap_y, 1), ("common", nleap_y, 0)):
                    if not any(D.feasible_local(st2, alt) for alt in dnf(ly_cond)):
                        continue
                    cumd = sum(MLEN[:month - 1]) + (1 if (cum and month > 2) else 0)
                    variants = [("", TRUE, 0)]
                    if its:
                        lv, nlv = leap_pair(eng, its[0][3].lin)
                        variants = [("loop-year-leap", lv, 1 if fwd else -1), ("loop-year-common", nlv, 0)]
                    for vn, vcond, delta in variants:
                        for sec60, scond, corr in (("s<60", c_lin("le", s - 59), 0), ("s=60", c_lin("eq", s - 60), -oracle.NS)):
                            cond = c_and(ly_cond, c_and(vcond, scond))
                            if not any(D.feasible_local(st2, alt) for alt in dnf(cond)):
                                continue
                            total_ok += 1
                            want = cumd * D_NS + delta * D_NS + corr
                            ok = Kp == want
                            chk.ob(rule, "Epoch::maybe_from_gregorian",
                                   "count==365(y-1900)d+cumul+time-offset[%d-iter,%s,%s%s]" % (iterations, ly_name, sec60, "," + vn if vn else ""), ok,
                                   "linear form vs oracle (month %d)" % month,
                                   detail=None if ok else {"code_constant_ns": Kp, "expected_ns": want, "month": month,
                                                           "residues": [repr(c) for c in st.cons if "trem" in repr(c[0])][:12], "path": describe_path(eng, st)})
            no_bad_events(chk, "C08.R4", "Epoch::maybe_from_gregorian", finals, eng)
    eng.max_paths = 20000
    return total_ok


def _r3_tail(chk, F, rule, total_ok, fn):
    chk.floor(rule, "arithmetic partitions", total_ok, 48)
    # wrappers delegate to maybe_from_gregorian(..) (E5)
    inner = fn
    n = 0
    for f in F.find(self_ty="Epoch", trait=""):
        nm = f.get("name", "")
        if nm.startswith("from_gregorian") or nm.startswith("maybe_from_gregorian_"):
            if nm == "from_gregorian_str":
                continue
            cs = [t for bi, t in cfg.calls(f)]
            reaches = any(t["f"].get("fn_id") == inner["id"] or "maybe_from_gregorian" in cfg.callee_name(t["f"]) for t in cs)
            n += 1
            chk.ob(rule, "Epoch::%s" % nm, "delegates-to-maybe_from_gregorian", reaches, "call graph")
    chk.floor(rule, "from_gregorian* wrappers", n, 14)


def r5_reference_dates(chk, F):
    """gregorian_epoch_offset(S), which maybe_from_gregorian subtracts (R3), is the reading of S's own clock at its reference epoch
    counted from 1900-01-01T00:00:00: whole days (or J2000's half day) from the public definitions, for all nine scales."""
    from .c10 import Reader, REF_READING_DAYS2, SCALES
    from ..sym import St as _St
    rule = "C08.R5"
    R = Reader(F)
    eng, D = R.eng, R.D
    fn = F.find1(self_ty="TimeScale", name="gregorian_epoch_offset", trait="")
    half_day = oracle.DAY_NS // 2
    n = 0
    for sc in SCALES:
        eng.reset()
        R.install()
        finals = eng.run(fn, args=[R.variant(sc)], st=_St())
        R.uninstall()
        n += 1
        vals = set()
        okp = True
        for st in finals:
            if st.end != "return":
                okp = False
                continue
            T = D.total(st.ret)
            lo, hi = eng.fm_bounds(st, T) if T is not None else (None, None)
            vals.add(lo if lo == hi else None)
        want = REF_READING_DAYS2[sc] * half_day
        ok = okp and vals == {want}
        chk.ob(rule, "TimeScale::gregorian_epoch_offset", "[%s]==reference-date-reading-since-1900(%d half-days)" % (sc, REF_READING_DAYS2[sc]), ok,
               "constant evaluation per scale vs oracle reference dates", detail=None if ok else {"got_ns": sorted(map(str, vals)), "want_ns": want})
    chk.floor(rule, "scales", n, 9)


def r6_wrappers(chk, F):
    """The Gregorian initializers are wrappers: each must hand its own parameters, in role order, to maybe_from_gregorian (directly
    or through another wrapper), with the documented constants for what it leaves out (midnight = 0 h, noon = 12 h, no
    nanoseconds, UTC / TAI for the scale-specific forms), and return that result (unwrapped for the panicking forms)."""
    rule = "C08.R6"
    eng, D = ctx(F)
    mfg = F.find1(self_ty="Epoch", name="maybe_from_gregorian", trait="")
    P = ("year", "month", "day", "hour", "minute", "second", "nanos")
    table = {}
    for scale_tag, sc in (("", None), ("_tai", "TAI"), ("_utc", "UTC")):
        table["maybe_from_gregorian" + scale_tag] = (P, sc)
        table["from_gregorian" + scale_tag] = (P, sc)
        table["from_gregorian%s_at_midnight" % scale_tag] = (("year", "month", "day", 0, 0, 0, 0), sc)
        table["from_gregorian%s_at_noon" % scale_tag] = (("year", "month", "day", 12, 0, 0, 0), sc)
        table["from_gregorian%s_hms" % scale_tag] = (("year", "month", "day", "hour", "minute", "second", 0), sc)
    del table["maybe_from_gregorian"]
    n = 0
    for name, (want, sc) in sorted(table.items()):
        try:
            fn = F.find1(self_ty="Epoch", name=name, trait="")
        except Exception:
            continue
        eng.hooks_by_id = {mfg["id"]: rec_hook(D, "mfg")}
        finals, args = D.run(fn)
        eng.hooks_by_id = {}
        n += 1
        names = [fn["locals"][i + 1].get("name") for i in range(fn["arg_count"])]
        ok = True
        why = []
        nret = 0
        for st in finals:
            calls = recs(st, "mfg")
            if st.end == "panic" and len(calls) == 1:
                continue  # expect() on the Err the constructor returned
            if st.end != "return":
                ok = False
                why.append("path ends in %s" % st.end)
                continue
            nret += 1
            if len(calls) != 1:
                ok = False
                why.append("%d constructor calls" % len(calls))
                continue
            a, res = calls[0]
            for k, w in enumerate(want):
                got = a[k]
                if isinstance(w, int):
                    good = isinstance(got, Int) and got.lin.is_const() and got.lin.k == w
                else:
                    good = w in names and got is args[names.index(w)]
                if not good:
                    ok = False
                    why.append("argument %d (%s) is %r" % (k, P[k], got))
            if sc is None:
                good = "time_scale" in names and a[7] is args[names.index("time_scale")]
            else:
                good = scale_name(eng, st, a[7]) == sc
            if not good:
                ok = False
                why.append("scale argument is %r" % (a[7],))
            r = st.ret
            if name.startswith("maybe_"):
                good = r is res
            else:
                rr = st.enum_ref.get(res.name, res) if isinstance(res, SymEnum) else res
                good = isinstance(rr, Enum) and rr.fs and r is rr.fs[0]
            if not good:
                ok = False
                why.append("returns something else than the constructor's result")
        chk.ob(rule, "Epoch::%s" % name, "=maybe_from_gregorian(%s,%s)" % (",".join(map(str, want)), sc or "time_scale"), ok and nret >= 1, "E5 delegation (parameter flow)",
               detail=None if ok and nret >= 1 else sorted(set(why))[:4])
    chk.floor(rule, "Gregorian initializer wrappers", n, 12)


def run(chk, F, tier):
    r1_validity(chk, F)
    r6_wrappers(chk, F)
    r5_reference_dates(chk, F)
    r2_tables(chk, F)
    r3_arithmetic(chk, F)
    eng, D = ctx(F)
    chk.extra["engine_stats"] = dict(eng.stats)
    chk.assumptions.append("Duration +=/-= exact away from the bounds (C01); gregorian_epoch_offset table is C05.R3's")
    chk.assumptions.append("the sum of the leap-day loop over all years (= days-from-civil) is an inductive numeric fact: argued from base case + step, not computed")
