"""C02 - Duration <-> integer nanosecond count round-trips; one canonical representation."""
from ..sym import Engine, Int, Bool, Struct, Enum, SymEnum, Ref, Opq, Flt, St, c_lin, c_and
from ..lin import Lin, INF
from ..dur import DurCtx, NPC_ORACLE, via, describe_path
from .. import cfg

LEVEL = "other"
EXPLANATION = (
    "Static analysis of the monomorphised MIR of the Duration<->integer conversions. R1: who may build or "
    "write a Duration (field visibility, every aggregate/field write is constant-canonical or "
    "post-dominated by normalize). R2-R6: trace-partitioned abstract interpretation with linear forms; on "
    "every path partition the result's nanosecond count must equal the specification polynomial, saturating "
    "returns must lie on the side of the exact result, no panic/wrap/lossy cast may be reachable. R7: "
    "compose must not route its integer fields through f64.")

UNIT_FACTORS = {
    "Nanosecond": 1, "Microsecond": 10 ** 3, "Millisecond": 10 ** 6, "Second": 10 ** 9, "Minute": 60 * 10 ** 9,
    "Hour": 3600 * 10 ** 9, "Day": 86400 * 10 ** 9, "Week": 7 * 86400 * 10 ** 9, "Century": 36525 * 86400 * 10 ** 9,
}

_cache = {}


def ctx(F):
    if "ctx" not in _cache or _cache["ctx"][0] is not F:
        eng = Engine(F)
        _cache["ctx"] = (F, eng, DurCtx(F, eng))
    return _cache["ctx"][1], _cache["ctx"][2]


def short(fn):
    im = fn.get("impl")
    if im and "trait_ref" in im:
        return "<%s as %s>::%s" % (im["self"].split("::")[-1], im["trait_ref"].split("::")[-1].replace("duration::", "").replace("timeunits::", ""), fn.get("name"))
    if im:
        return "%s::%s" % (im["self"].split("::")[-1], fn.get("name"))
    return fn["path"]


def no_bad_events(chk, rule, inst, finals, eng, allow_kinds=(), region=None):
    """PANIC-FREE / no-wrap / lossless casts over a set of explored paths.  One obligation per
    (site) aggregated over paths."""
    sites = {}
    npaths = 0
    for st in finals:
        npaths += 1
        for e in st.events:
            if e["kind"] in ("panic", "wrap", "lossy_cast", "unmodelled", "limit", "unreachable", "imprecise"):
                if e["kind"] in allow_kinds:
                    continue
                k = (e["kind"], e.get("fn"), e["msg"])
                sites.setdefault(k, []).append((st, e))
    ok = True
    for (kind, fnk, msg), lst in sites.items():
        st, e = lst[0]
        reg = region(st) if region else ""
        construct = "%s:%s@%s" % (kind, msg.split(" (")[0], _fn_short(fnk))
        chk.ob(rule, inst, construct, False, detail={"event": {k: v for k, v in e.items() if k != "site"},
                                                      "paths": len(lst), "region": reg,
                                                      "path": describe_path(eng, st)})
        ok = False
    return ok


def _fn_short(k):
    if not k:
        return "?"
    return k.split("::")[-2].replace(">", "") + "::" + k.split("::")[-1] if "::" in k else k


# --------------------------------------------------------------------------------------------
# helper analyses reused by C01 / C14 / C20


def analyse_total_nanoseconds(F):
    """EXACT(total_nanoseconds).  -> (results per arm, bad_arms {(fnkey, dec): name})"""
    if "tn" in _cache:
        return _cache["tn"]
    eng, D = ctx(F)
    fn = F.find1(self_ty="Duration", name="total_nanoseconds", trait="")
    finals, args = D.run(fn)
    d = eng.deref(finals[0], args[0]) if finals else None
    arms = []
    bad = {}
    for st in finals:
        d = eng.deref(st, args[0])
        spec = D.total(d)
        c, n = D.parts(d)
        label = D.region_label(st, [("centuries", c)])
        if st.end != "return":
            arms.append((st, label, False, "ends in %s" % st.end))
            continue
        ok = isinstance(st.ret, Int) and D.implies_eq(st, st.ret.lin, spec)
        arms.append((st, label, ok, None if ok else "returns %r, exact count is %r" % (st.ret.lin if isinstance(st.ret, Int) else st.ret, spec)))
        if not ok:
            dec = [t for t in st.trace if t[0] == "ret" and t[1] == fn["key"]]
            for t in dec:
                bad[(t[1], t[2])] = "total_nanoseconds[%s]" % label
    _cache["tn"] = (fn, arms, bad)
    return _cache["tn"]


def all_bad_arms(F):
    fn, arms, bad = analyse_total_nanoseconds(F)
    return dict(bad)


# --------------------------------------------------------------------------------------------


def r1_canonical_discipline(chk, F):
    rule = "C02.R1"
    adt = F.adt("duration::Duration")
    fields = adt["variants"][0]["fields"]
    for f in fields:
        chk.ob(rule, "Duration", "field-visibility:%s" % f["name"], f["vis"] != "pub", "field not pub",
               detail="visibility %s" % f["vis"])
    NPC = F.const("duration::NANOSECONDS_PER_CENTURY")["v"]
    chk.ob(rule, "NANOSECONDS_PER_CENTURY", "value", NPC == NPC_ORACLE, "constant == 36525*86400*1e9", detail=NPC)

    def canon_const(c, n):
        return (0 <= n < NPC) or (n == NPC and c == 32767)

    # decoded constants of type Duration anywhere in the consts table
    nconst = 0

    def walk(v, where):
        nonlocal nconst
        if isinstance(v, dict):
            if v.get("adt", "").endswith("duration::Duration"):
                f = dict(v["fields"])
                nconst += 1
                chk.ob(rule, where, "const-duration", canon_const(f["centuries"], f["nanoseconds"]), "constant canonical",
                       detail=f)
            for k, x in v.items():
                if k == "fields":
                    for _, y in x:
                        walk(y, where)
                elif isinstance(x, (dict, list)):
                    walk(x, where)
        elif isinstance(v, list):
            for x in v:
                walk(x, where)

    for name, c in F.consts.items():
        walk(c["v"], name)
    # aggregates and field writes in every local body
    nagg = 0
    nwrite = 0
    dur_s = "duration::Duration"
    # the normaliser's own cone: normalize and the private helpers that only it (transitively) calls.  What they write is judged by
    # R3 (from_parts over the full range), not by the discipline they implement
    allf = F.local_fns(False) + F.local_fns(True)
    callers = {}
    for g in allf:
        for bi, t in cfg.calls(g):
            fid = t["f"].get("fn_id")
            if fid is not None:
                callers.setdefault(fid, set()).add(g["id"])
    # (from_parts is the normalising constructor itself: whether what it returns is canonical for every input - including through a
    # fast path that skips normalize() when the nanoseconds already are below one century - is decided by interpreting it, R3)
    norm_cone = {g["id"] for g in allf if g["path"].endswith("duration::Duration::normalize") or g["path"].endswith("duration::Duration::from_parts")}
    for _ in range(4):
        for g in allf:
            cs = callers.get(g["id"])
            if g["id"] not in norm_cone and cs and cs <= norm_cone:
                norm_cone.add(g["id"])
    for fn in allf:
        if fn.get("impl", {}) and fn["impl"].get("derived"):
            derived = True
        else:
            derived = False
        norm_blocks = [bi for bi, t in cfg.calls(fn) if cfg.callee_path(t["f"]).endswith("duration::Duration::normalize")]
        is_normalize = fn["id"] in norm_cone
        for bi, si, s in cfg.stmts(fn):
            if s["k"] != "a":
                continue
            r = s["r"]
            # operand constants of Duration type
            for o in cfg.operands_of_rvalue(r):
                k = cfg.operand_const(o)
                if k is not None:
                    walk(k.get("v"), fn["key"])
            if r["op"] == "agg" and r.get("ak") == "adt" and r["adt"].endswith(dur_s):
                nagg += 1
                cs = [cfg.operand_const(x) for x in r["xs"]]
                if all(c is not None and isinstance(c.get("v"), int) for c in cs):
                    ok = canon_const(cs[0]["v"], cs[1]["v"])
                    chk.ob(rule, short(fn), "aggregate-const", ok, "constant canonical", detail=[c["v"] for c in cs])
                elif derived and fn.get("name") == "clone":
                    chk.ob(rule, short(fn), "aggregate-clone", True, "derived Clone copies a canonical value")
                elif is_normalize:
                    pass  # a whole-value write by the normaliser itself (`*self = match .. { Some(c) => Self { .. }, .. }`): R3's business
                else:
                    ok = bool(norm_blocks) and cfg.must_pass_through(fn, bi, norm_blocks)
                    how = "must-pass-through normalize"
                    if not ok and _returns_canonical_on_every_path(F, fn):
                        # not the idiom, but decided semantically: the function is interpreted from canonical arguments and every
                        # Duration in what it returns is canonical on every path (e.g. the fields are constants selected by a match)
                        ok, how = True, "interpreted: every returned Duration canonical on every path"
                    chk.ob(rule, short(fn), "aggregate-then-normalize", ok, how,
                           detail="%s: Duration built from non-constant fields at %s; every path to a return must call "
                                  "Duration::normalize" % (fn["key"], F.span(s.get("sp"))))
            # field writes into a Duration
            p = s["p"]
            tys = cfg.place_types(F, fn, p)
            for j, e in enumerate(p["pj"]):
                if isinstance(e, dict) and "f" in e and F.ty_s(tys[j]) == dur_s:
                    if is_normalize:
                        continue  # normalize's own writes are judged by R3 (from_parts over the full range)
                    nwrite += 1
                    ok = bool(norm_blocks) and (cfg.must_pass_through(fn, bi, norm_blocks) or _only_returns_const_after(fn, bi, norm_blocks))
                    chk.ob(rule, short(fn), "field-write-then-normalize", ok, "must-pass-through normalize",
                           detail="%s writes Duration field %d at %s" % (fn["key"], e["f"], F.span(s.get("sp"))))
            # whole-value writes through a pointer of an unnormalised value are covered by aggregates above
        # transmute / union tricks producing a Duration
        for bi, si, s in cfg.stmts(fn):
            if s["k"] == "a" and s["r"]["op"] == "cast" and s["r"]["ck"] == "Transmute" and F.ty_s(s["r"]["ty"]) == dur_s:
                chk.ob(rule, short(fn), "transmute-to-duration", False, detail=F.span(s.get("sp")))
    chk.floor(rule, "Duration constants", nconst, 15)
    chk.floor(rule, "Duration aggregates in MIR", nagg, 1)
    chk.floor(rule, "Duration field writes outside normalize", nwrite, 5)


def _returns_canonical_on_every_path(F, fn):
    """Semantic fallback of the construction discipline: interpret fn from canonical symbolic arguments; every path must return, no
    Duration may be written through a `&mut` argument, and every Duration inside the returned value is provably canonical."""
    if fn.get("kind") == "closure":
        return False
    for i in range(1, fn["arg_count"] + 1):
        t = F.types[fn["locals"][i]["ty"]] if hasattr(F, "types") else None
        if isinstance(t, dict) and t.get("k") == "ref" and t.get("mut"):
            return False
    eng, D = ctx(F)
    try:
        finals, args = D.run(fn)
    except Exception:
        return False
    n = 0
    for st in finals:
        if st.end != "return":
            if st.end in ("panic", "infeasible"):
                continue
            return False
        ds = D.find_durations(st.ret, st)
        if not ds:
            return False
        for d in ds:
            if D.parts(d) is None or not D.is_canonical(st, d):
                return False
        n += 1
    return n >= 1


def _only_returns_const_after(fn, bi, norm_blocks):
    """A field write is also fine when every path that skips normalize returns a *constant*
    (the early `return Self::MIN/MAX` arms of Add/Sub)."""
    through = set(norm_blocks)
    seen = set()
    stack = [bi]
    rets = set(cfg.return_blocks(fn))
    while stack:
        b = stack.pop()
        if b in seen or b in through:
            seen.add(b)
            continue
        seen.add(b)
        if b in rets:
            continue
        stack.extend(cfg.succs(fn, b))
    # blocks on normalize-free paths to a return: the last assignment to _0 on them must be a constant
    for b in seen:
        if b in through:
            continue
        blk = fn["blocks"][b]
        for s in blk["s"]:
            if s["k"] == "a" and s["p"]["l"] == 0 and not s["p"]["pj"]:
                r = s["r"]
                if not (r["op"] == "use" and "k" in r["x"]):
                    return False
    return True


def r2_total(chk, F):
    rule = "C02.R2"
    fn, arms, bad = analyse_total_nanoseconds(F)
    for st, label, ok, why in arms:
        # a failing arm is keyed by the form it returns, so that the recorded (test-locked) wrong form does not hide another one
        form = ""
        if not ok and isinstance(st.ret, Int):
            form = ":returns(%r)" % (st.ret.lin,)
        chk.ob(rule, "Duration::total_nanoseconds", "arm[%s]%s" % (label, form), ok, "linear normal form == c*NPC+n", detail=why, sample=True)
    chk.floor(rule, "arms", len(arms), 2)


def exact_or_saturated(chk, rule, inst, D, eng, finals, spec_of, what="", bad_arms=None, region_atoms=None):
    """Core EXACT + SAT-SIDE + canonical-result judgement for functions returning a Duration.
    spec_of(st) -> Lin (exact mathematical result)."""
    n = 0
    for st in finals:
        if st.end != "return":
            continue
        spec = spec_of(st)
        v = st.ret
        if spec is not None and D.parts(v) is not None:
            st = st.clone()
            D.close(st, [spec, D.total(v)])
        if D.parts(v) is None:
            chk.ob(rule, inst, "result-shape", False, detail="result is not a (centuries, nanoseconds) value: %r" % (v,))
            continue
        vias = via(st, bad_arms) if bad_arms else []
        for reg, cons in D.regions(st, spec):
            n += 1
            rl = (D.region_label(st, region_atoms(st), cons) if region_atoms else "")
            vtag = ""
            if vias:
                # the path runs through a helper arm that is itself a (known) defect: key by that root cause
                rl, vtag = "", "via:" + "+".join(vias)
            if reg == "fits":
                ok = D.implies_eq(st, D.total(v), spec, cons)
                chk.ob(rule, inst, "exact[%s%s]" % (rl, vtag), ok, "linear form equals exact result",
                       detail=None if ok else {"result": repr(v), "exact": repr(spec), "path": describe_path(eng, st)})
                okc = D.is_canonical(st, v, cons)
                chk.ob(rule, inst, "canonical-result[%s%s]" % (rl, vtag), okc, "0<=ns<NPC or MAX",
                       detail=None if okc else {"result": repr(v), "path": describe_path(eng, st)})
            elif reg == "high":
                ok = D.is_const_dur(st, v, D.MAX, cons)
                chk.ob(rule, inst, "saturate-high[%s%s]" % (rl, vtag), ok, "returns MAX when exact result > MAX",
                       detail=None if ok else {"result": repr(v), "exact": repr(spec), "path": describe_path(eng, st)})
            else:
                ok = D.is_const_dur(st, v, D.MIN, cons)
                chk.ob(rule, inst, "saturate-low[%s%s]" % (rl, vtag), ok, "returns MIN when exact result < MIN",
                       detail=None if ok else {"result": repr(v), "exact": repr(spec), "path": describe_path(eng, st)})
    return n


def r3_from_total_and_parts(chk, F):
    rule = "C02.R3"
    eng, D = ctx(F)
    fn = F.find1(self_ty="Duration", name="from_total_nanoseconds", trait="")
    finals, args = D.run(fn)
    x = args[0].lin
    n = exact_or_saturated(chk, rule, "Duration::from_total_nanoseconds", D, eng, finals, lambda st: x)
    no_bad_events(chk, rule, "Duration::from_total_nanoseconds", finals, eng)
    chk.floor(rule, "from_total_nanoseconds partitions", n, 3)
    fn = F.find1(self_ty="Duration", name="from_parts", trait="")
    finals, args = D.run(fn, canonical=False)
    c, ns = args[0].lin, args[1].lin
    spec = c.scale(D.NPC) + ns
    n = exact_or_saturated(chk, rule, "Duration::from_parts", D, eng, finals, lambda st: spec)
    no_bad_events(chk, rule, "Duration::from_parts", finals, eng)
    chk.floor(rule, "from_parts partitions", n, 4)


def r4_truncated(chk, F):
    rule = "C02.R4"
    eng, D = ctx(F)
    fn = F.find1(self_ty="Duration", name="from_truncated_nanoseconds", trait="")
    finals, args = D.run(fn)
    x = args[0].lin
    exact_or_saturated(chk, rule, "Duration::from_truncated_nanoseconds", D, eng, finals, lambda st: x)
    no_bad_events(chk, rule, "Duration::from_truncated_nanoseconds", finals, eng)

    fn = F.find1(self_ty="Duration", name="try_truncated_nanoseconds", trait="")
    finals, args = D.run(fn)
    npaths = 0
    I64 = (-(1 << 63), (1 << 63) - 1)
    for st in finals:
        if st.end != "return":
            continue
        d = eng.deref(st, args[0])
        T = D.total(d)
        c, _ = D.parts(d)
        rl = D.region_label(st, [("centuries", c)])
        v = st.ret
        npaths += 1
        if isinstance(v, Enum) and v.vi == eng.variant_index(v.tid, "Ok"):
            e = v.fs[0]
            ok = isinstance(e, Int) and D.implies_eq(st, e.lin, T)
            chk.ob(rule, "Duration::try_truncated_nanoseconds", "ok-value[%s]" % rl, ok, "Ok(e): e == c*NPC+n",
                   detail=None if ok else {"returned": repr(e), "exact": repr(T), "path": describe_path(eng, st)})
        elif isinstance(v, Enum):
            # Err only where the count does not fit an i64 ... and never within +/-2 centuries
            inside = [(T - 2 * D.NPC, "<="), (-T - 2 * D.NPC, "<=")]
            ok = not D.feasible(st, inside)
            chk.ob(rule, "Duration::try_truncated_nanoseconds", "err-only-outside-2-centuries[%s]" % rl, ok,
                   "Err path infeasible for |count| <= 2 centuries",
                   detail=None if ok else {"path": describe_path(eng, st)})
        else:
            chk.ob(rule, "Duration::try_truncated_nanoseconds", "result-shape", False, detail=repr(v))
    no_bad_events(chk, rule, "Duration::try_truncated_nanoseconds", finals, eng,
                  region=lambda st: D.region_label(st, [("centuries", D.parts(eng.deref(st, args[0]))[0])]))
    chk.floor(rule, "try_truncated_nanoseconds paths", npaths, 4)

    fn = F.find1(self_ty="Duration", name="truncated_nanoseconds", trait="")
    finals, args = D.run(fn)
    for st in finals:
        if st.end != "return":
            continue
        d = eng.deref(st, args[0])
        T = D.total(d)
        c, _ = D.parts(d)
        rl = D.region_label(st, [("centuries", c)])
        v = st.ret
        if not isinstance(v, Int):
            chk.ob(rule, "Duration::truncated_nanoseconds", "result-shape", False, detail=repr(v))
            continue
        if D.implies_eq(st, v.lin, T):
            chk.ob(rule, "Duration::truncated_nanoseconds", "value[%s]" % rl, True, "== c*NPC+n")
            continue
        # otherwise it must be the i64 bound of the sign of the count, and the count must not fit
        k = eng.const_of(st, v)
        if k == I64[0]:
            ok = D.implies(st, T - (I64[0] - 1), "<=") or (D.implies(st, T + 1, "<=") and not D.feasible(st, [(T - 2 * D.NPC, "<="), (-T - 2 * D.NPC, "<=")]))
            chk.ob(rule, "Duration::truncated_nanoseconds", "bound-min[%s]" % rl, ok, "i64::MIN only for negative counts outside +/-2 centuries",
                   detail=None if ok else describe_path(eng, st))
        elif k == I64[1]:
            ok = D.implies(st, -T + (I64[1] + 1), "<=") or (D.implies(st, -T + 1, "<=") and not D.feasible(st, [(T - 2 * D.NPC, "<="), (-T - 2 * D.NPC, "<=")]))
            chk.ob(rule, "Duration::truncated_nanoseconds", "bound-max[%s]" % rl, ok, "i64::MAX only for positive counts outside +/-2 centuries",
                   detail=None if ok else describe_path(eng, st))
        else:
            chk.ob(rule, "Duration::truncated_nanoseconds", "value[%s]" % rl, False,
                   detail={"returned": repr(v), "exact": repr(T), "path": describe_path(eng, st)})
    no_bad_events(chk, rule, "Duration::truncated_nanoseconds", finals, eng)


def r5_unit_times_int(chk, F):
    rule = "C02.R5"
    eng, D = ctx(F)
    fn = F.find1(self_ty="Unit", name="mul", trait_ref="Mul<i64>")
    finals, args = D.run(fn)
    q = args[1].lin
    seen_units = set()
    npart = 0
    for st in finals:
        u = st.enum_ref.get(args[0].name) if isinstance(args[0], SymEnum) else None
        if u is None:
            chk.ob(rule, "<Unit as Mul<i64>>::mul", "unit-not-decided", False, detail=repr(st.ret))
            continue
        uname = eng.types[u.tid]["variants"][u.vi]["name"]
        seen_units.add(uname)
        if uname not in UNIT_FACTORS:
            chk.ob(rule, "<Unit as Mul<i64>>::mul", "unknown-unit:%s" % uname, False)
            continue
        spec = q.scale(UNIT_FACTORS[uname])
        if st.end != "return":
            continue
        npart += exact_or_saturated(chk, rule, "<Unit as Mul<i64>>::mul[%s]" % uname, D, eng, [st], lambda s: spec)
    no_bad_events(chk, rule, "<Unit as Mul<i64>>::mul", finals, eng)
    chk.ob(rule, "<Unit as Mul<i64>>::mul", "all-nine-units", seen_units == set(UNIT_FACTORS), "variant coverage",
           detail=sorted(seen_units))
    chk.floor(rule, "Unit x i64 partitions", npart, 18)
    # i64 * Unit delegates with swapped operands
    fn = F.find1(self_ty="i64", name="mul", trait_ref="Mul<timeunits::Unit>")
    ok = _delegates(fn, F.find1(self_ty="Unit", name="mul", trait_ref="Mul<i64>"), [2, 1])
    chk.ob(rule, "<i64 as Mul<Unit>>::mul", "delegates-to-Unit*i64(swapped)", ok, "E5 delegation")
    # TimeUnits default methods: self * Unit::X with the X of the method's name
    names = {"centuries": "Century", "weeks": "Week", "days": "Day", "hours": "Hour", "minutes": "Minute",
             "seconds": "Second", "milliseconds": "Millisecond", "microseconds": "Microsecond", "nanoseconds": "Nanosecond"}
    found = 0
    for fn in F.local_fns(True):
        if fn.get("trait_default", "").endswith("TimeUnits") and fn.get("name") in names:
            found += 1
            ok = False
            for bi, t in cfg.calls(fn):
                if cfg.callee_path(t["f"]).endswith("ops::Mul::mul") and len(t["args"]) == 2:
                    a0 = cfg.resolve(fn, t["args"][0])
                    a1 = cfg.resolve(fn, t["args"][1])
                    vname = None
                    if a1[0] == "const" and isinstance(a1[1].get("v"), dict):
                        vname = a1[1]["v"].get("variant")
                    elif a1[0] == "rv" and a1[1]["op"] == "agg" and a1[1].get("adt", "").endswith("timeunits::Unit"):
                        vname = a1[1]["vname"]
                    if a0 == ("arg", 1) and vname == names[fn["name"]] and t["dest"]["l"] == 0:
                        ok = True
            chk.ob(rule, "TimeUnits::%s" % fn["name"], "self*Unit::%s" % names[fn["name"]], ok, "E5 delegation")
    chk.floor(rule, "TimeUnits default methods", found, 9)


def _delegates(fn, target, arg_locals):
    """fn's body is a single call of the function `target` with arguments = the given argument locals."""
    calls = list(cfg.calls(fn))
    if len(calls) != 1:
        return False
    bi, t = calls[0]
    if t["f"].get("fn_id") != target["id"]:
        return False
    got = []
    for a in t["args"]:
        p = cfg.operand_place(a)
        if p is None or p["pj"]:
            return False
        got.append(p["l"])
    # arguments may be copied into temporaries first
    copies = {}
    for _, _, s in cfg.stmts(fn):
        if s["k"] == "a" and not s["p"]["pj"] and s["r"]["op"] == "use":
            src = cfg.operand_place(s["r"]["x"])
            if src is not None and not src["pj"]:
                copies[s["p"]["l"]] = src["l"]
    got = [copies.get(g, g) for g in got]
    dest = t["dest"]
    return got == arg_locals and dest["l"] == 0 and not dest["pj"]


def r6_std_bridge(chk, F):
    rule = "C02.R6"
    eng, D = ctx(F)
    fns = F.find(self_ty="Duration", name="from", trait="From")
    into_hf = [f for f in fns if "Duration" in F.ty_s(f["locals"][1]["ty"]) and "time::Duration" in F.ty_s(f["locals"][1]["ty"]) or "web_time" in F.ty_s(f["locals"][1]["ty"])]
    to_std = [f for f in F.find(name="from", trait="From") if F.ty_s(f["locals"][1]["ty"]) == "duration::Duration"]
    chk.floor(rule, "From<std Duration> for Duration", len(into_hf), 1)
    chk.floor(rule, "From<Duration> for std Duration", len(to_std), 1)
    for fn in into_hf:
        # as_nanos() is external: an arbitrary u128 N; result must be from_total_nanoseconds(min(N, i128::MAX))
        def m_as_nanos(e, st, c, args, dest_tid, t):
            return [(st, Int(Lin.atom(e.atom("as_nanos", 0, (1 << 128) - 1)), dest_tid))]

        eng.hooks["Duration::as_nanos"] = m_as_nanos
        finals = eng.run(fn)
        del eng.hooks["Duration::as_nanos"]
        exact_or_saturated(chk, rule, "From<std::time::Duration> for Duration", D, eng, finals,
                           lambda st: Lin.atom(eng.atom("as_nanos", 0, (1 << 128) - 1)))
        no_bad_events(chk, rule, "From<std::time::Duration> for Duration", finals, eng)
    for fn in to_std:
        got = []

        def m_new(e, st, c, args, dest_tid, t):
            got.append((st, args))
            return [(st, Opq(("std-duration", e.term(args[0]), e.term(args[1])), dest_tid))]

        eng.hooks["Duration::new"] = m_new
        finals, args = D.run(fn)
        del eng.hooks["Duration::new"]
        n_new = 0
        for st in finals:
            if st.end != "return":
                continue
            T = D.total(args[0])
            c, _ = D.parts(args[0])
            rl = D.region_label(st, [("centuries", c)])
            v = st.ret
            if isinstance(v, Opq) and v.term[0] == "std-duration":
                # find the recorded call for this path
                rec = [a for s, a in got if s is st]
                if not rec:
                    chk.ob(rule, "From<Duration> for std::time::Duration", "new-args[%s]" % rl, False, detail="call not recorded")
                    continue
                secs, sub = rec[-1]
                n_new += 1
                ok = isinstance(secs, Int) and isinstance(sub, Int) and D.implies_eq(
                    st, secs.lin.scale(10 ** 9) + sub.lin, T) and D.implies(st, sub.lin - (10 ** 9 - 1), "<=") and D.implies(st, -sub.lin, "<=")
                chk.ob(rule, "From<Duration> for std::time::Duration", "secs*1e9+subsec==count[%s]" % rl, ok,
                       "linear form", detail=None if ok else {"secs": repr(secs), "subsec": repr(sub), "exact": repr(T),
                                                                "path": describe_path(eng, st)})
            else:
                # must be the ZERO constant for negative durations only
                ok = D.implies(st, T + 1, "<=") or D.implies(st, T, "==")
                chk.ob(rule, "From<Duration> for std::time::Duration", "zero-for-negative[%s]" % rl, ok, "sign",
                       detail=None if ok else {"ret": repr(v), "path": describe_path(eng, st)})
        no_bad_events(chk, rule, "From<Duration> for std::time::Duration", finals, eng, allow_kinds=("unmodelled",))
        chk.floor(rule, "std Duration::new partitions", n_new, 1)


def r7_compose_integer_exact(chk, F):
    """compose(sign, days, .., ns) must stay in integer arithmetic: no u64 -> f64 cast of a field may flow
    into the Duration it returns (E6, structural)."""
    rule = "C02.R7"
    fn = F.find1(self_ty="Duration", name="compose", trait="")
    # the cone of compose: compose itself and what it calls with float parameters
    lossy = []
    for bi, si, s in cfg.stmts(fn):
        if s["k"] == "a" and s["r"]["op"] == "cast" and s["r"]["ck"] == "IntToFloat":
            src = cfg.operand_place(s["r"]["x"])
            lossy.append((bi, si, F.span(s.get("sp"))))
    calls_f64 = [cfg.callee_name(t["f"]) for bi, t in cfg.calls(fn) if "compose_f64" in cfg.callee_name(t["f"])]
    ok = not lossy and not calls_f64
    chk.ob(rule, "Duration::compose", "integer-fields-through-f64", ok, "no IntToFloat cast / f64 callee in compose",
           detail=None if ok else {"int_to_float_casts": len(lossy), "sites": [x[2] for x in lossy][:8], "f64_callees": calls_f64,
                                   "why": "u64 as f64 followed by f64*factor and a float->int cast rounds for products above 2^53 ns"})
    if ok:
        # then the integer result must be exact: sum of field*factor with the oracle factors
        eng, D = ctx(F)
        finals, args = D.run(fn)
        facs = [UNIT_FACTORS[u] for u in ("Day", "Hour", "Minute", "Second", "Millisecond", "Microsecond", "Nanosecond")]
        mag = Lin.const(0)
        for a, f in zip(args[1:], facs):
            mag = mag + a.lin.scale(f)
        sign = args[0].lin

        for st in finals:
            if st.end != "return":
                continue
            neg = D.implies(st, sign + 1, "<=")
            pos = D.implies(st, -sign, "<=")
            if not (neg or pos):
                chk.ob(rule, "Duration::compose", "sign-decided", False, detail=describe_path(eng, st))
                continue
            spec = -mag if neg else mag
            exact_or_saturated(chk, rule, "Duration::compose[%s]" % ("neg" if neg else "pos"), D, eng, [st], lambda s: spec)
        no_bad_events(chk, rule, "Duration::compose", finals, eng)


def run(chk, F, tier):
    r1_canonical_discipline(chk, F)
    r2_total(chk, F)
    r3_from_total_and_parts(chk, F)
    r4_truncated(chk, F)
    r5_unit_times_int(chk, F)
    r6_std_bridge(chk, F)
    r7_compose_integer_exact(chk, F)
    eng, D = ctx(F)
    chk.extra["engine_stats"] = dict(eng.stats)
    chk.assumptions.append("Duration arguments satisfy the canonical-form invariant established by C02.R1 "
                           "(0 <= ns < NPC, or the value is MAX)")
