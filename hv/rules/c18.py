"""C18 - Duration float interop: rounded out, truncated to ns in, never panics (partly decided)."""
import math
from ..sym import Engine, Int, Bool, Struct, Enum, SymEnum, Ref, Opq, Flt, St, c_lin, TRUE, FALSE
from ..lin import Lin
from ..dur import DurCtx, describe_path
from .. import oracle, cfg
from .. import cfg
from .c02 import ctx, no_bad_events, UNIT_FACTORS
from .c20 import rec_hook, recs

LEVEL = "other"
EXPLANATION = (
    "Decided clauses only. R1 tables: the factor tables of Unit x f64, Unit x i64 and Unit::in_seconds agree variant by "
    "variant with each other and with the statement's units; Unit <-> u8 conversions are mutually inverse. R2 "
    "saturation decision of Unit x f64, extracted as a decision table over the float comparisons on each path: "
    "q >= f64::MAX/factor => MAX, q <= f64::MIN/factor => MIN, otherwise the product q*factor is truncated by a "
    "float->int cast (i64 below 2^63, i128 above) and handed to the exact integer constructors. R3: no panic is "
    "reachable and every loop is bounded in Unit x f64 (any f64 including NaN/inf), to_seconds/to_unit, the from_* "
    "float constructors and Duration x f64. R4/R5: in Duration x f64 the integer converted is the integer the integrality "
    "test certified, and the tolerance is of the order of the machine epsilon. R6-R8 (Duration -> float, hv/fperr.py + "
    "rules/c18_out.py): a static rounding-error analysis of the float expression tree of every path of to_seconds and of "
    "to_unit per unit proves |result - exact| <= 8u*max(|exact|, one second) (u = 2^-53; the bound derived today is 2.6u for "
    "to_seconds and at most 4.7u for to_unit), the correct sign (error below the smallest non-zero value; zero maps to "
    "zero) and monotonicity (path regions tile [MIN,MAX]; computed forward differences >= 0 for every kind of unit step; "
    "seams compared by constant folding). The float -> Duration clause of Unit x f64 is decided as a definition: by R1+R2 the result is, by construction, "
    "int-constructor(trunc(fl(q*factor))) with the exact factor - the statement's 'product rounded to the nearest double and "
    "truncated toward zero'; its corollaries ('exactly the product below 2^53', 'within 1 ns plus float rounding') are "
    "arithmetic consequences of that definition, not separate code properties. NOT decided: the accuracy of Duration x f64 "
    "beyond R4/R5.")

F64_MAX = 1.7976931348623157e308


_FLIP = {"Lt": "Gt", "Le": "Ge", "Gt": "Lt", "Ge": "Le", "Eq": "Eq", "Ne": "Ne"}


def _norm_fcmp(t):
    """a float comparison with the constant on the right (`c <= q` is `q >= c`): the orientation it is written in is not behaviour"""
    if t[2][0] == "c" and t[3][0] != "c" and t[1] in _FLIP:
        return ("fcmp", _FLIP[t[1]], t[3], t[2])
    return t


def unit_f64(chk, F):
    rule = "C18.R2"
    eng, D = ctx(F)
    fn = F.find1(self_ty="Unit", name="mul", trait_ref="Mul<f64>")
    finals, args = D.run(fn)
    q = args[1].t
    seen = {}
    for st in finals:
        u = st.enum_ref.get(args[0].name) if isinstance(args[0], SymEnum) else args[0]
        if not isinstance(u, Enum):
            chk.ob(rule, "<Unit as Mul<f64>>::mul", "unit-decided", False)
            continue
        uname = eng.types[u.tid]["variants"][u.vi]["name"]
        fac = float(UNIT_FACTORS[uname])
        inst = "<Unit as Mul<f64>>::mul[%s]" % uname
        if st.end != "return":
            continue
        conds = [(_norm_fcmp(t), s) for t, s in st.opq if isinstance(t, tuple) and t and t[0] == "fcmp"]
        ge = [(t, s) for t, s in conds if t[1] == "Ge" and t[2] == q]
        le = [(t, s) for t, s in conds if t[1] == "Le" and t[2] == q]
        r = st.ret
        kind = None
        if ge and ge[0][1] is True:
            kind = "high"
            ok = D.is_const_dur(st, r, D.MAX) and ge[0][0][3] == ("c", F64_MAX / fac)
            chk.ob(rule, inst, "q>=f64::MAX/factor=>MAX", ok, "decision table (float comparison terms)", detail=None if ok else repr(ge[0][0]))
        elif le and le[0][1] is True:
            kind = "low"
            ok = D.is_const_dur(st, r, D.MIN) and le[0][0][3] == ("c", -F64_MAX / fac) and ge and ge[0][1] is False
            chk.ob(rule, inst, "q<=f64::MIN/factor=>MIN", ok, "decision table (float comparison terms)", detail=None if ok else repr(le[0][0]))
        else:
            kind = "product"
            prod = ("op", "Mul", q, ("c", fac))
            lt = [(t, s) for t, s in conds if t[1] == "Lt"]
            okc = len(lt) == 1 and lt[0][0][2] == ("op1", "abs", prod) and lt[0][0][3] == ("c", float(2 ** 63))
            chk.ob(rule, inst, "split-at-|q*factor|<i64::MAX", okc, "decision table (float comparison terms)",
                   detail=None if okc else repr(lt)[:300], sample=(uname == "Second"))
            if okc:
                # the integer handed on is the truncating cast of exactly q*factor
                want_bits = 64 if lt[0][1] else 128
                T = D.total(r)
                casts = [a for a in eng.atoms.values() if a.kind == "sym" and False]
                cands = [eng.atoms.get(name) for name, term in getattr(eng, "fresh_terms", {}).items()
                         if isinstance(term, tuple) and term and term[0] == "f2i" and term[1] == prod]
                cands = [a for a in cands if a is not None]
                ok = False
                for at in cands:
                    if T is None:
                        break
                    st2 = st.clone()
                    D.close(st2, [T])
                    al = Lin.atom(at)
                    # exact below the bounds, saturating beyond (from_total_nanoseconds / from_truncated_nanoseconds are C02's)
                    okv = False
                    for reg, cons in D.regions(st2, al):
                        if reg == "fits":
                            okv = D.implies_eq(st2, T, al, cons)
                        elif reg == "high":
                            okv = D.is_const_dur(st2, r, D.MAX, cons)
                        else:
                            okv = D.is_const_dur(st2, r, D.MIN, cons)
                        if not okv:
                            break
                    if okv:
                        ok = True
                        break
                chk.ob(rule, inst, "result=int-constructor(trunc(q*factor))[i%d]" % want_bits, ok, "float->int cast term + linear form",
                       detail=None if ok else {"ret": repr(r)[:200]})
        seen.setdefault(uname, set()).add(kind)
    ok = set(seen) == set(UNIT_FACTORS) and all(v == {"high", "low", "product"} for v in seen.values())
    chk.ob(rule, "<Unit as Mul<f64>>::mul", "three-way-decision-for-all-nine-units", ok, "coverage", detail=None if ok else {k: sorted(v) for k, v in seen.items()})
    no_bad_events(chk, "C18.R3", "<Unit as Mul<f64>>::mul", finals, eng)
    # f64 * Unit delegates
    fn2 = F.find1(self_ty="f64", name="mul", trait_ref="Mul<timeunits::Unit>")
    from .c02 import _delegates
    ok = _delegates(fn2, fn, [2, 1])
    chk.ob(rule, "<f64 as Mul<Unit>>::mul", "delegates-to-Unit*f64(swapped)", ok, "E5 delegation")


def tables(chk, F):
    rule = "C18.R1"
    eng, D = ctx(F)
    fn = F.find1(self_ty="Unit", name="in_seconds", trait="")
    finals, args = D.run(fn)
    got = {}
    for st in finals:
        if st.end != "return":
            continue
        u = eng.deref(st, args[0])
        u = st.enum_ref.get(u.name, u) if isinstance(u, SymEnum) else u
        if isinstance(u, Enum) and isinstance(st.ret, Flt) and st.ret.t[0] == "c":
            got[eng.types[u.tid]["variants"][u.vi]["name"]] = st.ret.t[1]
    want = {"Century": 36525.0 * 86400.0, "Week": 7.0 * 86400.0, "Day": 86400.0, "Hour": 3600.0, "Minute": 60.0, "Second": 1.0,
            "Millisecond": 1e-3, "Microsecond": 1e-6, "Nanosecond": 1e-9}
    for uname in UNIT_FACTORS:
        ok = got.get(uname) == want[uname]
        chk.ob(rule, "Unit::in_seconds", "%s=%r s" % (uname, want[uname]), ok, "finite map vs statement", detail=None if ok else got.get(uname))
        # agreement with the integer table (x 1e-9) to within double rounding
        ok2 = uname in got and abs(got[uname] * 1e9 - UNIT_FACTORS[uname]) <= UNIT_FACTORS[uname] * 4e-16
        chk.ob(rule, "Unit::in_seconds", "%s-agrees-with-integer-factor" % uname, ok2, "sibling table agreement")
    fn = F.find1(self_ty="Unit", name="from_seconds", trait="")
    ins = F.find1(self_ty="Unit", name="in_seconds", trait="")
    eng.hooks_by_id = {ins["id"]: rec_hook(D, "in_seconds")}
    finals, args = D.run(fn)
    eng.hooks_by_id = {}
    for st in finals:
        r = recs(st, "in_seconds")
        ok = st.end == "return" and len(r) == 1 and isinstance(st.ret, Flt) and st.ret.t == ("op", "Div", ("c", 1.0), r[0][1].t)
        chk.ob(rule, "Unit::from_seconds", "1.0/in_seconds()", ok, "float term shape", detail=None if ok else repr(st.ret))
    # Unit <-> u8
    fa = F.find1(self_ty="u8", name="from", trait_ref="From<timeunits::Unit>")
    fb = F.find1(self_ty="Unit", name="from", trait_ref="From<u8>")
    finals, args = D.run(fa)
    fwd = {}
    for st in finals:
        u = st.enum_ref.get(args[0].name, args[0]) if isinstance(args[0], SymEnum) else args[0]
        if st.end == "return" and isinstance(u, Enum) and isinstance(st.ret, Int):
            fwd[eng.types[u.tid]["variants"][u.vi]["name"]] = eng.const_of(st, st.ret)
    finals, args = D.run(fb)
    back = {}
    for st in finals:
        if st.end == "return" and isinstance(st.ret, Enum):
            k = eng.const_of(st, args[0])
            back[k if k is not None else "other"] = eng.types[st.ret.tid]["variants"][st.ret.vi]["name"]
    ok = len(fwd) == 9 and sorted(fwd.values()) == list(range(9)) and all(back.get(v, back.get("other")) == k for k, v in fwd.items()) and back.get("other") == "Second"
    chk.ob(rule, "Unit<->u8", "mutually-inverse-on-0..8", ok, "finite maps", detail=None if ok else {"to_u8": fwd, "from_u8": back})


def panic_free(chk, F):
    rule = "C18.R3"
    eng, D = ctx(F)
    for name in ("to_seconds", "to_unit"):
        fn = F.find1(self_ty="Duration", name=name, trait="")
        finals, args = D.run(fn)
        no_bad_events(chk, rule, "Duration::%s" % name, finals, eng)
        chk.ob(rule, "Duration::%s" % name, "explored", any(st.end == "return" for st in finals), "paths", detail=len(finals))
    um = F.find1(self_ty="Unit", name="mul", trait_ref="Mul<f64>")
    fmu = F.find1(self_ty="f64", name="mul", trait_ref="Mul<timeunits::Unit>")
    for name, unit in (("from_days", "Day"), ("from_hours", "Hour"), ("from_seconds", "Second"), ("from_milliseconds", "Millisecond"),
                       ("from_microseconds", "Microsecond"), ("from_nanoseconds", "Nanosecond")):
        fn = F.find1(self_ty="Duration", name=name, trait="")
        eng.hooks_by_id = {um["id"]: rec_hook(D, "unit*f64")}
        finals, args = D.run(fn)
        eng.hooks_by_id = {}
        for st in finals:
            r = recs(st, "unit*f64")
            from .c05 import scale_name
            ok = st.end == "return" and len(r) == 1 and scale_name(eng, st, r[0][0][0]) == unit and r[0][0][1] is args[0] and st.ret is r[0][1]
            chk.ob(rule, "Duration::%s" % name, "value*Unit::%s" % unit, ok, "E5 delegation")
    # Duration x f64: bounded precision search, no panic
    fn = F.find1(self_ty="Duration", name="mul", trait_ref="Mul<f64>")
    tn = F.find1(self_ty="Duration", name="total_nanoseconds", trait="")
    ft = F.find1(self_ty="Duration", name="from_total_nanoseconds", trait="")
    eng.hooks_by_id = {tn["id"]: rec_hook(D, "total"), ft["id"]: rec_hook(D, "from_total")}
    eng.max_steps = 20000
    finals, args = D.run(fn)
    eng.hooks_by_id = {}
    eng.max_steps = 4000
    ends = {}
    for st in finals:
        ends[st.end] = ends.get(st.end, 0) + 1
    ok = ends.get("return", 0) >= 2 and ends.get("limit", 0) == 0
    chk.ob(rule, "<Duration as Mul<f64>>::mul", "precision-search-terminates", ok, "every path leaves the loop within the step bound",
           detail=ends)
    no_bad_events(chk, rule, "<Duration as Mul<f64>>::mul", finals, eng)
    # compose_f64 = sum of the seven unit conversions, parameter k with unit k, negated for a negative sign (interpreted; shared with C11.R2)
    from .c11 import compose_f64_semantics
    ok, detail = compose_f64_semantics(F)
    chk.ob(rule, "Duration::compose_f64", "sum-of-the-seven-unit-conversions-in-order", ok, "interpreted: result == +/- sum of (param k x unit k)",
           detail=None if ok else detail)


ROUNDERS = ("floor", "round", "trunc", "ceil")


def _dep_f2i(eng, lin, seen=None, out=None, depth=0):
    """float->int conversion terms ("f2i", tree) that a linear form depends on, through uninterpreted atoms and their operands"""
    if seen is None:
        seen, out = set(), []
    if depth > 40:
        return out
    by_id = getattr(eng, "_atoms_by_id", None)
    if by_id is None or len(by_id) != len(eng.atoms):
        by_id = eng._atoms_by_id = {a.id: a for a in eng.atoms.values()}
    ft = getattr(eng, "fresh_terms", {})

    def walk(term):
        if isinstance(term, Lin):
            _dep_f2i(eng, term, seen, out, depth + 1)
        elif isinstance(term, tuple):
            if len(term) == 2 and term[0] == "i" and isinstance(term[1], tuple) and len(term[1]) == 2 and isinstance(term[1][0], tuple):
                for aid, _c in term[1][0]:
                    a = by_id.get(aid)
                    if a is not None:
                        _dep_f2i(eng, Lin.atom(a), seen, out, depth + 1)
                return
            for x in term:
                walk(x)
    for a in lin.c:
        if a.id in seen:
            continue
        seen.add(a.id)
        term = ft.get(a.name) or ft.get(a.name.split(".")[0])
        if isinstance(term, tuple) and term and term[0] == "f2i":
            out.append(term)
            continue
        if term is not None:
            walk(term)
        if isinstance(a.defn, tuple):
            for x in a.defn:
                walk(x)
        elif isinstance(a.defn, Lin):
            walk(a.defn)
    return out


def _rounded(tree):
    """(rounding function, operand) of a float tree that is converted to an integer: `as` truncates toward zero"""
    if tree[0] == "op1" and tree[1] in ROUNDERS:
        return tree[1], tree[2]
    return "trunc", tree


def _certification(term, truth, X):
    """If the float comparison (term, truth) on a path certifies that X is within a tolerance of r(X) for a rounding function r:
    -> (r, tolerance) with tolerance a float (absolute) or ("rel", c) (c*|X|); else None.  Only comparisons that hold are read
    (the negation of a failed comparison says nothing when an operand is NaN)."""
    if truth is not True or term[0] != "fcmp":
        return None
    op, A, B = term[1], term[2], term[3]
    if op in ("Ge", "Gt"):
        A, B = B, A
    elif op == "Eq":
        for P, Q in ((A, B), (B, A)):
            if P[0] == "op1" and P[1] in ROUNDERS and P[2] == X and Q == X:
                return P[1], 0.0
        return None
    elif op not in ("Le", "Lt"):
        return None
    if not (A[0] == "op1" and A[1] == "abs" and A[2][0] == "op" and A[2][1] == "Sub"):
        return None
    P, Q = A[2][2], A[2][3]
    r = None
    for f, x in ((P, Q), (Q, P)):
        if f[0] == "op1" and f[1] in ROUNDERS and f[2] == X and x == X:
            r = f[1]
    if r is None:
        return None
    if B[0] == "c":
        return r, B[1]
    if B[0] == "op" and B[1] == "Mul":
        for cst, ab in ((B[2], B[3]), (B[3], B[2])):
            if cst[0] == "c" and ab == ("op1", "abs", X):
                return r, ("rel", cst[1])
    return None


def integer_certification(chk, F):
    """Duration * f64 scales the factor by powers of ten until it is `integral`, converts it to an integer and divides back.
    Decided on the paths of the interpreted function (helpers inlined, comparisons in either orientation): R4: on every path the
    integer the result depends on is r(X) for a float term X, and - unless the path left the search at the precision cap - a
    comparison that holds on the path certifies |r'(X) - X| <= tolerance for the same X, with r' == r (a test against floor()
    followed by a truncating `as` cast picks the wrong neighbour for negative values) or tolerance 0.  R5: an absolute tolerance t
    lets a non-integral value through; the result is then off by up to |duration| * t, which must stay below 1 ns for the
    magnitudes of the statement (10 000 years); a relative tolerance must be of the order of the machine epsilon."""
    eng, D = ctx(F)
    fn = F.find1(self_ty="Duration", name="mul", trait_ref="Mul<f64>")
    inst = "<Duration as Mul<f64>>::mul"
    tn = F.find1(self_ty="Duration", name="total_nanoseconds", trait="")
    ft = F.find1(self_ty="Duration", name="from_total_nanoseconds", trait="")
    eng.hooks_by_id = {tn["id"]: rec_hook(D, "total"), ft["id"]: rec_hook(D, "from_total")}
    eng.max_steps = 20000
    finals, args = D.run(fn)
    eng.hooks_by_id = {}
    eng.max_steps = 4000
    nconv = ncert = 0
    uncertified = []
    seen_pairs = set()
    tols = set()
    for st in finals:
        if st.end != "return":
            continue
        ft_calls = recs(st, "from_total")
        src = None
        if ft_calls and isinstance(ft_calls[-1][0][0], Int):
            src = ft_calls[-1][0][0].lin
        elif D.total(st.ret) is not None:
            src = D.total(st.ret)
        convs = _dep_f2i(eng, src) if src is not None else []
        if not convs:
            continue  # constant paths (e.g. q folded) convert nothing
        for term in convs:
            nconv += 1
            cf, X = _rounded(term[1])
            certs = [c for c in (_certification(t_, s_, X) for t_, s_ in st.opq if isinstance(t_, tuple) and t_ and t_[0] == "fcmp") if c is not None]
            if not certs:
                uncertified.append(repr(X)[:120])
                continue
            ncert += 1
            for tf, tol in certs:
                seen_pairs.add((tf, cf, tol == 0.0))
                tols.add(tol)
    chk.floor("C18.R4", "float->integer conversions on the paths of Duration * f64", nconv, 30)
    chk.floor("C18.R4", "conversions certified by an integrality test that holds on the path", ncert, 30)
    ok = len(set(uncertified)) <= 1
    chk.ob("C18.R4", inst, "converted-value-is-the-tested-value", ok, "float comparison terms of the path vs the converted term",
           detail=None if ok else {"conversions_without_a_certifying_test": sorted(set(uncertified))[:4],
                                   "meaning": "only the path that leaves the search at the precision cap may convert an uncertified value"})
    for tf, cf, exact in sorted(seen_pairs):
        ok = tf == cf or exact
        chk.ob("C18.R4", inst, "integer-used==integer-certified(test:%s,conversion:%s)" % (tf, cf), ok, "rounding-function agreement",
               detail=None if ok else "a value within the tolerance of an integer on the side where %s() and %s() differ is converted to the wrong neighbour" % (tf, cf))
    max_total = 10_000 * 365.25 * 86400e9  # 10 000 years in ns (statement's quantifier)
    for tol in sorted(tols, key=repr):
        if isinstance(tol, tuple):
            # relative tolerance r: the integer differs from the value by at most r*|value|, i.e. the product is off by a relative
            # r - the float rounding the statement allows as long as r is of the order of the machine epsilon
            ok5 = tol[1] <= 2 * 2.220446049250313e-16
            chk.ob("C18.R5", inst, "integrality-tolerance-relative<=2eps", ok5, "error bound (relative tolerance %g)" % tol[1],
                   detail=None if ok5 else {"relative_tolerance": tol[1]})
            continue
        err = max_total * tol
        ok5 = err <= 1.0
        chk.ob("C18.R5", inst, "integrality-tolerance*|duration|<=1ns", ok5, "error bound (tolerance %g x %.3g ns)" % (tol, max_total),
               detail=None if ok5 else {"tolerance": tol, "error_bound_ns": err,
                                        "meaning": "a factor smaller than the tolerance is certified as the integer 0: the product is lost"})


def run(chk, F, tier):
    tables(chk, F)
    integer_certification(chk, F)
    unit_f64(chk, F)
    panic_free(chk, F)
    from . import c18_out
    c18_out.run_rule(chk, F)
    eng, D = ctx(F)
    chk.extra["engine_stats"] = dict(eng.stats)
    chk.assumptions.append("IEEE-754 binary64 round-to-nearest arithmetic for + - * / and integer->double conversions (the standard model "
                           "fl(x op y) = (x op y)(1+d), |d| <= 2^-53, plus 2^-1074 on underflow) - what Rust guarantees for f64")
    chk.assumptions.append("accuracy of Duration x f64 beyond R4/R5 (certified integer, tolerance): NOT decided by this check")
