"""C18 - Duration float interop: rounded out, truncated to ns in, never panics (partly decided)."""
import math
from ..sym import Engine, Int, Bool, Struct, Enum, SymEnum, Ref, Opq, Flt, St, c_lin, TRUE, FALSE
from ..lin import Lin
from ..dur import DurCtx, describe_path
from .. import oracle, cfg
from .. import cfg
from .c02 import ctx, no_bad_events, UNIT_FACTORS
from .c20 import rec_hook, recs

LEVEL = "other"
EXPLANATION = (
    "Decided clauses only. R1 tables: the factor tables of Unit x f64, Unit x i64 and Unit::in_seconds agree variant by "
    "variant with each other and with the statement's units; Unit <-> u8 conversions are mutually inverse. R2 "
    "saturation decision of Unit x f64, extracted as a decision table over the float comparisons on each path: "
    "q >= f64::MAX/factor => MAX, q <= f64::MIN/factor => MIN, otherwise the product q*factor is truncated by a "
    "float->int cast (i64 below 2^63, i128 above) and handed to the exact integer constructors. R3: no panic is "
    "reachable and every loop is bounded in Unit x f64 (any f64 including NaN/inf), to_seconds/to_unit, the from_* "
    "float constructors and Duration x f64. R4/R5: in Duration x f64 the integer converted is the integer the integrality "
    "test certified, and the tolerance is of the order of the machine epsilon. R6-R8 (Duration -> float, hv/fperr.py + "
    "rules/c18_out.py): a static rounding-error analysis of the float expression tree of every path of to_seconds and of "
    "to_unit per unit proves |result - exact| <= 8u*max(|exact|, one second) (u = 2^-53; the bound derived today is 2.6u for "
    "to_seconds and at most 4.7u for to_unit), the correct sign (error below the smallest non-zero value; zero maps to "
    "zero) and monotonicity (path regions tile [MIN,MAX]; computed forward differences >= 0 for every kind of unit step; "
    "seams compared by constant folding). The float -> Duration clause of Unit x f64 is decided as a definition: by R1+R2 the result is, by construction, "
    "int-constructor(trunc(fl(q*factor))) with the exact factor - the statement's 'product rounded to the nearest double and "
    "truncated toward zero'; its corollaries ('exactly the product below 2^53', 'within 1 ns plus float rounding') are "
    "arithmetic consequences of that definition, not separate code properties. NOT decided: the accuracy of Duration x f64 "
    "beyond R4/R5.")

F64_MAX = 1.7976931348623157e308


def unit_f64(chk, F):
    rule = "C18.R2"
    eng, D = ctx(F)
    fn = F.find1(self_ty="Unit", name="mul", trait_ref="Mul<f64>")
    finals, args = D.run(fn)
    q = args[1].t
    seen = {}
    for st in finals:
        u = st.enum_ref.get(args[0].name) if isinstance(args[0], SymEnum) else args[0]
        if not isinstance(u, Enum):
            chk.ob(rule, "<Unit as Mul<f64>>::mul", "unit-decided", False)
            continue
        uname = eng.types[u.tid]["variants"][u.vi]["name"]
        fac = float(UNIT_FACTORS[uname])
        inst = "<Unit as Mul<f64>>::mul[%s]" % uname
        if st.end != "return":
            continue
        conds = [(t, s) for t, s in st.opq if isinstance(t, tuple) and t and t[0] == "fcmp"]
        ge = [(t, s) for t, s in conds if t[1] == "Ge" and t[2] == q]
        le = [(t, s) for t, s in conds if t[1] == "Le" and t[2] == q]
        r = st.ret
        kind = None
        if ge and ge[0][1] is True:
            kind = "high"
            ok = D.is_const_dur(st, r, D.MAX) and ge[0][0][3] == ("c", F64_MAX / fac)
            chk.ob(rule, inst, "q>=f64::MAX/factor=>MAX", ok, "decision table (float comparison terms)", detail=None if ok else repr(ge[0][0]))
        elif le and le[0][1] is True:
            kind = "low"
            ok = D.is_const_dur(st, r, D.MIN) and le[0][0][3] == ("c", -F64_MAX / fac) and ge and ge[0][1] is False
            chk.ob(rule, inst, "q<=f64::MIN/factor=>MIN", ok, "decision table (float comparison terms)", detail=None if ok else repr(le[0][0]))
        else:
            kind = "product"
            prod = ("op", "Mul", q, ("c", fac))
            lt = [(t, s) for t, s in conds if t[1] == "Lt"]
            okc = len(lt) == 1 and lt[0][0][2] == ("op1", "abs", prod) and lt[0][0][3] == ("c", float(2 ** 63))
            chk.ob(rule, inst, "split-at-|q*factor|<i64::MAX", okc, "decision table (float comparison terms)",
                   detail=None if okc else repr(lt)[:300], sample=(uname == "Second"))
            if okc:
                # the integer handed on is the truncating cast of exactly q*factor
                want_bits = 64 if lt[0][1] else 128
                T = D.total(r)
                casts = [a for a in eng.atoms.values() if a.kind == "sym" and False]
                cands = [eng.atoms.get(name) for name, term in getattr(eng, "fresh_terms", {}).items()
                         if isinstance(term, tuple) and term and term[0] == "f2i" and term[1] == prod]
                cands = [a for a in cands if a is not None]
                ok = False
                for at in cands:
                    if T is None:
                        break
                    st2 = st.clone()
                    D.close(st2, [T])
                    al = Lin.atom(at)
                    # exact below the bounds, saturating beyond (from_total_nanoseconds / from_truncated_nanoseconds are C02's)
                    okv = False
                    for reg, cons in D.regions(st2, al):
                        if reg == "fits":
                            okv = D.implies_eq(st2, T, al, cons)
                        elif reg == "high":
                            okv = D.is_const_dur(st2, r, D.MAX, cons)
                        else:
                            okv = D.is_const_dur(st2, r, D.MIN, cons)
                        if not okv:
                            break
                    if okv:
                        ok = True
                        break
                chk.ob(rule, inst, "result=int-constructor(trunc(q*factor))[i%d]" % want_bits, ok, "float->int cast term + linear form",
                       detail=None if ok else {"ret": repr(r)[:200]})
        seen.setdefault(uname, set()).add(kind)
    ok = set(seen) == set(UNIT_FACTORS) and all(v == {"high", "low", "product"} for v in seen.values())
    chk.ob(rule, "<Unit as Mul<f64>>::mul", "three-way-decision-for-all-nine-units", ok, "coverage", detail=None if ok else {k: sorted(v) for k, v in seen.items()})
    no_bad_events(chk, "C18.R3", "<Unit as Mul<f64>>::mul", finals, eng)
    # f64 * Unit delegates
    fn2 = F.find1(self_ty="f64", name="mul", trait_ref="Mul<timeunits::Unit>")
    from .c02 import _delegates
    ok = _delegates(fn2, fn, [2, 1])
    chk.ob(rule, "<f64 as Mul<Unit>>::mul", "delegates-to-Unit*f64(swapped)", ok, "E5 delegation")


def tables(chk, F):
    rule = "C18.R1"
    eng, D = ctx(F)
    fn = F.find1(self_ty="Unit", name="in_seconds", trait="")
    finals, args = D.run(fn)
    got = {}
    for st in finals:
        if st.end != "return":
            continue
        u = eng.deref(st, args[0])
        u = st.enum_ref.get(u.name, u) if isinstance(u, SymEnum) else u
        if isinstance(u, Enum) and isinstance(st.ret, Flt) and st.ret.t[0] == "c":
            got[eng.types[u.tid]["variants"][u.vi]["name"]] = st.ret.t[1]
    want = {"Century": 36525.0 * 86400.0, "Week": 7.0 * 86400.0, "Day": 86400.0, "Hour": 3600.0, "Minute": 60.0, "Second": 1.0,
            "Millisecond": 1e-3, "Microsecond": 1e-6, "Nanosecond": 1e-9}
    for uname in UNIT_FACTORS:
        ok = got.get(uname) == want[uname]
        chk.ob(rule, "Unit::in_seconds", "%s=%r s" % (uname, want[uname]), ok, "finite map vs statement", detail=None if ok else got.get(uname))
        # agreement with the integer table (x 1e-9) to within double rounding
        ok2 = uname in got and abs(got[uname] * 1e9 - UNIT_FACTORS[uname]) <= UNIT_FACTORS[uname] * 4e-16
        chk.ob(rule, "Unit::in_seconds", "%s-agrees-with-integer-factor" % uname, ok2, "sibling table agreement")
    fn = F.find1(self_ty="Unit", name="from_seconds", trait="")
    ins = F.find1(self_ty="Unit", name="in_seconds", trait="")
    eng.hooks_by_id = {ins["id"]: rec_hook(D, "in_seconds")}
    finals, args = D.run(fn)
    eng.hooks_by_id = {}
    for st in finals:
        r = recs(st, "in_seconds")
        ok = st.end == "return" and len(r) == 1 and isinstance(st.ret, Flt) and st.ret.t == ("op", "Div", ("c", 1.0), r[0][1].t)
        chk.ob(rule, "Unit::from_seconds", "1.0/in_seconds()", ok, "float term shape", detail=None if ok else repr(st.ret))
    # Unit <-> u8
    fa = F.find1(self_ty="u8", name="from", trait_ref="From<timeunits::Unit>")
    fb = F.find1(self_ty="Unit", name="from", trait_ref="From<u8>")
    finals, args = D.run(fa)
    fwd = {}
    for st in finals:
        u = st.enum_ref.get(args[0].name, args[0]) if isinstance(args[0], SymEnum) else args[0]
        if st.end == "return" and isinstance(u, Enum) and isinstance(st.ret, Int):
            fwd[eng.types[u.tid]["variants"][u.vi]["name"]] = eng.const_of(st, st.ret)
    finals, args = D.run(fb)
    back = {}
    for st in finals:
        if st.end == "return" and isinstance(st.ret, Enum):
            k = eng.const_of(st, args[0])
            back[k if k is not None else "other"] = eng.types[st.ret.tid]["variants"][st.ret.vi]["name"]
    ok = len(fwd) == 9 and sorted(fwd.values()) == list(range(9)) and all(back.get(v, back.get("other")) == k for k, v in fwd.items()) and back.get("other") == "Second"
    chk.ob(rule, "Unit<->u8", "mutually-inverse-on-0..8", ok, "finite maps", detail=None if ok else {"to_u8": fwd, "from_u8": back})


def panic_free(chk, F):
    rule = "C18.R3"
    eng, D = ctx(F)
    for name in ("to_seconds", "to_unit"):
        fn = F.find1(self_ty="Duration", name=name, trait="")
        finals, args = D.run(fn)
        no_bad_events(chk, rule, "Duration::%s" % name, finals, eng)
        chk.ob(rule, "Duration::%s" % name, "explored", any(st.end == "return" for st in finals), "paths", detail=len(finals))
    um = F.find1(self_ty="Unit", name="mul", trait_ref="Mul<f64>")
    fmu = F.find1(self_ty="f64", name="mul", trait_ref="Mul<timeunits::Unit>")
    for name, unit in (("from_days", "Day"), ("from_hours", "Hour"), ("from_seconds", "Second"), ("from_milliseconds", "Millisecond"),
                       ("from_microseconds", "Microsecond"), ("from_nanoseconds", "Nanosecond")):
        fn = F.find1(self_ty="Duration", name=name, trait="")
        eng.hooks_by_id = {um["id"]: rec_hook(D, "unit*f64")}
        finals, args = D.run(fn)
        eng.hooks_by_id = {}
        for st in finals:
            r = recs(st, "unit*f64")
            from .c05 import scale_name
            ok = st.end == "return" and len(r) == 1 and scale_name(eng, st, r[0][0][0]) == unit and r[0][0][1] is args[0] and st.ret is r[0][1]
            chk.ob(rule, "Duration::%s" % name, "value*Unit::%s" % unit, ok, "E5 delegation")
    # Duration x f64: bounded precision search, no panic
    fn = F.find1(self_ty="Duration", name="mul", trait_ref="Mul<f64>")
    tn = F.find1(self_ty="Duration", name="total_nanoseconds", trait="")
    ft = F.find1(self_ty="Duration", name="from_total_nanoseconds", trait="")
    eng.hooks_by_id = {tn["id"]: rec_hook(D, "total"), ft["id"]: rec_hook(D, "from_total")}
    eng.max_steps = 20000
    finals, args = D.run(fn)
    eng.hooks_by_id = {}
    eng.max_steps = 4000
    ends = {}
    for st in finals:
        ends[st.end] = ends.get(st.end, 0) + 1
    ok = ends.get("return", 0) >= 2 and ends.get("limit", 0) == 0
    chk.ob(rule, "<Duration as Mul<f64>>::mul", "precision-search-terminates", ok, "every path leaves the loop within the step bound",
           detail=ends)
    no_bad_events(chk, rule, "<Duration as Mul<f64>>::mul", finals, eng)
    # compose_f64 = sum of unit conversions, negated for negative sign (shape)
    fn = F.find1(self_ty="Duration", name="compose_f64", trait="")
    names = [cfg.callee_name(t["f"]).split("::")[-1] for bi, t in cfg.calls(fn)]
    want = ["days", "hours", "minutes", "seconds", "milliseconds", "microseconds", "nanoseconds"]
    ok = [n for n in names if n in want] == want
    chk.ob(rule, "Duration::compose_f64", "sum-of-the-seven-unit-conversions-in-order", ok, "call sequence", detail=None if ok else names)


ROUNDERS = ("floor", "round", "trunc", "ceil")


def integer_certification(chk, F):
    """Duration * f64 scales the factor by powers of ten until it is `integral`, converts it to an integer and divides back.
    R4: the integer used must be the integer the integrality test certified (same rounding function on both sides: a test
    against floor() followed by a truncating `as` cast picks the wrong neighbour for negative values).  R5: an absolute
    tolerance t in that test lets a non-integral value v with |v - int| < t through; the result is then off by up to
    |duration| * t, which must stay below 1 ns for the magnitudes of the statement (10 000 years)."""
    fn = F.find1(self_ty="Duration", name="mul", trait_ref="Mul<f64>")
    inst = "<Duration as Mul<f64>>::mul"
    defs = cfg.unique_defs(fn)
    calls = {t["dest"]["l"]: (bi, t) for bi, t in cfg.calls(fn) if not t["dest"]["pj"]}

    def call_of(o):
        """(callee short name, args) if the operand is (a copy of) a call result"""
        r = cfg.resolve(fn, o, defs)
        p = cfg.operand_place(o)
        for _ in range(8):
            if p is None or p["pj"]:
                return None
            if p["l"] in calls:
                t = calls[p["l"]][1]
                return cfg.callee_name(t["f"]).split("::")[-1], t["args"]
            d = defs.get(p["l"])
            if d is None or d["op"] != "use":
                return None
            p = cfg.operand_place(d["x"])
        return None

    def base_local(o):
        """the source variable an operand is a copy of: follow copies to a local with several definitions (a loop variable)"""
        p = cfg.operand_place(o)
        for _ in range(8):
            if p is None or p["pj"]:
                return None
            d = defs.get(p["l"])
            if d is None or d["op"] != "use":
                return p["l"]
            p = cfg.operand_place(d["x"])
        return None
    # conversions float -> i128
    convs = []
    for bi, si, st in cfg.stmts(fn):
        if st["k"] == "a" and st["r"]["op"] == "cast" and st["r"]["ck"] == "FloatToInt":
            c = call_of(st["r"]["x"])
            if c is not None and c[0] in ROUNDERS:
                convs.append((c[0], base_local(c[1][0])))
            else:
                convs.append(("trunc", base_local(st["r"]["x"])))  # `as` truncates toward zero
    # integrality tests: |f(X) - X| < tolerance   or   f(X) == X
    tests = []
    for bi, si, st in cfg.stmts(fn):
        if st["k"] != "a" or st["r"]["op"] != "bin" or st["r"]["b"] not in ("Lt", "Le", "Eq"):
            continue
        l, r = st["r"]["l"], st["r"]["r"]
        kr = cfg.operand_const(r)
        if kr is not None and isinstance(kr.get("v"), dict) and "fbits" in kr["v"]:
            import struct
            kr = dict(kr, v=struct.unpack("<d", struct.pack("<Q", kr["v"]["fbits"]))[0])
        rel_tol = None
        if st["r"]["b"] in ("Lt", "Le") and kr is None:
            # relative tolerance: c * |X|
            d2 = cfg.resolve(fn, r, defs)
            if d2[0] == "rv" and d2[1]["op"] == "bin" and d2[1]["b"] == "Mul":
                for ca, cb in ((d2[1]["l"], d2[1]["r"]), (d2[1]["r"], d2[1]["l"])):
                    kc = cfg.operand_const(ca)
                    ab = call_of(cb)
                    if kc is not None and isinstance(kc.get("v"), dict) and "fbits" in kc["v"] and ab is not None and ab[0] == "abs":
                        import struct
                        rel_tol = (struct.unpack("<d", struct.pack("<Q", kc["v"]["fbits"]))[0], base_local(ab[1][0]))
        if rel_tol is not None:
            a = call_of(l)
            if a is not None and a[0] == "abs":
                d = cfg.resolve(fn, a[1][0], defs)
                if d[0] == "rv" and d[1]["op"] == "bin" and d[1]["b"] == "Sub":
                    f = call_of(d[1]["l"])
                    g = call_of(d[1]["r"])
                    if f is not None and f[0] in ROUNDERS and base_local(f[1][0]) == base_local(d[1]["r"]) == rel_tol[1]:
                        tests.append((f[0], base_local(f[1][0]), ("rel", rel_tol[0])))
                    elif g is not None and g[0] in ROUNDERS and base_local(g[1][0]) == base_local(d[1]["l"]) == rel_tol[1]:
                        tests.append((g[0], base_local(g[1][0]), ("rel", rel_tol[0])))
            continue
        if st["r"]["b"] in ("Lt", "Le") and kr is not None and isinstance(kr.get("v"), float):
            a = call_of(l)
            if a is None or a[0] != "abs":
                continue
            d = cfg.resolve(fn, a[1][0], defs)
            if d[0] == "rv" and d[1]["op"] == "bin" and d[1]["b"] == "Sub":
                f = call_of(d[1]["l"])
                g = call_of(d[1]["r"])
                if f is not None and f[0] in ROUNDERS and base_local(f[1][0]) == base_local(d[1]["r"]):
                    tests.append((f[0], base_local(f[1][0]), kr["v"]))
                elif g is not None and g[0] in ROUNDERS and base_local(g[1][0]) == base_local(d[1]["l"]):
                    tests.append((g[0], base_local(g[1][0]), kr["v"]))
        elif st["r"]["b"] == "Eq":
            f, g = call_of(l), call_of(r)
            if f is not None and f[0] in ROUNDERS and base_local(f[1][0]) == base_local(r):
                tests.append((f[0], base_local(f[1][0]), 0.0))
            elif g is not None and g[0] in ROUNDERS and base_local(g[1][0]) == base_local(l):
                tests.append((g[0], base_local(g[1][0]), 0.0))
    chk.floor("C18.R4", "float->integer conversions in Duration * f64", len(convs), 1)
    chk.floor("C18.R4", "integrality tests in Duration * f64", len(tests), 1)
    for cf, cv in convs:
        rel = [t for t in tests if t[1] == cv]
        if not rel:
            chk.ob("C18.R4", inst, "converted-value-is-the-tested-value", False, "E5 operand flow", detail={"conversion": cf, "tests": tests})
            continue
        for tf, tv, tol in rel:
            ok = tf == cf or tol == 0.0
            chk.ob("C18.R4", inst, "integer-used==integer-certified(test:%s,conversion:%s)" % (tf, cf), ok, "rounding-function agreement",
                   detail=None if ok else "a value within the tolerance of an integer on the side where %s() and %s() differ is converted to the wrong neighbour" % (tf, cf))
            max_total = 10_000 * 365.25 * 86400e9  # 10 000 years in ns (statement's quantifier)
            if isinstance(tol, tuple):
                # relative tolerance r: the integer differs from the value by at most r*|value|, i.e. the product is off by a relative
                # r - the float rounding the statement allows as long as r is of the order of the machine epsilon
                ok5 = tol[1] <= 2 * 2.220446049250313e-16
                chk.ob("C18.R5", inst, "integrality-tolerance-relative<=2eps", ok5, "error bound (relative tolerance %g)" % tol[1],
                       detail=None if ok5 else {"relative_tolerance": tol[1]})
                continue
            err = max_total * tol
            ok5 = err <= 1.0
            chk.ob("C18.R5", inst, "integrality-tolerance*|duration|<=1ns", ok5, "error bound (tolerance %g x %.3g ns)" % (tol, max_total),
                   detail=None if ok5 else {"tolerance": tol, "error_bound_ns": err,
                                            "meaning": "a factor smaller than the tolerance is certified as the integer 0: the product is lost"})


def run(chk, F, tier):
    tables(chk, F)
    integer_certification(chk, F)
    unit_f64(chk, F)
    panic_free(chk, F)
    from . import c18_out
    c18_out.run_rule(chk, F)
    eng, D = ctx(F)
    chk.extra["engine_stats"] = dict(eng.stats)
    chk.assumptions.append("IEEE-754 binary64 round-to-nearest arithmetic for + - * / and integer->double conversions (the standard model "
                           "fl(x op y) = (x op y)(1+d), |d| <= 2^-53, plus 2^-1074 on underflow) - what Rust guarantees for f64")
    chk.assumptions.append("accuracy of Duration x f64 beyond R4/R5 (certified integer, tolerance): NOT decided by this check")
