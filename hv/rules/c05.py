"""C05 - TAI/TT/GPST/QZSST/GST/BDT conversions are exact, constant-offset and invertible."""
from ..sym import Engine, Int, Bool, Struct, Enum, SymEnum, Ref, Opq, Flt, St
from ..lin import Lin
from ..dur import DurCtx, describe_path
from ..epochalg import EpochAlg, same_scale, scale_name
from .. import oracle, cfg
from .c02 import ctx, no_bad_events

LEVEL = "other"
EXPLANATION = (
    "Finite-partition abstract evaluation of Epoch::to_time_scale: one exploration per ordered pair of the six "
    "uniform scales (36 cells, discriminants fixed, elapsed time symbolic). In each cell the result must be "
    "Epoch{duration: self.duration + (A(src) - A(dst)), time_scale: dst} as a Duration-level linear form, where the "
    "constant is folded from the code's own constants by the analysis and compared with the offset computed "
    "independently from the dates and offsets in the property statement (days-from-civil oracle). A proved "
    "constant difference cannot depend on a float. The reference-epoch constants, prime/gregorian epoch offsets and "
    "the to_*/from_* wrappers are compared with the same oracle (table agreement, delegation).")

UNIFORM = ["TAI", "TT", "GPST", "QZSST", "GST", "BDT"]
ALL = ["TAI", "TT", "ET", "TDB", "UTC", "GPST", "GST", "BDT", "QZSST"]


def fix_enum(eng, st, v, name):
    """Refine a symbolic enum input to the named variant on this entry state."""
    tid = v.tid
    vi = eng.variant_index(tid, name)
    st.enum_ref[v.name] = Enum(tid, vi, ())


def r1_cells(chk, F):
    rule = "C05.R1"
    eng, D = ctx(F)
    fn = F.find1(self_ty="Epoch", name="to_time_scale", trait="")
    A = EpochAlg(F, eng, D)
    cells = 0
    for src in UNIFORM:
        for dst in UNIFORM:
            def setup(st, args, src=src, dst=dst):
                ep = eng.deref(st, args[0])
                fix_enum(eng, st, ep.fs[1], src)
                fix_enum(eng, st, args[1], dst)
                return [st]

            A.install(duration_algebra=True, opaque_conv=False)
            finals, args = D.run(fn, extra=setup, interior=True)
            A.uninstall()
            cells += 1
            K = oracle.tai_offset_ns(src) - oracle.tai_offset_ns(dst)
            inst = "Epoch::to_time_scale[%s->%s]" % (src, dst)
            nret = 0
            for st in finals:
                if st.end != "return":
                    continue
                nret += 1
                ep = eng.deref(st, args[0])
                res = st.ret
                if not (isinstance(res, Struct) and len(res.fs) == 2):
                    chk.ob(rule, inst, "result-shape", False, detail=repr(res))
                    continue
                oks = scale_name(eng, st, res.fs[1]) == dst
                chk.ob(rule, inst, "result-scale", oks, "time_scale == target", detail=None if oks else repr(res.fs[1]))
                TR, T0 = D.total(res.fs[0]), D.total(ep.fs[0])
                st2 = st.clone()
                D.close(st2, [TR, T0])
                ok = TR is not None and D.implies_eq(st2, TR, T0 + K)
                got = None
                if not ok and TR is not None:
                    lo, hi = eng.fm_bounds(st2, TR - T0)
                    got = (lo, hi)
                chk.ob(rule, inst, "offset==A(src)-A(dst)", ok, "Duration-level linear form vs oracle constant",
                       detail=None if ok else {"expected_ns": K, "code_offset_bounds_ns": got, "path": describe_path(eng, st)},
                       sample=(cells in (2, 9)))
                # exactness: the result must not mention any float-derived atom
                bad = [a.name for a in (TR.c.keys() if TR is not None else []) if a.kind not in ("sym", "dur.c", "dur.n")]
                chk.ob(rule, inst, "no-float-in-result", not bad, "E6: atoms of the result are integer inputs only", detail=bad or None)
            no_bad_events(chk, rule, inst, finals, eng)
            chk.ob(rule, inst, "returns", nret >= 1, "paths", detail=nret)
    chk.floor(rule, "uniform-scale cells", cells, 36)


def const_dur_total(D, v):
    f = dict(v["fields"])
    return f["centuries"] * D.NPC + f["nanoseconds"]


def r3_tables(chk, F):
    rule = "C05.R3"
    eng, D = ctx(F)
    # reference epoch constants (TAI durations of each scale's zero)
    for cname, scale in (("GPST_REF_EPOCH", "GPST"), ("QZSST_REF_EPOCH", "QZSST"), ("GST_REF_EPOCH", "GST"), ("BDT_REF_EPOCH", "BDT")):
        c = F.const("timescale::" + cname)["v"]
        f = dict(c["fields"])
        ts = f["time_scale"]["variant"]
        tot = const_dur_total(D, f["duration"])
        ok = ts == "TAI" and tot == oracle.tai_offset_ns(scale)
        chk.ob(rule, cname, "value", ok, "decoded constant vs oracle", detail={"scale": ts, "ns": tot, "oracle_ns": oracle.tai_offset_ns(scale)})
    c = F.const("timescale::UNIX_REF_EPOCH")["v"]
    f = dict(c["fields"])
    ok = f["time_scale"]["variant"] == "TAI" and const_dur_total(D, f["duration"]) == oracle.UNIX_ZERO_DAYS * oracle.DAY_NS
    chk.ob(rule, "UNIX_REF_EPOCH", "value", ok, "decoded constant vs oracle")
    for cname, secs in (("J1900_REF_EPOCH", 43200), ("J2000_REF_EPOCH", 36525 * 86400 + 43200)):
        c = F.const("timescale::" + cname)["v"]
        f = dict(c["fields"])
        ok = f["time_scale"]["variant"] == "TAI" and const_dur_total(D, f["duration"]) == secs * oracle.NS
        chk.ob(rule, cname, "value", ok, "decoded constant vs oracle")
    # prime_epoch_offset / gregorian_epoch_offset as finite maps over the nine scales
    for fname, orc in (("prime_epoch_offset", lambda s: oracle.J2000_S_AFTER_1900 * oracle.NS if s in ("ET", "TDB") else (
            oracle.tai_offset_ns(s) if s in ("GPST", "QZSST", "GST", "BDT") else 0)),
                       ("gregorian_epoch_offset", oracle.gregorian_zero_ns)):
        fn = F.find1(self_ty="TimeScale", name=fname, trait="")
        seen = 0
        for s in ALL:
            def setup(st, args, s=s):
                fix_enum(eng, st, args[0], s)
                return [st]
            eng.max_steps = 20000
            finals, args = D.run(fn, extra=setup)
            eng.max_steps = 4000
            rets = [st for st in finals if st.end == "return"]
            vals = set()
            for st in rets:
                T = D.total(st.ret)
                if T is not None:
                    lo, hi = eng.fm_bounds(st, T)
                    vals.add((lo, hi))
            ok = len(rets) >= 1 and vals == {(orc(s), orc(s))}
            seen += 1
            chk.ob(rule, "TimeScale::%s[%s]" % (fname, s), "value", ok, "finite map vs oracle",
                   detail=None if ok else {"got": sorted(vals), "oracle": orc(s), "ends": [st.end for st in finals][:6],
                                           "events": [e["msg"] for st in finals for e in st.events][:4]})
            no_bad_events(chk, rule, "TimeScale::%s[%s]" % (fname, s), finals, eng)
        chk.floor(rule, "%s cells" % fname, seen, 9)
    fn = F.find1(self_ty="TimeScale", name="reference_epoch", trait="")
    finals, args = D.run(fn)
    for st in finals:
        if st.end != "return":
            continue
        r = st.ret
        ok = isinstance(r, Struct) and D.is_const_dur(st, r.fs[0], D.ZERO) and same_scale(eng, st, r.fs[1], args[0])
        chk.ob(rule, "TimeScale::reference_epoch", "zero-duration-in-own-scale", ok, "decision table")

    # wrappers: to_S_duration() == to_time_scale(S).duration ; from_S_duration(d) == Epoch{d, S}
    A = EpochAlg(F, eng, D)
    n = 0
    for name, scale in (("to_tai_duration", "TAI"), ("to_tt_duration", "TT"), ("to_gpst_duration", "GPST"), ("to_qzsst_duration", "QZSST"),
                        ("to_gst_duration", "GST"), ("to_bdt_duration", "BDT"), ("to_utc_duration", "UTC"), ("to_et_duration", "ET"),
                        ("to_tdb_duration", "TDB")):
        fn = F.find1(self_ty="Epoch", name=name, trait="")
        A.install(duration_algebra=True, opaque_conv=True)
        A.conv_calls = []
        finals, args = D.run(fn, interior=True)
        A.uninstall()
        n += 1
        for st in finals:
            if st.end != "return":
                continue
            ep = eng.deref(st, args[0])
            src = ep.fs[1]
            srcv = st.enum_ref.get(src.name, src) if isinstance(src, SymEnum) else src
            tid = src.tid
            tgt = Enum(tid, eng.variant_index(tid, scale), ())
            TR = D.total(st.ret)
            if scale_name(eng, st, srcv) == scale:
                exp = D.total(ep.fs[0])
                ok = TR is not None and D.implies_eq(st, TR, exp)
            else:
                X = A.conv_duration(ep.fs[0], srcv, tgt)
                st2 = st.clone()
                D.close(st2, [TR, D.total(X)])
                ok = TR is not None and D.implies_eq(st2, TR, D.total(X))
                if not ok and scale in ("GPST", "QZSST", "GST", "BDT") and scale_name(eng, st, srcv) != "TAI":
                    # equivalent form for a uniform scale: conv(self, TAI) - A(S)
                    tai = Enum(tid, eng.variant_index(tid, "TAI"), ())
                    Y = A.conv_duration(ep.fs[0], srcv, tai)
                    ok = D.implies_eq(st2, TR, D.total(Y) - oracle.tai_offset_ns(scale))
                elif not ok and scale in ("GPST", "QZSST", "GST", "BDT"):
                    ok = D.implies_eq(st2, TR, D.total(ep.fs[0]) - oracle.tai_offset_ns(scale))
            chk.ob(rule, "Epoch::%s" % name, "==to_time_scale(%s).duration" % scale, ok, "E5 delegation / linear form",
                   detail=None if ok else {"result": repr(TR), "path": describe_path(eng, st)})
    chk.floor(rule, "to_S_duration wrappers", n, 9)
    n = 0
    for name, scale in (("from_tai_duration", "TAI"), ("from_tt_duration", "TT"), ("from_gpst_duration", "GPST"),
                        ("from_qzsst_duration", "QZSST"), ("from_gst_duration", "GST"), ("from_bdt_duration", "BDT"),
                        ("from_utc_duration", "UTC"), ("from_et_duration", "ET"), ("from_tdb_duration", "TDB")):
        fn = F.find1(self_ty="Epoch", name=name, trait="")
        finals, args = D.run(fn)
        n += 1
        for st in finals:
            if st.end != "return":
                continue
            r = st.ret
            ok = isinstance(r, Struct) and len(r.fs) == 2 and r.fs[0] is args[0] and scale_name(eng, st, r.fs[1]) == scale
            if not ok and isinstance(r, Struct) and len(r.fs) == 2:
                ok = D.implies_eq(st, D.total(r.fs[0]), D.total(args[0])) and scale_name(eng, st, r.fs[1]) == scale
            chk.ob(rule, "Epoch::%s" % name, "Epoch{duration, %s}" % scale, ok, "E5 frame")
    chk.floor(rule, "from_S_duration wrappers", n, 9)


def run(chk, F, tier):
    r1_cells(chk, F)
    r3_tables(chk, F)
    eng, D = ctx(F)
    chk.extra["engine_stats"] = dict(eng.stats)
    chk.assumptions.append("Duration +/- Duration is exact addition of nanosecond counts away from the bounds (C01)")
    chk.assumptions.append("epochs strictly inside the Duration bounds (the statement excludes saturation)")
