"""C06 - UTC <-> TAI follows the IERS leap-second table exactly, in both directions."""
import os
import struct
from ..sym import Engine, Int, Bool, Struct, Enum, SymEnum, Ref, Opq, Flt, Arr, St, c_lin, TRUE, FALSE
from ..lin import Lin
from ..dur import DurCtx, describe_path
from ..epochalg import EpochAlg, same_scale, scale_name
from .. import oracle, cfg
from ..build import REPO
from .c02 import ctx, no_bad_events
from .c05 import fix_enum
from .c20 import rec_hook, recs, _same_ref
from .c03 import ordering_name

LEVEL = "other"
EXPLANATION = (
    "R1 table agreement: the compiler-evaluated LATEST_LEAP_SECONDS constant is compared row for row with "
    "data/leap-seconds.list and the DELTA_AT list of naif0012.txt (dates -> NTP seconds via the calendar oracle); "
    "monotone timestamps, +1 s steps, SOFA rows unannounced and earlier. R2 lookup shape: leap_seconds_with is "
    "explored over the real table with a symbolic epoch: on every path the returned delta_at is that of the last "
    "eligible row whose threshold is <= the epoch's count, None before the first (decision table over 43 intervals). "
    "R3: every leap_seconds call reachable from to_time_scale passes iers_only = true. R4 direction/domain: UTC->TAI "
    "adds and TAI->UTC subtracts the looked-up offset, and the look-up key must be an elapsed-UTC count (the table's "
    "thresholds are UTC/NTP seconds). R5: the threshold comparison must be exact (no f64 view of the count). R6: the "
    "file provider marks rows announced, reads columns 0/1, skips '#' lines and iterates like the built-in one. "
    "Monotonicity/round trip as numeric facts over all instants are argued from R1+R2+R4, not computed.")


def fbits_to_float(v):
    return struct.unpack("<d", struct.pack("<Q", v["fbits"]))[0]


def table(F):
    c = F.const("leap_seconds::LATEST_LEAP_SECONDS")["v"]
    rows = []
    for e in c["arr"]:
        f = dict(e["fields"])
        rows.append((fbits_to_float(f["timestamp_tai_s"]), fbits_to_float(f["delta_at"]), f["announced_by_iers"]))
    return rows


def r1_tables(chk, F):
    rule = "C06.R1"
    rows = table(F)
    iers = [r for r in rows if r[2]]
    sofa = [r for r in rows if not r[2]]
    lsl = oracle.leap_seconds_list(REPO)
    naif = oracle.naif_kernel(REPO)["DELTA_AT"]
    chk.floor(rule, "table rows", len(rows), 42)
    chk.ob(rule, "LATEST_LEAP_SECONDS", "28-iers-rows", len(iers) == len(lsl) == len(naif), "row count vs both data files",
           detail={"code": len(iers), "leap-seconds.list": len(lsl), "naif0012": len(naif)})
    for i, (ts, dat, _) in enumerate(iers):
        ok1 = i < len(lsl) and ts == float(lsl[i][0]) and dat == float(lsl[i][1]) and ts == int(ts)
        chk.ob(rule, "LATEST_LEAP_SECONDS", "row%02d==leap-seconds.list" % i, ok1, "E4 table agreement",
               detail=None if ok1 else {"code": (ts, dat), "file": lsl[i] if i < len(lsl) else None}, sample=(i == 0))
        if i < len(naif):
            d, (y, m, dd) = naif[i]
            ntp = oracle.days_since_1900(y, m, dd) * 86400
            ok2 = ts == float(ntp) and dat == float(d)
        else:
            ok2 = False
        chk.ob(rule, "LATEST_LEAP_SECONDS", "row%02d==naif0012" % i, ok2, "E4 table agreement via calendar oracle",
               detail=None if ok2 else {"code": (ts, dat), "naif": naif[i] if i < len(naif) else None})
    inc = all(rows[i][0] < rows[i + 1][0] for i in range(len(rows) - 1))
    chk.ob(rule, "LATEST_LEAP_SECONDS", "timestamps-strictly-increasing", inc, "table")
    steps = bool(iers) and iers[0][1] == 10.0 and all(iers[i + 1][1] - iers[i][1] == 1.0 for i in range(len(iers) - 1))
    chk.ob(rule, "LATEST_LEAP_SECONDS", "delta-at-10-then-steps-of-1", steps, "table")
    last = bool(iers) and iers[-1][0] == float(oracle.days_since_1900(2017, 1, 1) * 86400) and iers[-1][1] == 37.0
    chk.ob(rule, "LATEST_LEAP_SECONDS", "last-row-2017-01-01-37s", last, "table")
    first = bool(iers) and iers[0][0] == float(oracle.days_since_1900(1972, 1, 1) * 86400)
    chk.ob(rule, "LATEST_LEAP_SECONDS", "first-iers-row-1972-01-01", first, "table")
    sofa_ok = len(sofa) == 14 and all(s[0] < iers[0][0] for s in sofa) and rows[:len(sofa)] == sofa
    chk.ob(rule, "LATEST_LEAP_SECONDS", "14-sofa-rows-unannounced-and-earlier", sofa_ok, "table", detail=len(sofa))
    # Default for LatestLeapSeconds = that table, iter_pos 0
    eng, D = ctx(F)
    fn = F.find1(self_ty="LatestLeapSeconds", name="default", trait_ref="Default")
    finals, args = D.run(fn)
    ok = False
    for st in finals:
        r = st.ret
        if st.end == "return" and isinstance(r, Struct):
            data = [f for f in r.fs if isinstance(f, Arr)]
            pos = [f for f in r.fs if isinstance(f, Int)]
            ok = len(data) == 1 and len(data[0].els) == len(rows) and len(pos) == 1 and pos[0].lin == Lin.const(0) and all(
                isinstance(e, Struct) and isinstance(e.fs[0], Flt) and e.fs[0].t == ("c", rows[i][0]) for i, e in enumerate(data[0].els))
    chk.ob(rule, "<LatestLeapSeconds as Default>::default", "data=LATEST_LEAP_SECONDS,iter_pos=0", ok, "constant")
    return rows


def r2_lookup(chk, F, rows):
    rule = "C06.R2"
    eng, D = ctx(F)
    A = EpochAlg(F, eng, D)
    fns = [f for f in F.find(self_ty="Epoch", name="leap_seconds_with", trait="") if "LatestLeapSeconds" in f["key"]]
    if len(fns) != 1:
        chk.anchor_missing("leap_seconds_with::<LatestLeapSeconds> (%d instances)" % len(fns))
        return
    fn = fns[0]
    dfl = F.find1(self_ty="LatestLeapSeconds", name="default", trait_ref="Default")
    eng.max_steps = 60000
    eng.max_paths = 4000
    # provider argument = the real default table
    st0 = St()
    eng.reset()
    prov = eng.run(dfl)[0].ret

    def setup(st, args):
        return [st]

    A.install(duration_algebra=False, opaque_conv=True)
    finals = []
    args0 = None
    for st, args in D.entry(fn, interior=True):
        args = list(args)
        args[2] = prov
        args0 = args
        finals.extend(eng.run(fn, args=args, st=st))
    A.uninstall()
    eng.max_steps = 4000
    eng.max_paths = 20000
    args = args0
    n = 0
    nnone = 0
    seen = set()
    for st in finals:
        if st.end != "return":
            continue
        ep = eng.deref(st, args[0])
        convs = [t for t in st.trace if isinstance(t, tuple) and t and t[0] == "conv-call"]
        okc = len(convs) >= 1 and all(c[1] is ep and scale_name(eng, st, c[2]) == "TAI" for c in convs)
        if not okc:
            chk.ob(rule, "Epoch::leap_seconds_with", "key=self.to_tai_duration()", False, detail="conversion calls: %d" % len(convs))
            continue
        T = D.total(convs[0][3])
        # the flag on this path
        flag = args[1]
        only = not D.feasible(st, _bool_cons(flag, False))
        notonly = not D.feasible(st, _bool_cons(flag, True))
        if not (only or notonly):
            # the flag is only read after a threshold test succeeded: undecided means every row failed it
            notonly = True
        elig = [(ts, dat) for ts, dat, ann in rows if ann or notonly]
        v = st.ret
        nm = ordering_name(eng, v)
        n += 1
        if nm == "Some":
            val = v.fs[0]
            ok = isinstance(val, Flt) and val.t[0] == "c"
            if ok:
                dat = val.t[1]
                ks = [i for i, (ts, d) in enumerate(elig) if d == dat]
                ok = len(ks) >= 1
                if ok:
                    # Some(dat_k)  =>  T >= ts_k  and  T < ts_{k+1} (next eligible row)
                    found = False
                    for k in ks:
                        lo_ok = D.implies(st, Lin.const(int(elig[k][0]) * oracle.NS) - T, "<=")
                        hi_ok = k == len(elig) - 1 or D.implies(st, T - (int(elig[k + 1][0]) * oracle.NS - 1), "<=")
                        if lo_ok and hi_ok:
                            found = True
                            seen.add((only, k))
                    ok = found
            chk.ob(rule, "Epoch::leap_seconds_with", "Some(delta_k)=>ts_k<=count<ts_k+1[%s]" % ("iers" if only else "all"), ok,
                   "decision table over the table's intervals", detail=None if ok else {"ret": repr(v), "path": describe_path(eng, st)},
                   sample=(n < 3))
        elif nm == "None":
            nnone += 1
            ok = bool(elig) and D.implies(st, T - (int(elig[0][0]) * oracle.NS - 1), "<=")
            chk.ob(rule, "Epoch::leap_seconds_with", "None=>count<first-threshold[%s]" % ("iers" if only else "all"), ok,
                   "decision table", detail=None if ok else describe_path(eng, st))
        else:
            chk.ob(rule, "Epoch::leap_seconds_with", "result-shape", False, detail=repr(v))
    no_bad_events(chk, rule, "Epoch::leap_seconds_with", finals, eng)
    want = {(True, k) for k in range(sum(1 for r in rows if r[2]))} | {(False, k) for k in range(len(rows))}
    chk.ob(rule, "Epoch::leap_seconds_with", "every-row-reachable", seen == want, "coverage of the decision table",
           detail=None if seen == want else {"missing": sorted(want - seen)[:10], "extra": sorted(seen - want)[:10]})
    chk.floor(rule, "lookup partitions", n, 70)
    chk.floor(rule, "None partitions", nnone, 2)


def _bool_cons(b, sense):
    from ..sym import dnf, c_not
    c = b.c if sense else c_not(b.c)
    alts = dnf(c)
    return alts[0] if alts else [(Lin.const(1), "<=")]


def r3_iers_only(chk, F):
    rule = "C06.R3"
    tts = F.find1(self_ty="Epoch", name="to_time_scale", trait="")
    ls = F.find1(self_ty="Epoch", name="leap_seconds", trait="")
    lsw = [f for f in F.find(self_ty="Epoch", name="leap_seconds_with", trait="") if "LatestLeapSeconds" in f["key"]]
    # decided on the interpreted paths of the UTC conversions (helpers inlined): every look-up reached is leap_seconds(.., true),
    # and no other leap-second look-up function is reached
    eng, D = ctx(F)
    A = EpochAlg(F, eng, D)
    # (the table scan itself - every instance of leap_seconds_with - reached without going through leap_seconds is "another look-up")
    others = [f for f in F.fns if f and f.get("local") and "blocks" in f and (f.get("name") or "") == "leap_seconds_with"]
    n = 0
    other = []
    for src, dst in (("UTC", "TAI"), ("TAI", "UTC")):
        def setup(st, args, src=src, dst=dst):
            ep = eng.deref(st, args[0])
            fix_enum(eng, st, ep.fs[1], src)
            fix_enum(eng, st, args[1], dst)
            return [st]
        A.install(duration_algebra=True, opaque_conv=False)
        eng.hooks_by_id[ls["id"]] = rec_hook(D, "leap_seconds")
        for f in others:
            eng.hooks_by_id[f["id"]] = rec_hook(D, "other-lookup:" + f["path"])
        finals, args = D.run(tts, extra=setup, interior=True)
        A.uninstall()
        eng.hooks_by_id = {}
        seen = set()
        for st in finals:
            for a, r in recs(st, "leap_seconds"):
                k = a[1] if len(a) > 1 else None
                ok = isinstance(k, Bool) and k.c == TRUE
                key = repr(k)
                if key in seen and ok:
                    continue
                seen.add(key)
                n += 1
                chk.ob(rule, "Epoch::to_time_scale[%s->%s]" % (src, dst), "leap_seconds(iers_only=true)#%d" % n, ok, "argument value on the interpreted path",
                       detail=None if ok else repr(k)[:200])
            for tr in st.trace:
                if isinstance(tr, tuple) and len(tr) == 4 and tr[0] == "rec" and str(tr[1]).startswith("other-lookup:"):
                    other.append(tr[1].split(":", 1)[1])
    chk.floor(rule, "leap_seconds look-ups on the UTC conversion paths of to_time_scale", n, 2)
    chk.ob(rule, "Epoch::to_time_scale", "no-other-leap-second-lookup", not other, "calls reached on the interpreted paths", detail=sorted(set(other)) or None)
    # leap_seconds(iers_only) = leap_seconds_with(iers_only, LatestLeapSeconds::default())
    ok = False
    if len(lsw) == 1:
        cs = [t for bi, t in cfg.calls(ls) if t["f"].get("fn_id") == lsw[0]["id"]]
        if len(cs) == 1:
            a1 = cfg.resolve(ls, cs[0]["args"][1])
            a2 = cfg.resolve(ls, cs[0]["args"][2])
            ok = a1 == ("arg", 2) and a2[0] == "rv" and a2[1]["op"] == "call" and "LatestLeapSeconds" in cfg.callee_name(a2[1]["t"]["f"]) and \
                cfg.callee_name(a2[1]["t"]["f"]).endswith("default")
    chk.ob(rule, "Epoch::leap_seconds", "=leap_seconds_with(iers_only,LatestLeapSeconds::default())", ok, "E5 delegation")


def r4_direction_domain(chk, F):
    rule = "C06.R4"
    eng, D = ctx(F)
    A = EpochAlg(F, eng, D)
    fn = F.find1(self_ty="Epoch", name="to_time_scale", trait="")
    ls = F.find1(self_ty="Epoch", name="leap_seconds", trait="")
    um = F.find1(self_ty="Unit", name="mul", trait_ref="Mul<f64>")
    cells = 0
    for src, dst in (("UTC", "TAI"), ("TAI", "UTC"), ("UTC", "GPST"), ("GPST", "UTC")):
        def setup(st, args, src=src, dst=dst):
            ep = eng.deref(st, args[0])
            fix_enum(eng, st, ep.fs[1], src)
            fix_enum(eng, st, args[1], dst)
            return [st]
        A.install(duration_algebra=True, opaque_conv=False)
        eng.hooks_by_id[ls["id"]] = rec_hook(D, "leap_seconds")
        eng.hooks_by_id[um["id"]] = rec_hook(D, "unit*f64", skip_const=True)
        finals, args = D.run(fn, extra=setup, interior=True)
        A.uninstall()
        cells += 1
        inst = "Epoch::to_time_scale[%s->%s]" % (src, dst)
        for st in finals:
            if st.end != "return":
                continue
            ep = eng.deref(st, args[0])
            rl, rm = recs(st, "leap_seconds"), recs(st, "unit*f64")
            if len(rl) == 2 and dst == "UTC" and src != "UTC":
                # the two-step scheme (look up at the TAI count, subtract, look up again at that elapsed-UTC estimate and apply the
                # second value) is a correct way to key the table on elapsed UTC: accept it
                def lk(i):
                    k_ = eng.deref(st, rl[i][0][0])
                    lv_ = rl[i][1]
                    lv_ = st.enum_ref.get(lv_.name, lv_) if isinstance(lv_, SymEnum) else lv_
                    nm_ = ordering_name(eng, lv_)
                    ap_ = [m for m in rm if scale_name(eng, st, m[0][0]) == "Second" and nm_ == "Some" and m[0][1] is lv_.fs[0]]
                    L_ = D.total(ap_[0][1]) if ap_ else Lin.const(0)
                    return k_, nm_, L_, (nm_ == "None" or len(ap_) == 1)
                k1, n1, L1, ok1 = lk(0)
                k2, n2, L2, ok2 = lk(1)
                T0 = D.total(eng.deref(st, args[0]).fs[0])
                K = oracle.tai_offset_ns(src) if src != "TAI" else 0
                res = st.ret
                TR = D.total(res.fs[0]) if isinstance(res, Struct) else None
                st2 = st.clone()
                D.close(st2, [x for x in (TR, T0, L1, L2, D.total(k1.fs[0]), D.total(k2.fs[0])) if x is not None])
                ok = ok1 and ok2 and TR is not None and D.implies_eq(st2, D.total(k1.fs[0]), T0 + K) and D.implies_eq(st2, D.total(k2.fs[0]), T0 + K - L1) and \
                    D.implies_eq(st2, TR, T0 + K - L2) and scale_name(eng, st, k1.fs[1]) == "TAI" and scale_name(eng, st, k2.fs[1]) == "TAI"
                chk.ob(rule, inst, "two-step-lookup(keyed-on-elapsed-UTC-estimate)", ok, "Duration-level linear forms")
                continue
            if len(rl) != 1:
                chk.ob(rule, inst, "one-leap-second-lookup", False, detail=len(rl))
                continue
            key = eng.deref(st, rl[0][0][0])
            Tkey = D.total(key.fs[0]) if isinstance(key, Struct) else None
            # the offset applied: seconds * Unit::Second of the looked-up value (0.0 when None)
            applied = [m for m in rm if scale_name(eng, st, m[0][0]) == "Second"]
            res = st.ret
            TR = D.total(res.fs[0]) if isinstance(res, Struct) else None
            T0 = D.total(ep.fs[0])
            K = 0
            other = src if src != "UTC" else dst
            if other != "TAI":
                K = oracle.tai_offset_ns(other)
            looked = rl[0][1]
            lv = st.enum_ref.get(looked.name, looked) if isinstance(looked, SymEnum) else looked
            lname = ordering_name(eng, lv)
            if TR is None or Tkey is None or lname not in ("Some", "None"):
                chk.ob(rule, inst, "offset=lookup*Unit::Second", False, detail={"lookup": repr(lv)})
                continue
            if lname == "None":
                okn = len(applied) == 0
                L = Lin.const(0)
            else:
                okn = len(applied) == 1 and applied[0][0][1] is lv.fs[0]
                L = D.total(applied[0][1]) if applied else Lin.const(0)
            chk.ob(rule, inst, "offset=lookup.unwrap_or(0)*Unit::Second[%s]" % lname, okn, "E5 operand flow",
                   detail=None if okn else {"unit_mul_calls": len(applied)})
            if not okn:
                continue
            st2 = st.clone()
            D.close(st2, [TR, T0, L, Tkey])
            if src == "UTC":
                okd = D.implies_eq(st2, TR, T0 + L - K)
                chk.ob(rule, inst, "UTC->TAI-adds-the-offset", okd, "Duration-level linear form", detail=None if okd else repr(TR)[:300])
                # key domain: elapsed UTC == self.duration
                okk = D.implies_eq(st2, Tkey, T0)
                tag = scale_name(eng, st, key.fs[1])
                chk.ob(rule, inst, "lookup-epoch-tagged-TAI(count-read-as-is)", tag == "TAI", "E5 scale-domain tag (leap_seconds_with reads epoch.to_tai_duration())",
                       detail=None if tag == "TAI" else {"tagged": tag})
                chk.ob(rule, inst, "lookup-key-is-elapsed-UTC", okk, "E5 scale-domain tag", detail=None if okk else repr(Tkey)[:300])
            else:
                okd = D.implies_eq(st2, TR, T0 + K - L)
                chk.ob(rule, inst, "TAI->UTC-subtracts-the-offset", okd, "Duration-level linear form", detail=None if okd else repr(TR)[:300])
                # key must be an elapsed-UTC count, i.e. (TAI count - offset), not the TAI count itself
                tai = T0 + K
                is_tai = D.implies_eq(st2, Tkey, tai)
                # leap_seconds_with reads the key as `epoch.to_tai_duration()` (C06.R2): the epoch handed to the lookup must carry the
                # scale its count is expressed in - a TAI count tagged UTC would be converted a second time
                tag = scale_name(eng, st, key.fs[1])
                okt = (tag == "TAI") if is_tai else True
                chk.ob(rule, inst, "lookup-epoch-scale-tag-matches-its-count", okt, "E5 scale-domain tag",
                       detail=None if okt else {"count": "TAI count of the epoch", "tagged": tag})
                chk.ob(rule, inst, "lookup-key-is-elapsed-UTC", not is_tai, "E5 scale-domain tag (contradiction with the UTC->TAI site)",
                       detail=None if not is_tai else {"key": "TAI count of the epoch", "why": "the table thresholds are UTC counts: in the delta_at seconds before each "
                                                      "leap second the TAI count is already past the threshold, so the new offset is subtracted one leap second early "
                                                      "(2016-12-31T23:59:24 UTC -> TAI -> UTC returns 23:59:23)"})
        no_bad_events(chk, rule, inst, finals, eng)
    chk.floor(rule, "UTC cells", cells, 4)


def r5_exact_threshold(chk, F):
    rule = "C06.R5"
    n = 0
    for fn in F.find(self_ty="Epoch", name="leap_seconds_with", trait="") + F.find(self_ty="Epoch", name="leap_seconds_with", trait="", generic=True):
        n += 1
        floaty = [cfg.callee_name(t["f"]) for bi, t in cfg.calls(fn) if any(x in cfg.callee_name(t["f"]) for x in ("to_seconds", "to_unit", "to_tai_seconds"))]
        fcmp = []
        for bi, si, s in cfg.stmts(fn):
            if s["k"] == "a" and s["r"]["op"] == "bin" and s["r"]["b"] in ("Ge", "Gt", "Le", "Lt"):
                lt = cfg.place_types(F, fn, cfg.operand_place(s["r"]["l"]))[-1] if cfg.operand_place(s["r"]["l"]) else s["r"]["l"].get("k", {}).get("ty")
                if lt is not None and F.types[lt]["k"] == "float":
                    fcmp.append(F.span(s.get("sp")))
        ok = not floaty and not fcmp
        chk.ob(rule, fn["key"].split("::")[-1] if False else "Epoch::leap_seconds_with%s" % ("<generic>" if fn.get("generic") else "<%s>" % F.ty_s(fn["targs"][0]).split("::")[-1]),
               "threshold-compared-exactly", ok, "E6: no f64 view of the count in the deciding comparison",
               detail=None if ok else {"float_views": floaty, "float_comparisons": fcmp})
    chk.floor(rule, "leap_seconds_with instances", n, 2)


def skeleton(F, fn):
    out = []
    for b in fn["blocks"]:
        if b.get("cleanup"):
            continue
        for s in b["s"]:
            if s["k"] == "a" and s["r"]["op"] == "bin":
                out.append(s["r"]["b"])
        t = b["t"]
        if t["k"] == "call":
            nm = cfg.callee_name(t["f"]).split("::")[-1].split("<")[0]
            if nm in ("len", "get", "copied", "index"):
                out.append("call:" + nm)
        elif t["k"] == "switch":
            out.append("switch")
        elif t["k"] == "assert":
            out.append("assert:" + t["msg"])
    return out


def _next_back_semantics(F, fn):
    eng, D = ctx(F)
    lens, gets = [], []

    def h_len(e, st, c, a, dest_tid, t):
        v = e.fresh(dest_tid, ("container-len",))
        e.add_cons(st, [(-v.lin, "<=")])
        st.trace.append(("rec", "len", list(a), v))
        return [(st, v)]

    def h_get(e, st, c, a, dest_tid, t):
        v = e.fresh(dest_tid, ("container-get", e.term(a[1])))
        st.trace.append(("rec", "get", list(a), v))
        return [(st, v)]

    def h_copied(e, st, c, a, dest_tid, t):
        v = e.fresh(dest_tid, ("copied", e.term(a[0])))
        st.trace.append(("rec", "copied", list(a), v))
        return [(st, v)]

    def h_deref(e, st, c, a, dest_tid, t):
        return [(st, e.fresh(dest_tid, ("deref", e.term(a[0]))))]
    eng.hooks["core::slice::<impl [T]>::len"] = h_len
    eng.hooks["core::vec::Vec::<T, A>::len"] = h_len
    eng.hooks["core::slice::<impl [T]>::get"] = h_get
    eng.hooks["core::option::Option::<&T>::copied"] = h_copied
    eng.hooks["<core::vec::Vec<T, A> as core::ops::Deref>::deref"] = h_deref
    try:
        finals, args = D.run(fn, canonical=False)
    finally:
        eng.hooks.clear()
    ini = eng.sym_cells0[args[0].key]
    names = eng.types[ini.tid]["variants"][0]["fields"]
    if "iter_pos" not in names:
        return False, "the provider has no iter_pos counter"
    ip = names.index("iter_pos")
    pos0 = ini.fs[ip].lin
    problems = []
    kinds = set()
    for st in finals:
        if st.end == "panic":
            # `len - pos` cannot underflow while pos <= len: only reachable beyond the end of a walk (pos > len); checked below
            if D.feasible(st, [(pos0 - (recs(st, "len")[0][1].lin if recs(st, "len") else pos0), "<=")]) and recs(st, "len"):
                problems.append("a panic is reachable with pos <= len")
            continue
        if st.end != "return":
            problems.append("path ends in %s" % st.end)
            continue
        ls = recs(st, "len")
        gs = recs(st, "get")
        cs = recs(st, "copied")
        L = ls[0][1].lin if ls else None
        if L is None or any(x[1].lin.key() != L.key() for x in ls):
            problems.append("no single container length on the path")
            continue
        after = eng.deref(st, args[0])
        pos1 = after.fs[ip].lin
        r = st.ret
        r = st.enum_ref.get(r.name, r) if isinstance(r, SymEnum) else r
        if not D.feasible(st, [(pos0 - L, "<=")]):
            continue  # pos > len: beyond the end of a walk, not part of the obligation
        if not gs:
            kinds.add("none")
            if not (isinstance(r, Enum) and r.vi == 0):
                problems.append("no element fetched but the result is not None")
            if not D.implies(st, pos0 - L, "==", [(pos0 - L, "<=")]):
                problems.append("None although pos < len is possible")
            if not D.implies(st, pos1 - pos0, "=="):
                problems.append("the counter moves on the None path")
            continue
        kinds.add("some")
        if len(gs) != 1 or len(cs) != 1 or r is not cs[0][1] or cs[0][0][0] is not gs[0][1]:
            problems.append("result is not copied(get(..)) of one fetch")
            continue
        idx = gs[0][0][1].lin
        if D.feasible(st, [(pos0 - L, "==")]):
            problems.append("an element is fetched although pos == len is possible")
        if not D.implies(st, pos1 - pos0 - 1, "=="):
            problems.append("the counter does not advance by one")
        if not D.implies(st, idx - L + pos0 + 1, "=="):
            problems.append("element index is %r, expected len - pos - 1" % (idx,))
    ok = not problems and kinds == {"none", "some"}
    return ok, sorted(set(problems))[:4] or {"kinds": sorted(kinds)}


def r6_file_provider(chk, F):
    rule = "C06.R6"
    a = F.find1(self_ty="LatestLeapSeconds", name="next_back", trait_ref="DoubleEndedIterator")
    b = F.find1(self_ty="LeapSecondsFile", name="next_back", trait_ref="DoubleEndedIterator")
    # both providers' next_back, interpreted with the container's len()/get() uninterpreted: None (counter unchanged) iff the counter
    # equals the length, otherwise the counter advances by one and the element handed out is data[len - counter'] - the same
    # reverse walk for the built-in table and for the file, however each is written
    for nm_, fn_ in (("LatestLeapSeconds::next_back", a), ("LeapSecondsFile::next_back", b)):
        ok_, det_ = _next_back_semantics(F, fn_)
        chk.ob(rule, nm_, "reverse-walk:None-iff-pos==len,else-data[len-pos-1],pos+1" if nm_.startswith("Latest") else "same-iteration-shape-as-built-in-provider",
               ok_, "interpreted with len/get uninterpreted", detail=None if ok_ else det_)
    inst = [f for f in F.find(self_ty="Epoch", name="leap_seconds_with", trait="")]
    names = sorted(F.ty_s(f["targs"][0]).split("::")[-1] for f in inst)
    chk.ob(rule, "Epoch::leap_seconds_with", "one-generic-body-for-both-providers", names == ["LatestLeapSeconds", "LeapSecondsFile"],
           "instances of the generic look-up", detail=names)
    fps = [f for f in F.local_fns(True) if f.get("name") == "from_path" and "LeapSecondsFile" in f["key"]]
    if len(fps) != 1:
        chk.anchor_missing("LeapSecondsFile::from_path")
        return
    fp = fps[0]
    # (the parser's local cone: from_path and the private helpers / closures its per-line logic may live in)
    from .c09 import _local_cone
    cone = _local_cone(F, fp, depth=3)
    aggs = [s for g in cone for bi, si, s in cfg.stmts(g) if s["k"] == "a" and s["r"]["op"] == "agg" and s["r"].get("adt", "").endswith("LeapSecond")]
    ok = len(aggs) == 1
    if ok:
        xs = aggs[0]["r"]["xs"]
        fn_ = aggs[0]["r"]["fnames"]
        k = cfg.operand_const(xs[fn_.index("announced_by_iers")])
        ok = k is not None and k.get("v") is True
    chk.ob(rule, "LeapSecondsFile::from_path", "rows-marked-announced", ok, "constant field of the aggregate")
    # the timestamp column (seconds since 1900; the row's key in every look-up) must be read with a type that holds every timestamp
    # the data type can carry - a 32-bit parse silently rejects rows dated after 2036.  Backward flow from the aggregate's field to the
    # numeric parse it comes from (through casts, copies and the Ok payload of the parse result).
    from .c09 import _all_defs
    widths = []
    for g in cone:
        alld = _all_defs(g)

        def parse_types(o, depth=0, alld=alld):
            p_ = cfg.operand_place(o)
            if p_ is None or depth > 14:
                return set()
            out = set()
            for r_ in alld.get(p_["l"], []):
                if r_["op"] == "call":
                    nm_ = cfg.callee_name(r_["t"]["f"])
                    if "lexical_core::parse::<" in nm_ or nm_.startswith("lexical_core::parse"):
                        out.add(nm_.split("parse::<")[-1].split(">")[0].split(",")[0] if "parse::<" in nm_ else "?")
                    else:
                        for a_ in r_["t"]["args"]:
                            out |= parse_types(a_, depth + 1)
                elif r_["op"] in ("use", "cast"):
                    out |= parse_types(r_["x"], depth + 1)
                elif r_["op"] == "agg":
                    for x_ in r_.get("xs", []):
                        out |= parse_types(x_, depth + 1)
            return out
        for bi, si, s_ in cfg.stmts(g):
            if s_["k"] == "a" and s_["r"]["op"] == "agg" and s_["r"].get("adt", "").endswith("LeapSecond"):
                fn_ = s_["r"]["fnames"]
                if "timestamp_tai_s" in fn_:
                    widths.append(sorted(parse_types(s_["r"]["xs"][fn_.index("timestamp_tai_s")])))
    wide = {"u64", "i64", "u128", "i128", "f64", "usize", "isize"}
    okw = len(widths) == 1 and len(widths[0]) >= 1 and set(widths[0]) <= wide
    chk.ob(rule, "LeapSecondsFile::from_path", "timestamp-column-read-with-at-least-64-bits", okw, "backward flow from the row's timestamp field to its numeric parse",
           detail=None if okw else {"parse_types_reaching_timestamp_tai_s": widths})
    # columns 0 and 1, '#' lines skipped
    idx = []
    nexts = 0
    for g in cone:
        for bi, t in cfg.calls(g):
            nm = cfg.callee_name(t["f"])
            if nm.endswith("::index") and "Vec<&str>" in nm:
                k = cfg.resolve(g, t["args"][1])
                idx.append(k[1].get("v") if k[0] == "const" else None)
            if ("SplitWhitespace" in nm or "SplitAsciiWhitespace" in nm) and nm.split("::<")[0].endswith("::next"):
                nexts += 1
    # accepted idioms: columns[0] / columns[1] of the collected row, or the first two items pulled from the row's tokenizer
    okcol = (sorted(x for x in idx if x is not None) == [0, 1] and len(idx) == 2) or (not idx and nexts == 2)
    chk.ob(rule, "LeapSecondsFile::from_path", "columns-0-and-1", okcol, "constant indices of the collected row / first two tokens of the row",
           detail={"indices": idx, "tokenizer_next_calls": nexts})
    # the columns of a row: the IERS file aligns them with runs of blanks and tabs, so the row tokenizer must collapse runs of
    # white space.  Accepted idioms (type-resolved: the iterator type that is collected into the column vector):
    # str::split_whitespace / str::split_ascii_whitespace
    allcalls = [cfg.callee_name(t["f"]) for g in cone for bi, t in cfg.calls(g)]
    coll = [c_ for c_ in allcalls if c_.split("::<")[0].endswith("::collect") or "::collect::<" in c_]
    strcoll = [c_ for c_ in coll if "&str" in c_]
    if strcoll:
        okc = all(("SplitWhitespace" in c_ or "SplitAsciiWhitespace" in c_) for c_ in strcoll)
    else:
        # the row is not collected: its columns are pulled straight from the tokenizer, which must be one that collapses runs, and
        # no other splitter may produce row columns
        okc = nexts >= 1 and not any(("::Split<" in c_ or "SplitN<" in c_ or "SplitTerminator<" in c_) and c_.split("::<")[0].endswith("::next") for c_ in allcalls)
    chk.ob(rule, "LeapSecondsFile::from_path", "row-tokenizer-collapses-white-space-runs", okc,
           "resolved iterator type that yields the row's columns (accepted idioms: split_whitespace, split_ascii_whitespace)", detail=None if okc else coll)
    hashcmp = False
    for g in cone:
      for bi, si, s in cfg.stmts(g):
        if s["k"] == "a" and s["r"]["op"] == "bin" and s["r"]["b"] == "Eq":
            for o in (s["r"]["l"], s["r"]["r"]):
                k = cfg.operand_const(o)
                if k is not None and isinstance(k.get("v"), dict) and k["v"].get("char") == "#":
                    hashcmp = True
    if not hashcmp:
        # `line.starts_with('#')`
        for g in cone:
            for bi, t in cfg.calls(g):
                if "::starts_with" in cfg.callee_name(t["f"]) and len(t["args"]) == 2:
                    k = cfg.resolve(g, t["args"][1])
                    if k[0] == "const" and isinstance(k[1].get("v"), dict) and k[1]["v"].get("char") == "#":
                        hashcmp = True
    chk.ob(rule, "LeapSecondsFile::from_path", "skips-#-comment-lines", hashcmp, "comparison with '#' (== on the first character, or starts_with('#'))")


def run(chk, F, tier):
    rows = r1_tables(chk, F)
    r5_exact_threshold(chk, F)
    r2_lookup(chk, F, rows)
    r3_iers_only(chk, F)
    r4_direction_domain(chk, F)
    r6_file_provider(chk, F)
    eng, D = ctx(F)
    chk.extra["engine_stats"] = dict(eng.stats)
    chk.assumptions.append("Duration +/- exact away from the bounds (C01); to_tai_duration of the key epoch is the identity conversion (C05)")
    chk.assumptions.append("strict monotonicity / round trip for all instants are argued from R1+R2+R4, not computed")
