"""Helpers to build abstract `efmt::Format` / `Formatter` values and to explore `Display for Formatter`."""
from .sym import Int, Bool, Struct, Enum, SymEnum, Ref, Opq, Flt, Str, Arr, St, TRUE, FALSE
from .lin import Lin
from .models import outputs, FmtArgs, FmtArg

TOKENS = ["Year", "YearShort", "Month", "Day", "Hour", "Minute", "Second", "Subsecond", "OffsetHours", "OffsetMinutes", "Timescale",
          "DayOfYearInteger", "DayOfYear", "Weekday", "WeekdayShort", "WeekdayDecimal", "MonthName", "MonthNameShort"]


class FormatBuilder:
    def __init__(self, F, eng):
        self.F, self.eng = F, eng
        self.format_tid = eng.find_tid("efmt::format::Format")
        self.item_tid = eng.find_tid("efmt::formatter::Item")
        self.token_tid = eng.find_tid("parser::Token")
        ft = eng.types[self.format_tid]["variants"][0]
        self.ffields = ft["fields"]
        self.fftys = ft["ftys"]
        it = eng.types[self.item_tid]["variants"][0]
        self.ifields = it["fields"]
        self.iftys = it["ftys"]
        self.items_tid = self.fftys[self.ffields.index("items")]
        self.optitem_tid = eng.types[self.items_tid]["elem"]
        self.optchar_tid = self.iftys[self.ifields.index("sep_char")]
        self.char_tid = eng.types[self.optchar_tid]["variants"][1]["ftys"][0]
        self.usize_tid = self.fftys[self.ffields.index("num_items")]
        self.bool_tid = self.iftys[self.ifields.index("optional")]

    def optchar(self, c):
        if c is None:
            return Enum(self.optchar_tid, 0, ())
        return Enum(self.optchar_tid, 1, (Int(Lin.const(ord(c)), self.char_tid),))

    def item(self, token, sep=None, sep2=None, optional=False):
        vals = {"token": Enum(self.token_tid, self.eng.variant_index(self.token_tid, token), ()), "sep_char": self.optchar(sep),
                "second_sep_char": self.optchar(sep2), "optional": Bool(TRUE if optional else FALSE)}
        return Struct(self.item_tid, [vals[f] for f in self.ifields])

    def format(self, items):
        """items: list of (token, sep, sep2, optional)"""
        els = []
        for it in items:
            els.append(Enum(self.optitem_tid, 1, (self.item(*it),)))
        while len(els) < 16:
            els.append(Enum(self.optitem_tid, 0, ()))
        vals = {"items": Arr(self.items_tid, els), "num_items": Int(Lin.const(len(items)), self.usize_tid)}
        return Struct(self.format_tid, [vals[f] for f in self.ffields])

    def decode_const(self, v):
        """decoded JSON constant of type Format -> list of (token, sep, sep2, optional), num_items, trailing_all_none"""
        f = dict(v["fields"])
        n = f["num_items"]
        items = []
        for e in f["items"]["arr"]:
            if e["variant"] == "None":
                items.append(None)
            else:
                it = dict(dict(e["fields"])["0"]["fields"]) if isinstance(dict(e["fields"]).get("0"), dict) else dict(e["fields"][0][1]["fields"])

                def oc(x):
                    if x["variant"] == "None":
                        return None
                    return x["fields"][0][1]["char"]
                items.append((it["token"]["variant"], oc(it["sep_char"]), oc(it["second_sep_char"]), it["optional"]))
        return items, n


def parse_format_oracle(s, letters):
    """Semantics of Format::from_str as documented: split on '%', first char = token letter, then up to two
    separator characters, '?' marks the token optional. -> list of (token, sep, sep2, optional)"""
    out = []
    for tok in s.split("%"):
        if not tok:
            continue
        t = letters[tok[0]]
        c1 = tok[1] if len(tok) > 1 else None
        c2 = tok[2] if len(tok) > 2 else None
        opt = False
        if c1 == "?":
            c1, opt = None, True
        if c2 == "?":
            c2, opt = None, True
        if c1 is None and c2 is not None:
            c1, c2 = c2, None
        out.append((t, c1, c2, opt))
    return out
